/-
lattice_connected_lemma (DESIGN.md 4.3): a non-empty proper subset S of the R x C grid has a cell with a lattice neighbour
(in the grid) outside S.  Used by the exit argument of gen_dfs ("the stack is empty, so every visited cell has no unvisited
in-grid neighbour, so visited is the whole grid").
-/
import Mathlib

def inGrid (R C : ℤ) (p : ℤ × ℤ) : Prop := 0 ≤ p.1 ∧ p.1 < R ∧ 0 ≤ p.2 ∧ p.2 < C

def latAdj (p q : ℤ × ℤ) : Prop := |p.1 - q.1| + |p.2 - q.2| = 1

theorem lattice_connected_aux (R C : ℤ) (S : ℤ × ℤ → Prop) (hS : ∀ x, S x → inGrid R C x) :
    ∀ n : ℕ, ∀ a b : ℤ × ℤ, S a → inGrid R C b → ¬ S b →
      (a.1 - b.1).natAbs + (a.2 - b.2).natAbs = n →
      ∃ x y, S x ∧ inGrid R C y ∧ ¬ S y ∧ latAdj x y := by
  intro n
  induction n with
  | zero =>
    intro a b ha _ hnb h
    have h1 : a.1 = b.1 := by omega
    have h2 : a.2 = b.2 := by omega
    have : a = b := Prod.ext h1 h2
    exact absurd (this ▸ ha) hnb
  | succ n ih =>
    intro a b ha hb hnb h
    have hag := hS a ha
    obtain ⟨ha0, ha1, ha2, ha3⟩ := hag
    obtain ⟨hb0, hb1, hb2, hb3⟩ := hb
    -- one step from a towards b
    by_cases hr : a.1 = b.1
    · -- same row: move along the column
      by_cases hc : a.2 < b.2
      · let a' : ℤ × ℤ := (a.1, a.2 + 1)
        have hg : inGrid R C a' := ⟨ha0, ha1, by show 0 ≤ a.2 + 1; omega, by show a.2 + 1 < C; omega⟩
        by_cases hs : S a'
        · exact ih a' b hs ⟨hb0, hb1, hb2, hb3⟩ hnb (by show (a.1 - b.1).natAbs + (a.2 + 1 - b.2).natAbs = n; omega)
        · exact ⟨a, a', ha, hg, hs, by show |a.1 - a.1| + |a.2 - (a.2 + 1)| = 1; simp⟩
      · have hc' : b.2 < a.2 := by
          rcases lt_trichotomy a.2 b.2 with h' | h' | h'
          · exact absurd h' hc
          · exfalso; omega
          · exact h'
        let a' : ℤ × ℤ := (a.1, a.2 - 1)
        have hg : inGrid R C a' := ⟨ha0, ha1, by show 0 ≤ a.2 - 1; omega, by show a.2 - 1 < C; omega⟩
        by_cases hs : S a'
        · exact ih a' b hs ⟨hb0, hb1, hb2, hb3⟩ hnb (by show (a.1 - b.1).natAbs + (a.2 - 1 - b.2).natAbs = n; omega)
        · exact ⟨a, a', ha, hg, hs, by show |a.1 - a.1| + |a.2 - (a.2 - 1)| = 1; simp⟩
    · by_cases hlt : a.1 < b.1
      · let a' : ℤ × ℤ := (a.1 + 1, a.2)
        have hg : inGrid R C a' := ⟨by show 0 ≤ a.1 + 1; omega, by show a.1 + 1 < R; omega, ha2, ha3⟩
        by_cases hs : S a'
        · exact ih a' b hs ⟨hb0, hb1, hb2, hb3⟩ hnb (by show (a.1 + 1 - b.1).natAbs + (a.2 - b.2).natAbs = n; omega)
        · exact ⟨a, a', ha, hg, hs, by show |a.1 - (a.1 + 1)| + |a.2 - a.2| = 1; simp⟩
      · have hgt : b.1 < a.1 := by omega
        let a' : ℤ × ℤ := (a.1 - 1, a.2)
        have hg : inGrid R C a' := ⟨by show 0 ≤ a.1 - 1; omega, by show a.1 - 1 < R; omega, ha2, ha3⟩
        by_cases hs : S a'
        · exact ih a' b hs ⟨hb0, hb1, hb2, hb3⟩ hnb (by show (a.1 - 1 - b.1).natAbs + (a.2 - b.2).natAbs = n; omega)
        · exact ⟨a, a', ha, hg, hs, by show |a.1 - (a.1 - 1)| + |a.2 - a.2| = 1; simp⟩

/-- lattice_connected_lemma -/
theorem lattice_connected_lemma (R C : ℤ) (S : ℤ × ℤ → Prop) (hS : ∀ x, S x → inGrid R C x)
    (hne : ∃ a, S a) (hproper : ∃ b, inGrid R C b ∧ ¬ S b) :
    ∃ x y, S x ∧ inGrid R C y ∧ ¬ S y ∧ latAdj x y := by
  obtain ⟨a, ha⟩ := hne
  obtain ⟨b, hb, hnb⟩ := hproper
  exact lattice_connected_aux R C S hS _ a b ha hb hnb rfl
