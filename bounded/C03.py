"""Bounded stand-in for C03: every element of a dataset produced by the real MazeDataset.generate (serial and with
worker pools of size 1,2,3,5) is checked against the item contract written from the property statement, using the
independent lattice-graph spec (vlib.pyspec) for connections and breadth-first distances.  Labelled bounded."""
from __future__ import annotations

import contextlib
import itertools
import signal
import threading
import time
import traceback
import warnings

import numpy as np

from vlib import pyspec as S
from vlib.runner import BoundedResult

# generator x representative constructor kwargs
GEN_KWARGS = [
    ("gen_dfs", {}),
    ("gen_dfs", {"do_forks": False}),
    ("gen_dfs", {"accessible_cells": 6}),
    ("gen_dfs", {"max_tree_depth": 3}),
    ("gen_wilson", {}),
    ("gen_percolation", {"p": 0.3}),
    ("gen_percolation", {"p": 0.6}),
    ("gen_dfs_percolation", {"p": 0.2}),
    ("gen_prim", {}),
    ("gen_prim", {"do_forks": False}),
]
GEN_KWARGS_THOROUGH_EXTRA = [
    ("gen_dfs", {"accessible_cells": 0.5}),
    ("gen_dfs", {"max_tree_depth": 0.5}),
    ("gen_dfs", {"accessible_cells": 6, "max_tree_depth": 4}),
    ("gen_percolation", {"p": 0.9}),
    ("gen_dfs_percolation", {"p": 0.5, "accessible_cells": 7}),
    ("gen_prim", {"accessible_cells": 5}),
]
ENDPOINTS = [
    {},
    {"endpoints_not_equal": True},
    {"deadend_start": True},
    {"deadend_end": True, "endpoints_not_equal": True},
    {"allowed_start": [(0, 0), (1, 1)]},
    {"allowed_end": [(0, 1)]},
]
ENDPOINTS_THOROUGH_EXTRA = [
    {"deadend_start": True, "deadend_end": True},
    {"allowed_start": [(0, 0), (1, 1)], "allowed_end": [(0, 1), (1, 0)], "endpoints_not_equal": True},
    {"allowed_start": [(1, 0)], "deadend_end": True},
]
# generators documented to return a spanning tree of the whole grid (C01): with every endpoint option used here there are
# always admissible endpoints (a tree with >= 2 cells has >= 2 dead ends; (0,0),(1,1),(0,1),(1,0) exist for grid_n >= 2),
# so the documented "no valid positions" ValueError cannot be justified for them
TOTAL = {("gen_dfs", "{}"), ("gen_wilson", "{}"), ("gen_prim", "{}")}
POOLS = (1, 2, 3, 5)


CONFIG_SECONDS = 30.0  # generating one of these datasets serially takes milliseconds; longer means it does not terminate
POOL_SECONDS = 12.0  # ... with a worker pool ~0.1 s
RETRY_SECONDS = 10.0
RETRIES = 2
MAX_TIMEOUTS = 1  # stop the batch after that many configurations that hang on every attempt
FLAKY_HANGS = []  # configurations where an attempt did not return (kept for the evidence text)


class Timeout(BaseException):
    """raised by the interval timer inside the call under check (BaseException: not swallowed by `except Exception`)"""


class Abort(Exception):
    """too many non-terminating generations: stop the batch (failures are recorded)"""


@contextlib.contextmanager
def deadline(seconds):
    """raise Timeout in the main thread when the body runs longer than `seconds`; the timer keeps firing every 2 s so that
    clean-up code of the library that blocks while the Timeout unwinds (Pool.terminate()) is interrupted as well"""
    if threading.current_thread() is not threading.main_thread():
        yield
        return
    state = {"active": True}

    def _raise(signum, frame):
        if state["active"]:
            raise Timeout("".join(traceback.format_stack(frame, limit=12)))  # where the main thread was when the time ran out

    old = signal.signal(signal.SIGALRM, _raise)
    signal.setitimer(signal.ITIMER_REAL, seconds, 2.0)
    try:
        yield
    finally:
        while True:
            try:
                state["active"] = False
                signal.setitimer(signal.ITIMER_REAL, 0)
                signal.signal(signal.SIGALRM, old)
                break
            except Timeout:  # fired between the statements above
                continue


def _tup(x):
    return tuple(int(v) for v in x)


def norm_cfg(d):
    """config dict as recorded / read back from JSON -> canonical small dict"""
    ep = {}
    for k, v in (d.get("endpoint") or {}).items():
        ep[k] = [_tup(c) for c in v] if isinstance(v, (list, tuple)) else v
    return {
        "name": str(d.get("name", "c03")),
        "grid_n": int(d["grid_n"]),
        "n_mazes": int(d["n_mazes"]),
        "gen": str(d["gen"]),
        "kwargs": dict(d.get("kwargs") or {}),
        "endpoint": ep,
        "seed": int(d["seed"]),
        "parallel": int(d.get("parallel") or 0),
    }


def make_cfg(d):
    from maze_dataset import MazeDatasetConfig
    from maze_dataset.generation.generators import GENERATORS_MAP

    return MazeDatasetConfig(
        name=d["name"],
        grid_n=d["grid_n"],
        n_mazes=d["n_mazes"],
        maze_ctor=GENERATORS_MAP[d["gen"]],
        maze_ctor_kwargs=dict(d["kwargs"]),
        endpoint_kwargs={k: (list(v) if isinstance(v, list) else v) for k, v in d["endpoint"].items()},
        seed=d["seed"],
    )


def _proc_counter():
    """next worker number multiprocessing will hand out in this process (the library derives worker seeds from it); None if unknown"""
    try:
        import multiprocessing.process as mp

        return int(repr(mp._process_counter).split("(")[1].rstrip(")"))
    except Exception:  # noqa: BLE001
        return None


def _set_proc_counter(n):
    try:
        import multiprocessing.process as mp

        mp._process_counter = itertools.count(int(n))
    except Exception:  # noqa: BLE001
        pass


def generate(d):
    from maze_dataset import MazeDataset

    cfg = make_cfg(d)
    if d["parallel"]:
        return MazeDataset.generate(cfg, gen_parallel=True, pool_kwargs=dict(processes=d["parallel"]))
    return MazeDataset.generate(cfg, gen_parallel=False)


def check_item(res, d, i, maze, proc_counter=None):
    """the item contract of the property statement on one element; returns number of failures added"""
    gen = d["gen"]
    n = d["grid_n"]
    ep = d["endpoint"]
    before = len(res.failures)
    inp = {"cfg": d, "index": i, "proc_counter": proc_counter}

    def bad(what, msg, observed=None):
        res.fail(f"C03:{what}:{gen}", f"{msg} [maze {i} of {gen} {d['kwargs']} grid {n} n_mazes {d['n_mazes']} seed {d['seed']} endpoint {ep} pool {d['parallel']}]", {**inp, "connection_list": conn_in, "solution": sol_in}, observed)

    conn = getattr(maze, "connection_list", None)
    sol = getattr(maze, "solution", None)
    conn_in = conn if isinstance(conn, np.ndarray) else repr(conn)[:200]
    sol_in = sol if isinstance(sol, np.ndarray) else repr(sol)[:200]
    if not (isinstance(conn, np.ndarray) and conn.shape == (2, n, n)):
        bad("conn-shape", f"connection_list has shape {getattr(conn, 'shape', None)}, configured grid is {n}x{n}")
        return len(res.failures) - before
    if not S.wf(conn):
        bad("conn-wf", f"connection_list is not well formed (dtype {conn.dtype}, or a connection leaving the grid)")
    if not (isinstance(sol, np.ndarray) and sol.ndim == 2 and sol.shape[1] == 2 and sol.shape[0] >= 1 and np.issubdtype(sol.dtype, np.integer)):
        bad("solution-shape", f"solution is not an (n>=1, 2) integer array: shape {getattr(sol, 'shape', None)} dtype {getattr(sol, 'dtype', None)}")
        return len(res.failures) - before
    path = [_tup(r) for r in sol]
    s, e = path[0], path[-1]
    sp = _tup(np.asarray(maze.start_pos).reshape(-1))
    epos = _tup(np.asarray(maze.end_pos).reshape(-1))
    if sp != s:
        bad("start_pos", f"solution starts at {s} but start_pos is {sp}", [sp, s])
    if epos != e:
        bad("end_pos", f"solution ends at {e} but end_pos is {epos}", [epos, e])
    if not all(S.in_grid((n, n), c) for c in path):
        bad("in-grid", f"solution leaves the {n}x{n} grid: {path}", path)
        return len(res.failures) - before
    for k in range(len(path) - 1):
        if not S.edge(conn, path[k], path[k + 1]):
            bad("connected-steps", f"solution step {path[k]}->{path[k+1]} is not a connection", path)
            break
    if len(set(path)) != len(path):
        bad("simple", f"solution visits a cell twice: {path}", path)
    dist = S.bfs_dist(conn, s)
    if e not in dist:
        bad("shortest", f"end {e} is not reachable from start {s} at all", path)
    elif len(path) - 1 != dist[e]:
        bad("shortest", f"solution has {len(path)-1} steps, breadth-first distance {s}->{e} is {dist[e]}", path)
    opts = {k: v for k, v in ep.items() if k != "except_when_invalid"}
    no_special = all(opts.get(k) in (None, False) for k in ("allowed_start", "allowed_end", "deadend_start", "deadend_end"))
    if (no_special or opts.get("endpoints_not_equal")) and s == e:
        bad("endpoints-distinct", f"start and end are both {s} although the endpoint options {ep} do not allow equal endpoints", [s, e])
    if opts.get("allowed_start") is not None and s not in {_tup(c) for c in opts["allowed_start"]}:
        bad("allowed_start", f"start {s} is not in allowed_start {opts['allowed_start']}", s)
    if opts.get("allowed_end") is not None and e not in {_tup(c) for c in opts["allowed_end"]}:
        bad("allowed_end", f"end {e} is not in allowed_end {opts['allowed_end']}", e)
    if opts.get("deadend_start") and len(S.neighbors(conn, s)) != 1:
        bad("deadend_start", f"start {s} has {len(S.neighbors(conn, s))} connected neighbours, a dead end has exactly one", s)
    if opts.get("deadend_end") and len(S.neighbors(conn, e)) != 1:
        bad("deadend_end", f"end {e} has {len(S.neighbors(conn, e))} connected neighbours, a dead end has exactly one", e)
    return len(res.failures) - before


def check_config(res, d):
    """generate one configuration with the real code and check the dataset; returns 'ok' | 'skipped' | 'failed'"""
    d = norm_cfg(d)
    ckey = repr(sorted(d.items(), key=lambda kv: kv[0]))
    before = len(res.failures)
    pc = _proc_counter() if d["parallel"] else None
    limit = POOL_SECONDS if d["parallel"] else CONFIG_SECONDS
    try:
        try:
            with deadline(limit):
                ds = generate(d)
        except Timeout as first_stack:
            # Known on the unchanged tree (CPython 3.12 multiprocessing): when a worker raises the documented ValueError the
            # exception leaves the library's `with Pool(...)` block and Pool.terminate() occasionally dead-locks in
            # task_handler.join() (~0.5 % of such calls).  That is a non-terminating call, i.e. outside the quantifier of the
            # property ("for which generation terminates"), and it is not reproducible.  A hang that repeats is reported.
            entry = {"cfg": d, "attempts_hung": 1, "stack": str(first_stack)[-1800:]}
            FLAKY_HANGS.append(entry)
            ds = None
            for _ in range(RETRIES):
                if d["parallel"] and pc is not None:
                    _set_proc_counter(pc)  # same worker numbers -> same per-worker seeds as the attempt that hung
                try:
                    with deadline(RETRY_SECONDS):
                        ds = generate(d)  # a ValueError / other exception here is handled below like a first-attempt one
                    break
                except Timeout as again:
                    entry["attempts_hung"] += 1
                    entry["stack"] = str(again)[-1800:]
            if ds is None:
                res.seen(("timeout", ckey), nontrivial=False)
                res.fail(f"C03:no-termination:{d['gen']}", f"generation did not return ({limit:.0f} s, then {RETRIES} x {RETRY_SECONDS:.0f} s) for {d}", {"cfg": d, "proc_counter": pc}, entry["stack"])
                if sum(1 for f in res.failures if f["key"].startswith("C03:no-termination")) >= MAX_TIMEOUTS:
                    raise Abort()
                return "failed"
    except Abort:
        raise
    except ValueError as ex:
        # the documented "no valid start or end positions" / component-too-small error: configuration outside the quantifier
        res.seen(("skipped", ckey), nontrivial=False)
        if (d["gen"], repr(d["kwargs"])) in TOTAL:
            res.fail(f"C03:unjustified-valueerror:{d['gen']}", f"generation raised ValueError for a spanning-tree generator where admissible endpoints always exist: {d}", {"cfg": d, "proc_counter": pc}, f"ValueError: {str(ex)[:300]}")
            return "failed"
        return "skipped"
    except Exception as ex:  # noqa: BLE001  (the code under check raised something the property does not allow)
        res.seen(("raised", ckey), nontrivial=False)
        res.fail(f"C03:generate-raises:{d['gen']}", f"generation raised {type(ex).__name__} for {d}", {"cfg": d, "proc_counter": pc}, f"{type(ex).__name__}: {str(ex)[:300]}\n{traceback.format_exc(limit=4)}")
        return "failed"
    try:
        n_got = len(ds)
    except Exception as ex:  # noqa: BLE001
        res.fail("C03:len", f"len(dataset) raised {type(ex).__name__} for {d}", {"cfg": d, "proc_counter": pc}, str(ex)[:200])
        return "failed"
    if n_got != d["n_mazes"]:
        res.fail("C03:len", f"dataset has {n_got} elements, configured n_mazes={d['n_mazes']} ({d['gen']} pool {d['parallel']})", {"cfg": d, "proc_counter": pc}, n_got)
    for i in range(n_got):
        maze = ds[i]
        sol = getattr(maze, "solution", None)
        conn = getattr(maze, "connection_list", None)
        res.seen((ckey, i, conn.tobytes() if isinstance(conn, np.ndarray) else None, sol.tobytes() if isinstance(sol, np.ndarray) else None),
                 nontrivial=isinstance(sol, np.ndarray) and len(sol) > 1,
                 sample={"cfg": d, "index": i, "solution": sol.tolist() if isinstance(sol, np.ndarray) else None})
        check_item(res, d, i, maze, pc)
    return "ok" if len(res.failures) == before else "failed"


def _serial_configs(tier, rng):
    thorough = tier == "thorough"
    gks = GEN_KWARGS + (GEN_KWARGS_THOROUGH_EXTRA if thorough else [])
    eps = ENDPOINTS + (ENDPOINTS_THOROUGH_EXTRA if thorough else [])
    n_seeds = 5 if thorough else 3
    k = 0
    for (gen, kw), grid_n, n_mazes, ep in itertools.product(gks, (2, 3, 4, 5, 6), (1, 3, 8), eps):
        seeds = [(42, 7, 0, 2 ** 31 - 1)[k % 4]] + [int(rng.integers(0, 2 ** 20)) for _ in range(n_seeds - 1)]
        k += 1
        for seed in seeds:
            yield {"name": "c03", "grid_n": grid_n, "n_mazes": n_mazes, "gen": gen, "kwargs": kw, "endpoint": ep, "seed": seed, "parallel": 0}


def _parallel_configs(tier, rng):
    thorough = tier == "thorough"
    if thorough:
        gks = GEN_KWARGS + GEN_KWARGS_THOROUGH_EXTRA
        k = 0
        for pool, (gen, kw), ep, n_mazes in itertools.product(POOLS, gks, ENDPOINTS + ENDPOINTS_THOROUGH_EXTRA, (1, 3, 8)):
            k += 1
            yield {"name": "c03p", "grid_n": (2, 3, 4, 5, 6)[k % 5], "n_mazes": n_mazes, "gen": gen, "kwargs": kw, "endpoint": ep, "seed": int(rng.integers(0, 2 ** 20)) if k % 3 else 42, "parallel": pool}
    else:
        # every pool size x every generator/kwargs, endpoint option and grid size rotating; n_mazes 8 (more tasks than workers) or 3
        k = 0
        for pool, (gen, kw) in itertools.product(POOLS, GEN_KWARGS):
            for n_mazes in (8, 3, 8, 1):
                ep = ENDPOINTS[k % len(ENDPOINTS)]
                yield {"name": "c03p", "grid_n": (3, 4, 5, 6, 2)[k % 5], "n_mazes": n_mazes, "gen": gen, "kwargs": kw, "endpoint": ep, "seed": int(rng.integers(0, 2 ** 20)) if k % 3 else 42, "parallel": pool}
                k += 1


def run(tier, seed):
    warnings.simplefilter("ignore")
    rng = np.random.default_rng(seed)
    thorough = tier == "thorough"
    fns = ["MazeDataset.generate", "_generate_maze_helper", "_maze_gen_init_worker", "LatticeMaze.generate_random_path", "SolvedMaze.__init__", "SolvedMaze.from_lattice_maze"]
    res_s = BoundedResult(
        "C03.items.serial",
        rule="MazeDataset.generate(cfg, gen_parallel=False) over generators x constructor kwargs ("
        + str(len(GEN_KWARGS) + (len(GEN_KWARGS_THOROUGH_EXTRA) if thorough else 0))
        + " combinations) x grid_n 2..6 x n_mazes {1,3,8} x "
        + str(len(ENDPOINTS) + (len(ENDPOINTS_THOROUGH_EXTRA) if thorough else 0))
        + " endpoint option sets x " + ("5" if thorough else "3")
        + " seeds (library default 42 / 7 / 0 / 2^31-1 rotating, plus seeded random); one evaluation per dataset element (item contract incl. shortest by BFS); "
        "configurations raising the documented ValueError are counted as trivial; non-trivial = solution longer than one cell; distinct by (config, index, bits)",
        exhaustive=False,
        functions=fns,
    )
    res_p = BoundedResult(
        "C03.items.parallel",
        rule="MazeDataset.generate(cfg, gen_parallel=True, pool_kwargs=dict(processes=k)) for k in {1,2,3,5} x generators/kwargs x "
        + ("all endpoint option sets x n_mazes {1,3,8}, grid_n rotating 2..6" if thorough else "n_mazes {8,3,8,1}, endpoint options and grid_n rotating")
        + "; worker-to-task schedule as it happens (imap); same item contract on every element; skipped/trivial as in the serial check",
        exhaustive=False,
        functions=fns,
    )
    del FLAKY_HANGS[:]
    for res, gen_cfgs in ((res_s, _serial_configs), (res_p, _parallel_configs)):
        t0 = time.time()
        counts = {"ok": 0, "skipped": 0, "failed": 0}
        try:
            import maze_dataset  # noqa: F401

            for d in gen_cfgs(tier, rng):
                counts[check_config(res, d)] += 1
                if len(res.failures) >= 50:
                    break
        except Abort:
            pass
        except Exception as ex:  # noqa: BLE001
            res.errors.append(f"{type(ex).__name__}: {ex}\n{traceback.format_exc(limit=6)}")
        res.rule += f" [configurations: {counts['ok']} generated and clean, {counts['skipped']} skipped (documented ValueError), {counts['failed']} with failures]"
        flaky = [h for h in FLAKY_HANGS if bool(h["cfg"]["parallel"]) == (res is res_p) and h["attempts_hung"] <= RETRIES]
        if flaky:
            res.rule += (f" [NOTE: {len(flaky)} pool generation(s) did not return within {POOL_SECONDS:.0f} s and terminated when repeated (Pool.terminate() dead-lock after a worker raised; "
                         f"non-terminating calls are outside the quantifier); first: {flaky[0]['cfg']}]")
        res.seconds = time.time() - t0
    return [res_s, res_p]


def replay(check, inp):
    """regenerate the recorded configuration with the real code and re-check every element; True iff nothing violates the
    item contract now.  Serial generation is deterministic, one run.  Pool generation is not reproducible by construction
    (worker seeds depend on the worker number, and python's `random` - used by the dfs generators - is reseeded from OS
    entropy in every forked child), so: first a pool with the recorded worker numbering, then up to 24 fresh pools,
    stopping at the first violation."""
    warnings.simplefilter("ignore")
    res = BoundedResult("replay", "replay")
    d = norm_cfg(inp["cfg"])
    for attempt in range(25 if d["parallel"] else 1):
        if attempt == 0 and d["parallel"] and inp.get("proc_counter") is not None:
            _set_proc_counter(inp["proc_counter"])  # same worker numbers, hence the same numpy seeds, as in the recorded run
        try:
            st = check_config(res, d)
        except Abort:
            break
        if st == "skipped" and attempt == 0:
            print("  configuration now raises the documented ValueError (skipped)")
        if res.failures:
            break
    for f in res.failures[:10]:
        print("  still failing:", f["key"], f["what"][:300])
    return not res.failures
