"""Bounded stand-in for C02: the real LatticeMaze.find_shortest_path against breadth-first distances of the
independent spec (vlib.pyspec) over enumerated small grids and seeded random graphs with cycles.
Oracle (from the property statement only): reachable  -> (n,2) integer array, first cell = start, last cell = end,
consecutive cells joined by a connection, no repeated cell, n-1 == BFS distance; unreachable -> ValueError;
start == end -> the one-cell path.  Labelled bounded, never counted as proved."""
from __future__ import annotations

import contextlib
import multiprocessing
import os
import signal
import threading
import time
import traceback
import warnings

import numpy as np

from vlib import pyspec as S
from vlib.runner import BoundedResult

FORMS = ("tuple", "ndarray", "int8", "list-mixed")
SMALL = [(1, 1), (1, 2), (2, 1), (2, 2), (1, 3), (3, 1), (2, 3), (3, 2)]


CALL_SECONDS = 5.0  # a solver call on these grids takes milliseconds; longer means it does not terminate
MAX_TIMEOUTS = 3  # per batch: stop exploring after that many non-terminating calls
MAX_TIMEOUTS_TOTAL = 8  # over all worker processes (shared counter, inherited through fork)
_SHARED = None


class Timeout(BaseException):
    """raised by the interval timer inside the call under check (BaseException: not swallowed by `except Exception`)"""


class Abort(Exception):
    """too many non-terminating calls: stop this batch (the failures are already recorded)"""


@contextlib.contextmanager
def deadline(seconds):
    """raise Timeout in the main thread when the body runs longer than `seconds`; the timer keeps firing every 2 s so that
    clean-up code of the library that blocks while the Timeout unwinds (Pool.terminate()) is interrupted as well"""
    if threading.current_thread() is not threading.main_thread():
        yield
        return
    state = {"active": True}

    def _raise(signum, frame):
        if state["active"]:
            raise Timeout("".join(traceback.format_stack(frame, limit=12)))  # where the main thread was when the time ran out

    old = signal.signal(signal.SIGALRM, _raise)
    signal.setitimer(signal.ITIMER_REAL, seconds, 2.0)
    try:
        yield
    finally:
        while True:
            try:
                state["active"] = False
                signal.setitimer(signal.ITIMER_REAL, 0)
                signal.signal(signal.SIGALRM, old)
                break
            except Timeout:  # fired between the statements above
                continue


def _too_many_timeouts():
    return _SHARED is not None and _SHARED.value >= MAX_TIMEOUTS_TOTAL


def _mk(conn):
    from maze_dataset.maze import LatticeMaze

    return LatticeMaze(connection_list=conn)


def _arg(c, form, which):
    """the same cell in the argument forms callers use"""
    if form == "tuple":
        return (int(c[0]), int(c[1]))
    if form == "ndarray":
        return np.array(c)
    if form == "int8":
        return np.array(c, dtype=np.int8)
    # mixed: tuple for one endpoint, ndarray for the other
    return (int(c[0]), int(c[1])) if which == 0 else np.array(c)


def check_pair(res, m, conn, s, e, dist, form, ckey=None):
    """one solver call against the oracle; `dist` = S.bfs_dist(conn, s)"""
    R, C = conn.shape[1:]
    reachable = e in dist
    res.seen((R, C, ckey if ckey is not None else conn.tobytes(), s, e, form), nontrivial=(s != e),
             sample={"shape": [R, C], "conn": conn.astype(int).tolist(), "start": list(s), "end": list(e), "form": form, "bfs": dist.get(e)})
    inp = {"conn": conn, "start": list(s), "end": list(e), "form": form}
    try:
        with deadline(CALL_SECONDS):
            got = m.find_shortest_path(_arg(s, form, 0), _arg(e, form, 1))
    except Timeout:
        res.fail("C02:no-termination", f"find_shortest_path({s},{e}) on {R}x{C} did not return within {CALL_SECONDS:.0f} s (reachable={reachable}, breadth-first distance {dist.get(e)})", inp, "timeout")
        if _SHARED is not None:
            with _SHARED.get_lock():
                _SHARED.value += 1
        if sum(1 for f in res.failures if f["key"] == "C02:no-termination") >= MAX_TIMEOUTS or _too_many_timeouts():
            raise Abort()
        return
    except ValueError as ex:
        if reachable:
            res.fail("C02:raises-when-reachable", f"ValueError although {e} is {dist[e]} steps from {s} on {R}x{C}", inp, f"ValueError: {str(ex)[:200]}")
        return
    except Exception as ex:  # noqa: BLE001  (an exception of the code under check that the property forbids)
        res.fail("C02:wrong-exception", f"{type(ex).__name__} from find_shortest_path({s},{e}) on {R}x{C} (reachable={reachable})", inp, f"{type(ex).__name__}: {str(ex)[:200]}")
        return
    if not reachable:
        res.fail("C02:raises-when-unreachable", f"returned a path from {s} to {e} which are not connected ({R}x{C})", inp, np.asarray(got).tolist() if got is not None else None)
        return
    if not (isinstance(got, np.ndarray) and got.ndim == 2 and got.shape[1] == 2 and got.shape[0] >= 1 and np.issubdtype(got.dtype, np.integer)):
        res.fail("C02:shape", f"result is not an (n,2) integer array: type {type(got).__name__}, shape {getattr(got, 'shape', None)}, dtype {getattr(got, 'dtype', None)}", inp, repr(got)[:300])
        return
    path = [(int(r[0]), int(r[1])) for r in got]
    if path[0] != s:
        res.fail("C02:start", f"path from {s} to {e} starts at {path[0]}", inp, path)
    if path[-1] != e:
        res.fail("C02:end", f"path from {s} to {e} ends at {path[-1]}", inp, path)
    for k in range(len(path) - 1):
        if not S.edge(conn, path[k], path[k + 1]):
            res.fail("C02:edge", f"step {path[k]}->{path[k+1]} of the path from {s} to {e} is not a connection", inp, path)
            break
    if len(set(path)) != len(path):
        res.fail("C02:simple", f"path from {s} to {e} repeats a cell", inp, path)
    if len(path) - 1 != dist[e]:
        res.fail("C02:optimal", f"path from {s} to {e} has {len(path)-1} steps, breadth-first distance is {dist[e]} ({R}x{C})", inp, path)
    if s == e and len(path) != 1:
        res.fail("C02:self-path", f"query from {s} to itself returned {len(path)} cells", inp, path)


def check_graph_all_pairs(res, conn, forms):
    """every ordered pair of cells; forms: callable (pair index) -> iterable of argument forms"""
    m = _mk(conn)
    cells = S.cells(conn.shape[1:])
    ckey = conn.tobytes()
    k = 0
    for s in cells:
        dist = S.bfs_dist(conn, s)
        for e in cells:
            for form in forms(k):
                check_pair(res, m, conn, s, e, dist, form, ckey)
            k += 1


def _merge(res, part):
    res.evaluations += part.evaluations
    res.distinct |= part.distinct
    for s in part.samples:
        if len(res.samples) < 3:
            res.samples.append(s)
    for f in part.failures:
        if len(res.failures) < 50:
            res.failures.append(f)
    res.errors.extend(part.errors)


def _worker_3x3(idxs):
    warnings.simplefilter("ignore")
    part = BoundedResult("part", "part")
    if _too_many_timeouts():
        return part
    try:
        for i in idxs:
            conn = S.conn_from_index(3, 3, i)
            # rotate through the argument forms, offset by the graph index so every form meets every pair position
            check_graph_all_pairs(part, conn, lambda k, i=i: (FORMS[(k + i) % len(FORMS)],))
    except Abort:
        pass
    except Exception as ex:  # noqa: BLE001
        part.errors.append(f"{type(ex).__name__}: {ex}\n{traceback.format_exc(limit=5)}")
    return part


def _worker_random(job):
    warnings.simplefilter("ignore")
    R, C, p, sub_seed, n_pairs = job
    part = BoundedResult("part", "part")
    if _too_many_timeouts():
        return part
    try:
        rng = np.random.default_rng(sub_seed)
        conn = S.random_conn(rng, R, C, p=p)
        m = _mk(conn)
        cells = S.cells((R, C))
        ckey = conn.tobytes()
        starts = {}
        for _ in range(n_pairs):
            s = cells[int(rng.integers(len(cells)))]
            if s not in starts:
                starts[s] = S.bfs_dist(conn, s)
            dist = starts[s]
            r = rng.random()
            if r < 0.6 and len(dist) > 1:
                comp = sorted(dist)
                e = comp[int(rng.integers(len(comp)))]  # reachable end (possibly s itself)
            else:
                e = cells[int(rng.integers(len(cells)))]
            form = FORMS[int(rng.integers(len(FORMS)))]
            check_pair(part, m, conn, s, e, dist, form, ckey)
    except Abort:
        pass
    except Exception as ex:  # noqa: BLE001
        part.errors.append(f"{type(ex).__name__}: {ex}\n{traceback.format_exc(limit=5)}")
    return part


def validate_cut_lemma(res, rng, thorough):
    """The optimality PROOF of find_shortest_path uses one code-independent graph lemma (`astar_cut`) and the three defining facts of
    graph distance (`dist`).  They are trusted, not machine-checked; this validates them concretely against breadth-first distances:
    for a set S with s in S, v reachable from s and v not in S there is an edge (y,z), y in S, z not in S, y reachable, with
    dist(s,z) = dist(s,y)+1 and dist(s,z)+|z-e|_1 <= dist(s,v)+|v-e|_1 for every e."""
    import itertools

    def check_graph(conn, subsets):
        R, C = conn.shape[1:]
        cs = S.cells((R, C))
        dist = {s: S.bfs_dist(conn, s) for s in cs}
        for s in cs:
            d = dist[s]
            # the defining facts of dist
            if d.get(s) != 0:
                res.fail("C02:lemma:dist-zero", "dist(s,s) != 0", {"conn": conn, "s": s}, None)
            for u in d:
                for w in S.neighbors(conn, u):
                    if not (w in d and d[w] <= d[u] + 1):
                        res.fail("C02:lemma:dist-triangle", "dist grows by more than 1 across an edge", {"conn": conn, "s": s, "u": u, "w": w}, None)
            for Sset in subsets(cs, s):
                for v in d:
                    if v in Sset:
                        continue
                    for e in cs:
                        man = lambda a: abs(a[0] - e[0]) + abs(a[1] - e[1])  # noqa: E731
                        ok = False
                        for y in Sset:
                            if y not in d:
                                continue
                            for z in S.neighbors(conn, y):
                                if z not in Sset and d[z] == d[y] + 1 and d[z] + man(z) <= d[v] + man(v):
                                    ok = True
                                    break
                            if ok:
                                break
                        res.seen(("cut", conn.shape, conn.tobytes(), s, tuple(sorted(Sset)), v, e), nontrivial=len(Sset) > 1,
                                 sample={"conn": conn.astype(int).tolist(), "s": s, "S": sorted(Sset), "v": v, "e": e})
                        if not ok:
                            res.fail("C02:lemma:astar_cut", "the cut lemma used by the optimality proof fails on a concrete graph",
                                     {"conn": conn, "s": s, "S": sorted(Sset), "v": v, "e": e}, None)

    def all_subsets(cs, s):
        others = [c for c in cs if c != s]
        for k in range(len(others) + 1):
            for comb in itertools.combinations(others, k):
                yield {s, *comb}

    def some_subsets(n):
        def gen(cs, s):
            others = [c for c in cs if c != s]
            for _ in range(n):
                mask = rng.random(len(others)) < rng.choice([0.2, 0.5, 0.8])
                yield {s, *[c for c, b in zip(others, mask) if b]}
        return gen

    t0 = time.time()
    for R, C in [(1, 2), (2, 1), (2, 2), (1, 3)]:
        for conn in S.all_conn_lists(R, C):
            check_graph(conn, all_subsets)
    for conn in S.all_conn_lists(2, 3):
        check_graph(conn, some_subsets(3))
    for _ in range(40 if thorough else 8):
        R, C = int(rng.integers(3, 5)), int(rng.integers(3, 5))
        check_graph(S.random_conn(rng, R, C, float(rng.choice([0.4, 0.6, 0.8]))), some_subsets(2))
    res.seconds = time.time() - t0


def run(tier, seed):
    warnings.simplefilter("ignore")
    t0 = time.time()
    thorough = tier == "thorough"
    rng = np.random.default_rng(seed)
    n33 = 2 ** 12
    n_sample = 480
    res_small = BoundedResult(
        "C02.solver-vs-bfs.exhaustive-small",
        rule="every connection structure on every grid 1x1..2x3/3x2 x every ordered pair (start,end) x argument forms {tuple, ndarray, int8 ndarray}; "
        "oracle = breadth-first distance of the independent spec; non-trivial = start != end; distinct by (shape, bits, start, end, form)",
        exhaustive=True,
        functions=["LatticeMaze.find_shortest_path (optimality clause)"],
    )
    res_33 = BoundedResult(
        "C02.solver-vs-bfs.3x3",
        rule=("all 4096" if thorough else f"a seeded sample of >= 400 (up to {n_sample + 2}, always incl. empty and full) of the 4096")
        + " connection structures on 3x3 x all 81 ordered pairs, argument form rotating over {tuple, ndarray, int8 ndarray, mixed}; non-trivial = start != end",
        exhaustive=thorough,
        functions=["LatticeMaze.find_shortest_path (optimality clause)"],
    )
    big_sizes = [(4, 4), (5, 5), (6, 6), (7, 7), (8, 8), (3, 6), (6, 2), (5, 7)]
    if thorough:
        big_sizes += [(9, 9), (10, 10), (11, 11), (12, 12), (4, 12), (12, 3)]
    res_big = BoundedResult(
        "C02.solver-vs-bfs.random-larger",
        rule=f"seeded random connection structures (edge probability in {{0.35,0.5,0.65,0.8,0.92,1.0}}: disconnected, cyclic, near-full lattices) on grids {big_sizes[0]}..{big_sizes[-1]} "
        f"incl. non-square, {'60' if thorough else '12'} graphs per size, {'300' if thorough else '80'} seeded random ordered pairs each (60% drawn inside the start's component); non-trivial = start != end",
        exhaustive=False,
        functions=["LatticeMaze.find_shortest_path (optimality clause)"],
    )
    res_lemma = BoundedResult(
        "C02.lemma-validation",
        rule="validation of the trusted graph lemma `astar_cut` and the defining facts of `dist` used by the optimality proof, against BFS distances: all graphs on 1x2..2x2/1x3 "
        "x all sets S containing the source x all (source, target v, goal e); all 128 graphs on 2x3 and seeded random 3x3..4x4 graphs with seeded sets S; non-trivial = |S| > 1",
        exhaustive=False,
        functions=["(no repository function: code-independent lemma)"],
    )
    try:
        validate_cut_lemma(res_lemma, rng, thorough)
    except Exception as ex:  # noqa: BLE001
        res_lemma.errors.append(f"{type(ex).__name__}: {ex}\n{traceback.format_exc(limit=6)}")
    try:
        import maze_dataset.maze  # noqa: F401  (import before forking)

        global _SHARED
        nproc = max(1, min(16, os.cpu_count() or 1))
        ctx = multiprocessing.get_context("fork")
        _SHARED = ctx.Value("i", 0)
        idxs = list(range(n33)) if thorough else sorted(set(int(x) for x in rng.choice(n33, size=n_sample, replace=False)) | {0, n33 - 1})
        chunk = 16 if thorough else 8
        jobs33 = [idxs[k : k + chunk] for k in range(0, len(idxs), chunk)]
        ps = [0.35, 0.5, 0.65, 0.8, 0.92, 1.0]
        reps, n_pairs = (60, 300) if thorough else (12, 80)
        jobs_big = []
        for R, C in big_sizes:
            for r in range(reps):
                jobs_big.append((R, C, ps[r % len(ps)], int(rng.integers(0, 2 ** 31)), n_pairs))
        with ctx.Pool(nproc) as pool:
            a33 = pool.map_async(_worker_3x3, jobs33, chunksize=1)
            abig = pool.map_async(_worker_random, jobs_big, chunksize=1)
            # small grids in the parent while the pool works
            ts = time.time()
            try:
                for R, C in SMALL:
                    for conn in S.all_conn_lists(R, C):
                        check_graph_all_pairs(res_small, conn, lambda k: ("tuple", "ndarray", "int8"))
            except Abort:
                pass
            res_small.seconds = time.time() - ts
            # every job stops after MAX_TIMEOUTS non-terminating calls, so the whole batch is bounded; the wait below is a backstop
            wait = 3000 if thorough else 900
            for part in a33.get(timeout=wait):
                _merge(res_33, part)
            res_33.seconds = time.time() - t0
            for part in abig.get(timeout=wait):
                _merge(res_big, part)
            res_big.seconds = time.time() - t0
    except Exception as ex:  # noqa: BLE001
        res_33.errors.append(f"{type(ex).__name__}: {ex}\n{traceback.format_exc(limit=6)}")
    return [res_small, res_33, res_big, res_lemma]


def replay(check, inp):
    """re-run one recorded (graph, start, end, form); True iff the real solver now satisfies the oracle on it"""
    warnings.simplefilter("ignore")
    res = BoundedResult("replay", "replay")
    conn = np.array(inp["conn"], dtype=np.bool_)
    s = tuple(int(x) for x in inp["start"])
    e = tuple(int(x) for x in inp["end"])
    forms = [inp["form"]] if inp.get("form") in FORMS else list(FORMS)
    m = _mk(conn)
    dist = S.bfs_dist(conn, s)
    try:
        for form in forms:
            check_pair(res, m, conn, s, e, dist, form)
    except Abort:
        pass
    for f in res.failures:
        print("  still failing:", f["key"], f["what"])
    return not res.failures
