"""Library models, part 4: builtins, numpy functions, value methods, RNG contracts (trusted)."""
from __future__ import annotations

import ast
import itertools

import z3

from . import values as V
from .values import (
    Arr,
    CDict,
    CSet,
    GList,
    Grid,
    Outside,
    Rec,
    SymList,
    as_int,
    b_and,
    b_implies,
    b_not,
    b_or,
    is_scalar,
    is_sym,
    ite,
    merge,
    to_z3,
)


def _M():
    from . import npmodel

    return npmodel


def _I():
    from . import interp

    return interp


TRUSTED_USED = set()  # names of trusted library contracts used in this process


def _trust(name):
    TRUSTED_USED.add(name)


# ============================================================================= builtins
def bi_len(interp, st, args, kwargs, node):
    return _M().sym_len(interp, st, args[0], node)


def bi_range(interp, st, args, kwargs, node):
    I = _I()
    if len(args) == 1:
        lo, hi = 0, args[0]
    elif len(args) == 2:
        lo, hi = args
    else:
        if all(isinstance(a, int) for a in args):
            return list(range(*args))
        raise Outside("range with symbolic step", node)
    lo, hi = as_int(lo), as_int(hi)
    if not is_sym(lo) and not is_sym(hi):
        return list(range(lo, hi))
    return I.SymRange(lo, hi)


def bi_enumerate(interp, st, args, kwargs, node):
    M = _M()
    start = kwargs.get("start", args[1] if len(args) > 1 else 0)
    seq = M.iter_values(interp, st, args[0], node)
    if isinstance(seq, list):
        return [(M.s_add(start, k), x) for k, x in enumerate(seq)]
    if isinstance(seq, GList):
        return GList([(g, (M.s_add(start, seq.count_before(k)), x)) for k, (g, x) in enumerate(seq.items)])
    return M.SymIter("enumerate", [seq], start)


def bi_zip(interp, st, args, kwargs, node):
    M = _M()
    seqs = [M.iter_values(interp, st, a, node) for a in args]
    if all(isinstance(s, list) for s in seqs):
        return [tuple(t) for t in zip(*seqs)]
    return M.SymIter("zip", seqs)


def bi_tuple(interp, st, args, kwargs, node):
    if not args:
        return ()
    v = args[0]
    items = _M().iter_values(interp, st, v, node)
    if isinstance(items, list):
        return tuple(items)
    raise Outside("tuple() of symbolic-length value", node)


def bi_list(interp, st, args, kwargs, node):
    if not args:
        return []
    v = args[0]
    if isinstance(v, (SymList, GList)):
        return v
    I_ = _I()
    if isinstance(v, I_.ObjMethod):
        v = v.value
    if I_.is_obj(v):
        # list(<opaque object>): an opaque object again (an unknown function of it)
        return z3.Function("obj.list", I_.OBJ_SORT, I_.OBJ_SORT)(v)
    from .filt import FiltList

    if isinstance(v, FiltList):
        return v
    if isinstance(v, CSet):
        return set_to_list(interp, st, v, node)
    items = _M().iter_values(interp, st, v, node)
    if isinstance(items, list):
        return list(items)
    if isinstance(items, _M().SymIter) or isinstance(items, _I().SymRange):
        return symiter_to_list(interp, st, items, node)
    raise Outside(f"list() of {type(v).__name__}", node)


def symiter_to_list(interp, st, it, node):
    M = _M()
    n = M.sym_len(interp, st, it, node)
    k = z3.Int(V.fresh_name("k"))
    x = M.sym_item(interp, st, it, k, node)
    leaves = V.leaves_of(x)
    arrs = [l if (l is None or isinstance(l, str)) else V.lam_array(k, l) for l in leaves]
    return SymList(x, arrs, n)


def set_to_list(interp, st, s: CSet, node):
    """list(set): some enumeration of the set without repetition (order unspecified) -- trusted contract"""
    _trust("list(set): duplicate-free enumeration of exactly the members, in unspecified order")
    tmpl = tuple(z3.Int(V.fresh_name("e")) for _ in range(s.arity))
    lst = SymList.fresh("setlist", tmpl, length=s.card)
    i, j = z3.Int(V.fresh_name("i")), z3.Int(V.fresh_name("j"))
    ei, ej = lst.get(i), lst.get(j)
    st.assume(z3.ForAll([i], z3.Implies(z3.And(i >= 0, i < to_z3(s.card)), s.contains(ei))))
    st.assume(
        z3.ForAll(
            [i, j],
            z3.Implies(z3.And(i >= 0, j >= 0, i < to_z3(s.card), j < to_z3(s.card), i != j), z3.Not(to_z3(_M().tuple_eq(ei, ej)))),
        )
    )
    ks = [z3.Int(V.fresh_name("m")) for _ in range(s.arity)]
    st.assume(
        z3.ForAll(
            ks,
            z3.Implies(
                s.contains(ks),
                z3.Exists([i], z3.And(i >= 0, i < to_z3(s.card), to_z3(_M().tuple_eq(lst.get(i), tuple(ks))))),
            ),
        )
    )
    return lst


def bi_set(interp, st, args, kwargs, node):
    M = _M()
    if not args:
        return EmptySet()
    v = args[0]
    if isinstance(v, CSet):
        return v
    items = M.iter_values(interp, st, v, node) if not isinstance(v, (SymList, GList)) else v
    if isinstance(items, list):
        if not items:
            return EmptySet()
        s = None
        for x in items:
            key = M.as_key(x, node)
            if s is None:
                s = CSet.empty(len(key))
            s = s.add(key)
        return s
    if isinstance(items, SymList):
        return symlist_to_set(interp, st, items, node)
    raise Outside(f"set() of {type(v).__name__}", node)


def symlist_to_set(interp, st, lst, node):
    M = _M()
    key0 = M.as_key(lst.get(z3.Int(V.fresh_name("k"))), node)
    arity = len(key0)
    s = CSet.fresh("set_of_list", arity)
    ks = [z3.Int(V.fresh_name("m")) for _ in range(arity)]
    i = z3.Int(V.fresh_name("i"))
    elem = M.as_key(lst.get(i), node)
    st.assume(
        z3.ForAll(ks, s.contains(ks) == z3.Exists([i], z3.And(i >= 0, i < to_z3(lst.length), to_z3(M.tuple_eq(elem, tuple(ks))))))
    )
    st.assume(s.card >= 0)
    st.assume(s.card <= to_z3(lst.length))
    _trust("set(list): membership = occurrence in the list; cardinality <= length (== length when duplicate-free is not assumed)")
    return s


class EmptySet:
    """set() whose element arity is not known yet"""

    def leaves(self):
        return []

    def rebuild(self, leaves):
        return self

    def sig(self):
        return ("EmptySet",)


def bi_dict(interp, st, args, kwargs, node):
    if args:
        if isinstance(args[0], dict):
            d = dict(args[0])
            d.update(kwargs)
            return d
        raise Outside("dict() of non-dict", node)
    return dict(kwargs)


def bi_int(interp, st, args, kwargs, node):
    v = args[0]
    if isinstance(v, Arr) and v.ndim == 0:
        v = v.flat[0]
    if isinstance(v, str):
        raise Outside("int() of string", node)
    return _M().s_int(v)


def bi_float(interp, st, args, kwargs, node):
    v = as_int(args[0])
    if is_sym(v):
        return z3.ToReal(v) if v.sort() == z3.IntSort() else v
    return float(v)


def bi_bool(interp, st, args, kwargs, node):
    return _I().truthy_value(interp, st, args[0])


def bi_abs(interp, st, args, kwargs, node):
    return np_abs(interp, st, args, kwargs, node)


def _fold(interp, st, args, f, node):
    M = _M()
    if len(args) == 1:
        items = M.iter_values(interp, st, args[0], node)
        if isinstance(items, GList):
            raise Outside("min/max of guarded list", node)
        if not isinstance(items, list):
            raise Outside("min/max of symbolic-length value", node)
    else:
        items = list(args)
    if not items:
        raise Outside("min/max of empty sequence (ValueError)", node)
    out = items[0]
    for x in items[1:]:
        out = f(out, x)
    return out


def bi_min(interp, st, args, kwargs, node):
    if "key" in kwargs:
        return min_by_key(interp, st, args, kwargs, node)
    return _fold(interp, st, args, _M().s_min, node)


def bi_max(interp, st, args, kwargs, node):
    if "key" in kwargs:
        raise Outside("max with key", node)
    if len(args) == 1 and isinstance(args[0], SymList):
        return sym_max(interp, st, args[0], node)
    return _fold(interp, st, args, _M().s_max, node)


def sym_max(interp, st, lst, node):
    """max over a symbolic-length list of ints: some element, >= all (ValueError if empty) -- builtin contract"""
    _trust("max(list): returns an element that is >= every element; ValueError on empty")
    interp.raise_if(st, lst.length <= 0, "ValueError", node)
    m = z3.Int(V.fresh_name("max"))
    i = z3.Int(V.fresh_name("i"))
    st.assume(z3.ForAll([i], z3.Implies(z3.And(i >= 0, i < to_z3(lst.length)), to_z3(lst.get(i)) <= m)))
    st.assume(z3.Exists([i], z3.And(i >= 0, i < to_z3(lst.length), to_z3(lst.get(i)) == m)))
    return m


def min_by_key(interp, st, args, kwargs, node):
    """min(set, key=f): some member whose key is <= every member's key"""
    M = _M()
    s = args[0]
    key = kwargs["key"]
    if isinstance(s, CSet):
        _trust("min(set, key=f): returns a member m with f(m) <= f(x) for all members x; ValueError on empty")
        interp.raise_if(st, s.card <= 0, "ValueError", node)
        m = tuple(z3.Int(V.fresh_name("argmin")) for _ in range(s.arity))
        st.assume(s.contains(m))
        km = M.call_value(interp, st, key, [m], {}, node)
        xs = [z3.Int(V.fresh_name("x")) for _ in range(s.arity)]
        sub = _I().State(dict(st.env), list(st.pc), list(st.guards) + [s.contains(xs)], st.mod, st.cls)
        kx = M.call_value(interp, sub, key, [tuple(xs)], {}, node)
        # obligations generated while evaluating the key on an arbitrary member stay in ctx (guarded)
        st.assume(z3.ForAll(xs, z3.Implies(s.contains(xs), to_z3(M.s_cmp(ast.LtE(), km, kx)))))
        return m
    raise Outside("min with key over non-set", node)


def bi_sum(interp, st, args, kwargs, node):
    M = _M()
    v = args[0]
    start = args[1] if len(args) > 1 else 0
    items = M.iter_values(interp, st, v, node) if not isinstance(v, (SymList, GList)) else v
    if isinstance(items, list):
        out = start
        for x in items:
            out = M.binop(interp, st, ast.Add(), out, x, node)
        return out
    if isinstance(items, GList):
        out = start
        for g, x in items.items:
            out = M.s_add(out, ite(g, as_int(x), 0))
        return out
    if isinstance(items, SymList):
        return list_sum(interp, st, items, node)
    raise Outside("sum of symbolic-length value", node)


_SUMFN = None


def sumfn():
    """uninterpreted prefix-sum: psum(arr, n) = arr[0] + ... + arr[n-1] with its recursive definition (axioms instantiated by lemma calls)"""
    global _SUMFN
    if _SUMFN is None:
        _SUMFN = z3.Function("psum", z3.ArraySort(z3.IntSort(), z3.IntSort()), z3.IntSort(), z3.IntSort())
    return _SUMFN


def psum_axioms(arr):
    n = z3.Int(V.fresh_name("n"))
    f = sumfn()
    return [
        f(arr, 0) == 0,
        z3.ForAll([n], z3.Implies(n >= 0, f(arr, n + 1) == f(arr, n) + z3.Select(arr, n)), patterns=[f(arr, n + 1)]),
        z3.ForAll([n], z3.Implies(n > 0, f(arr, n) == f(arr, n - 1) + z3.Select(arr, n - 1)), patterns=[f(arr, n)]),
    ]


def list_sum(interp, st, lst, node):
    x = lst.get(z3.Int("k"))
    if not is_scalar(x):
        raise Outside("sum of list of non-scalars", node)
    arr = lst.arrs[0]
    for ax in psum_axioms(arr):
        st.assume(ax)
    return sumfn()(arr, to_z3(lst.length))


def bi_all(interp, st, args, kwargs, node):
    return _quant(interp, st, args[0], True, node)


def bi_any(interp, st, args, kwargs, node):
    return _quant(interp, st, args[0], False, node)


def _quant(interp, st, v, is_all, node):
    M = _M()
    I = _I()
    items = v if isinstance(v, (SymList, GList)) else M.iter_values(interp, st, v, node)
    if isinstance(items, list):
        ts = [I.truthy_value(interp, st, x) for x in items]
        return b_and(*ts) if is_all else b_or(*ts)
    if isinstance(items, GList):
        ts = [(g, I.truthy_value(interp, st, x)) for g, x in items.items]
        return b_and(*[b_implies(g, t) for g, t in ts]) if is_all else b_or(*[b_and(g, t) for g, t in ts])
    if isinstance(items, SymList):
        k = z3.Int(V.fresh_name("k"))
        t = to_z3(I.truthy_value(interp, st, items.get(k)))
        rng = z3.And(k >= 0, k < to_z3(items.length))
        return z3.ForAll([k], z3.Implies(rng, t)) if is_all else z3.Exists([k], z3.And(rng, t))
    raise Outside("all/any of symbolic value", node)


def bi_isinstance(interp, st, args, kwargs, node):
    I = _I()
    v, t = args
    ts = t if isinstance(t, tuple) else (t,)
    return any(_isinst(interp, st, v, x, node) for x in ts)


def _isinst(interp, st, v, t, node):
    I = _I()
    M = _M()
    name = None
    if isinstance(t, I.Native):
        name = t.name
    elif isinstance(t, I.ClassRef):
        if isinstance(v, Rec):
            return M.is_subclass_name(interp, v.cls, t.name, st)
        return False
    elif isinstance(t, I.ModuleRef):
        name = t.name
    elif isinstance(t, I.ExcType):
        return isinstance(v, I.ExcValue) and I.exc_is_subclass(v.name, t.name)
    if name is None:
        raise Outside("isinstance against unknown type", node)
    if name == "float":
        return isinstance(v, float) or (is_sym(v) and v.sort() == z3.RealSort())
    if name == "int":
        return (isinstance(v, int)) or (is_sym(v) and v.sort() in (z3.IntSort(), z3.BoolSort()))
    if name == "bool":
        return isinstance(v, bool) or (is_sym(v) and v.sort() == z3.BoolSort())
    if name == "str":
        return isinstance(v, str) or (is_sym(v) and v.sort() == z3.StringSort())
    if name == "list":
        return isinstance(v, (list, SymList, GList))
    if name == "tuple":
        return isinstance(v, tuple)
    if name == "dict":
        return isinstance(v, (dict, CDict))
    if name == "set":
        return isinstance(v, (CSet, EmptySet))
    if name in ("np.ndarray",):
        return isinstance(v, (Arr, Grid))
    if name == "typing.Mapping":
        return isinstance(v, (dict, CDict))
    raise Outside(f"isinstance against {name}", node)


def bi_print(interp, st, args, kwargs, node):
    return None


def bi_map(interp, st, args, kwargs, node):
    M = _M()
    f, seq = args[0], args[1]
    items = M.iter_values(interp, st, seq, node) if not isinstance(seq, (SymList,)) else seq
    if isinstance(items, list):
        return [M.call_value(interp, st, f, [x], {}, node) for x in items]
    if isinstance(items, (SymList, Grid)):
        n = M.sym_len(interp, st, items, node)
        k = z3.Int(V.fresh_name("k"))
        st.guards.append(z3.And(k >= 0, k < to_z3(n)))
        st.binders.append(k)
        try:
            x = M.sym_item(interp, st, items, k, node)
            val = M.call_value(interp, st, f, [x], {}, node)
        finally:
            st.guards.pop()
            st.binders.pop()
        leaves = V.leaves_of(val)
        arrs = [l if (l is None or isinstance(l, str)) else V.lam_array(k, l) for l in leaves]
        return SymList(val, arrs, n)
    raise Outside("map over symbolic value", node)


def bi_hasattr(interp, st, args, kwargs, node):
    v, name = args
    if isinstance(v, Rec):
        if name in v.fields:
            return True
        return _M().find_method(interp, v.cls, name, st) is not None
    raise Outside("hasattr on non-record", node)


def bi_getattr(interp, st, args, kwargs, node):
    v, name = args[0], args[1]
    if not isinstance(name, str):
        raise Outside("getattr with symbolic name", node)
    try:
        return _M().getattr_value(interp, st, v, name, node)
    except Outside:
        if len(args) > 2:
            return args[2]
        raise


def bi_type(interp, st, args, kwargs, node):
    v = args[0]
    if isinstance(v, Rec):
        return _M().find_class(interp, v.cls, st)
    return _I().Opaque("type")


def bi_sorted(interp, st, args, kwargs, node):
    raise Outside("sorted()", node)


def bi_str(interp, st, args, kwargs, node):
    v = args[0] if args else ""
    if isinstance(v, (str, int)) and not isinstance(v, bool):
        return str(v)
    if is_sym(v) and v.sort() == z3.StringSort():
        return v
    if is_sym(v) and v.sort() == z3.IntSort():
        return _I().PY_STR_INT(v)
    return _I().Opaque("str")


def bi_property(interp, st, args, kwargs, node):
    return _I().Opaque("property")


def bi_id(interp, st, args, kwargs, node):
    raise Outside("id()", node)


def bi_super(interp, st, args, kwargs, node):
    I = _I()
    M = _M()
    if st.cls is not None and isinstance(st.env.get("self"), Rec) and not args:
        mro = M.class_mro(interp, I.ClassRef(st.mod, st.cls))
        if len(mro) > 1:
            return I.SuperRef(st.env["self"], mro[1])
    return I.Opaque("super()")


def super_dataclass_init(interp, st, sref, args, kwargs, node):
    """super().__init__(...) where the base is a dataclass without an explicit __init__: the generated initialiser stores the fields
    on self and runs the base's __post_init__ (trusted meaning of @dataclass; __post_init__ goes through its contract / real body)"""
    M = _M()
    _trust("dataclass-generated __init__: stores its arguments as fields, then runs __post_init__")
    obj = M.construct(interp, st, sref.base, args, kwargs, node)
    me = st.env.get("self")
    if not isinstance(obj, Rec) or not isinstance(me, Rec):
        raise Outside("super().__init__ on a non-record", node)
    fields = dict(me.fields)
    fields.update(obj.fields)
    interp.assign(ast.Name(id="self", ctx=ast.Store()), Rec(me.cls, fields), st)
    return None


BUILTINS = {
    "super": bi_super,
    "len": bi_len,
    "range": bi_range,
    "enumerate": bi_enumerate,
    "zip": bi_zip,
    "tuple": bi_tuple,
    "list": bi_list,
    "set": bi_set,
    "dict": bi_dict,
    "int": bi_int,
    "float": bi_float,
    "bool": bi_bool,
    "abs": bi_abs,
    "min": bi_min,
    "max": bi_max,
    "sum": bi_sum,
    "all": bi_all,
    "any": bi_any,
    "isinstance": bi_isinstance,
    "print": bi_print,
    "map": bi_map,
    "hasattr": bi_hasattr,
    "getattr": bi_getattr,
    "type": bi_type,
    "sorted": bi_sorted,
    "str": bi_str,
    "repr": bi_str,
    "property": bi_property,
    "id": bi_id,
}


# ============================================================================= numpy
def _as_array(v, node=None):
    if isinstance(v, (Arr, Grid)):
        return v
    if isinstance(v, (list, tuple)):
        return Arr.from_nested(list(v))
    if is_scalar(v):
        return Arr((), [v])
    raise Outside(f"array from {type(v).__name__}", node)


_NARROW = {"int8": (-128, 127), "uint8": (0, 255), "int16": (-(2**15), 2**15 - 1), "int32": (-(2**31), 2**31 - 1)}


def np_array(interp, st, args, kwargs, node):
    out = _np_array_core(interp, st, args, kwargs, node)
    dtype = kwargs.get("dtype")
    if dtype is not None and isinstance(out, (Arr, Grid)) and out.kind == "int":
        try:
            kind_, dname_ = _dtype_kind(dtype)
        except Outside:
            return out
        rng_ = _NARROW.get(dname_) if kind_ == "int" else None
        src = args[0]
        if rng_ is not None and getattr(src, "dtype", None) != dname_:
            # narrowing cast: numpy wraps silently (or warns); every entry must fit, an obligation of the caller
            ln = getattr(node, "lineno", "?")
            if isinstance(out, Arr):
                for e in out.flat:
                    if is_sym(e):
                        interp.ctx.oblige(st, z3.And(to_z3(as_int(e)) >= rng_[0], to_z3(as_int(e)) <= rng_[1]), f"{dname_}-range@{ln}", node, "dtype")
                    elif not (rng_[0] <= e <= rng_[1]):
                        interp.ctx.oblige(st, False, f"{dname_}-range@{ln}", node, "dtype")
            else:
                qs = [z3.Int(V.fresh_name("nq")) for _ in out.dims]
                inr = z3.And(*[z3.And(q >= 0, q < to_z3(as_int(d))) for q, d in zip(qs, out.dims)])
                interp.ctx.oblige(st, z3.ForAll(qs, z3.Implies(inr, z3.And(out.select(qs) >= rng_[0], out.select(qs) <= rng_[1]))), f"{dname_}-range@{ln}", node, "dtype")
                return Grid(out.dims, out.arr, out.kind, out.count, dname_)
    return out


def _np_array_core(interp, st, args, kwargs, node):
    v = args[0]
    dtype = kwargs.get("dtype")
    from .filt import FiltList

    if isinstance(v, FiltList):
        # np.array(list of selected rows): the same filtered view, as an array
        return FiltList(v.src, v.keep, as_array=True)
    if isinstance(v, (Grid, Arr)) and dtype is not None and v.kind == "int":
        kind_, dname_ = _dtype_kind(dtype)
        if kind_ == "int" and dname_ in ("int64", "int") and isinstance(v, Grid):
            # widening cast: same values, the dtype is now known (matters for tobytes)
            return Grid(v.dims, v.arr, v.kind, v.count, "int64")
    if isinstance(v, (Arr, Grid)):
        return v
    if isinstance(v, GList):
        return glist_to_rows(interp, st, v, node)
    if isinstance(v, SymList):
        return symlist_to_grid(interp, st, v, node)
    if isinstance(v, (list, tuple)):
        if len(v) == 0:
            return Arr((0,), [], "float")
        if any(isinstance(x, Grid) for x in v):
            return stack_grids(interp, st, list(v), node)
        return Arr.from_nested(list(v))
    if is_scalar(v):
        return Arr((), [v])
    raise Outside(f"np.array of {type(v).__name__}", node)


def stack_grids(interp, st, gs, node):
    M = _M()
    g0 = gs[0]
    for g in gs[1:]:
        for k in range(g0.rank):
            interp.ctx.oblige(st, M.s_cmp(ast.Eq(), g.dims[k], g0.dims[k]), f"stack-shape@{getattr(node,'lineno','?')}", node, "shape")

    def fn(idx):
        out = gs[-1].select(idx[1:])
        for k in range(len(gs) - 2, -1, -1):
            out = z3.If(idx[0] == k, gs[k].select(idx[1:]), out)
        return out

    return M.grid_lambda([len(gs)] + list(g0.dims), g0.kind, fn)


class Rows:
    """np.array(list of coords) where the list has symbolic length: shape (n, k) when n > 0 and (0,) when empty.
    Stored as a GList / SymList plus the element width."""

    def __init__(self, src, width):
        self.src = src
        self.width = width

    def leaves(self):
        return [self.src]

    def rebuild(self, leaves):
        return Rows(leaves[0], self.width)

    def sig(self):
        return ("Rows", self.width, V.sig_of(self.src))


class RowsShape:
    """shape of np.array(list of k-vectors of symbolic length n): (n, k) if n > 0 else (0,)"""

    def __init__(self, rows):
        self.rows = rows

    def leaves(self):
        return []

    def rebuild(self, leaves):
        return self

    def sig(self):
        return ("RowsShape",)


def rows_len(interp, st, r, node=None):
    return _M().sym_len(interp, st, r.src, node)


def glist_to_rows(interp, st, gl, node):
    if not gl.items:
        return Arr((0,), [], "float")
    w = None
    for _, v in gl.items:
        a = _as_array(v, node)
        if not isinstance(a, Arr) or a.ndim != 1:
            raise Outside("np.array of guarded list of non-vectors", node)
        w = a.shape[0]
    return Rows(gl, w)


def symlist_to_grid(interp, st, lst, node):
    x = lst.get(z3.Int(V.fresh_name("k")))
    if is_scalar(x):
        kind = V.kind_of_scalar(x)
        return Grid([lst.length], lst.arrs[0], kind)
    a = x if isinstance(x, Arr) else (Arr.from_nested(list(x)) if isinstance(x, (tuple, list)) else None)
    if a is None or a.ndim != 1:
        raise Outside("np.array of symbolic list of non-vectors", node)
    return Rows(lst, a.shape[0])


def np_zeros(interp, st, args, kwargs, node, value=0):
    shape = args[0]
    dtype = kwargs.get("dtype", args[1] if len(args) > 1 else None)
    kind, dname = _dtype_kind(dtype, default="float")
    if kind == "bool":
        value = bool(value) if not is_sym(value) else value
    dims = _shape_dims(interp, st, shape, node)
    if all(isinstance(d, int) for d in dims):
        n = 1
        for d in dims:
            n *= d
        if n <= 64:
            return Arr(tuple(dims), [value] * n, kind)
    return Grid.const(dims, value, kind, dname)


def np_ones(interp, st, args, kwargs, node):
    return np_zeros(interp, st, args, kwargs, node, value=1)


def np_empty(interp, st, args, kwargs, node):
    shape = args[0]
    kind, dname = _dtype_kind(kwargs.get("dtype", args[1] if len(args) > 1 else None), default="float")
    dims = _shape_dims(interp, st, shape, node)
    return Grid.fresh("empty", dims, kind, dtype=dname)


def np_full(interp, st, args, kwargs, node):
    shape, value = args[0], args[1]
    dtype = kwargs.get("dtype", args[2] if len(args) > 2 else None)
    dims = _shape_dims(interp, st, shape, node)
    if isinstance(value, (tuple, list)):
        value = Arr.from_nested(list(value))
    if isinstance(value, Arr) and value.ndim == 1:
        # broadcast of a constant vector along the last axis
        interp.ctx.oblige(st, _M().s_cmp(ast.Eq(), dims[-1], value.shape[0]), f"full-shape@{getattr(node,'lineno','?')}", node, "shape")
        kind, dname = _dtype_kind(dtype, default=value.kind)
        vg = _M().arr_to_grid(value)
        return _M().grid_lambda(dims, kind, lambda idx: vg.select(idx[-1:]), dname)
    if not is_scalar(value):
        raise Outside("np.full with non-scalar fill", node)
    kind, dname = _dtype_kind(dtype, default=V.kind_of_scalar(value))
    if isinstance(value, str):
        raise Outside("np.full of strings", node)
    return Grid.const(dims, value, kind, dname)


def np_full_like(interp, st, args, kwargs, node):
    a, value = args[0], args[1]
    dims = list(a.dims) if isinstance(a, Grid) else list(a.shape)
    return Grid.const(dims, value, V.kind_of_scalar(value) if not isinstance(value, float) else "float")


def _shape_dims(interp, st, shape, node):
    if isinstance(shape, Arr) and shape.ndim == 1:
        shape = tuple(shape.flat)
    if is_scalar(shape):
        shape = (shape,)
    if not isinstance(shape, (tuple, list)):
        raise Outside("array shape of symbolic length", node)
    dims = [as_int(d) for d in shape]
    for d in dims:
        if is_sym(d):
            interp.ctx.oblige(st, d >= 0, f"nonneg-dim@{getattr(node,'lineno','?')}", node, "shape")
        elif d < 0:
            raise Outside("negative dimension", node)
    return dims


def _dtype_kind(dtype, default="float"):
    I = _I()
    if dtype is None:
        return default, None
    name = None
    if isinstance(dtype, I.ModuleRef):
        name = dtype.name.split(".")[-1]
    elif isinstance(dtype, I.Native):
        name = dtype.name.split(".")[-1]
    elif isinstance(dtype, str):
        name = dtype
    elif isinstance(dtype, I.Opaque):
        name = dtype.what
    if name in ("bool_", "bool"):
        return "bool", "bool"
    if name in ("int8", "int16", "int32", "int64", "uint8", "int"):
        return "int", name
    if name in ("float", "float32", "float64"):
        return "float", name
    if name == "str":
        return "str", "str"
    raise Outside(f"dtype {name}")


def np_abs(interp, st, args, kwargs, node):
    M = _M()
    v = args[0]
    if isinstance(v, Arr):
        return v.map(M.s_abs)
    if isinstance(v, Grid):
        return M.grid_lambda(v.dims, v.kind, lambda idx: M.s_abs(v.select(idx)))
    if isinstance(v, (tuple, list)):
        return Arr.from_nested(list(v)).map(M.s_abs)
    return M.s_abs(v)


def _reduce_arr(a: Arr, f, axis, init_kind=None):
    if axis is None:
        out = None
        for x in a.flat:
            out = x if out is None else f(out, x)
        return out
    if axis < 0:
        axis += a.ndim
    # move axis to front and fold
    idxs = [range(d) for d in a.shape]
    out_shape = a.shape[:axis] + a.shape[axis + 1 :]
    strides = a._strides()
    flat = []
    for idx in itertools.product(*[range(d) for d in out_shape]):
        acc = None
        for k in range(a.shape[axis]):
            full = idx[:axis] + (k,) + idx[axis:]
            off = sum(i * s for i, s in zip(full, strides))
            x = a.flat[off]
            acc = x if acc is None else f(acc, x)
        flat.append(acc)
    if not out_shape:
        return flat[0]
    return Arr(out_shape, flat)


def np_sum(interp, st, args, kwargs, node):
    M = _M()
    v = args[0]
    axis = kwargs.get("axis", args[1] if len(args) > 1 else None)
    if isinstance(v, (list, tuple)):
        v = Arr.from_nested(list(v))
    if isinstance(v, Arr):
        if not v.flat:
            return 0
        return _reduce_arr(v.map(as_int), M.s_add, axis)
    if isinstance(v, Grid):
        if axis is None and getattr(v, "neq_of", None) is not None:
            return n_diff_term(st, *v.neq_of)
        if axis is None:
            if v.kind == "bool" and v.count is not None:
                return v.count
            if v.rank == 1 and v.kind == "int":
                for ax in psum_axioms(v.arr):
                    st.assume(ax)
                return sumfn()(v.arr, to_z3(v.dims[0]))
            return grid_total(interp, st, v, node)
        if axis < 0:
            axis += v.rank
        n = v.dims[axis]
        if isinstance(n, int) and n <= 8:
            out_dims = v.dims[:axis] + v.dims[axis + 1 :]

            def fn(idx):
                acc = 0
                for k in range(n):
                    full = list(idx[:axis]) + [k] + list(idx[axis:])
                    acc = M.s_add(acc, as_int(v.select(full)))
                return acc

            return M.grid_lambda(out_dims, "int", fn)
        raise Outside("np.sum over a symbolic axis", node)
    if is_scalar(v):
        return as_int(v)
    raise Outside(f"np.sum of {type(v).__name__}", node)


_TOTALS = {}


def grid_total(interp, st, g, node):
    """sum over all cells of a grid: an uninterpreted function of the array term and its dims (no axioms)"""
    key = (g.rank, g.kind)
    if key not in _TOTALS:
        _TOTALS[key] = z3.Function(
            f"total_{g.rank}_{g.kind}", g.arr.sort(), *([z3.IntSort()] * g.rank), z3.IntSort()
        )
    return _TOTALS[key](g.arr, *[to_z3(d) for d in g.dims])


def np_prod(interp, st, args, kwargs, node):
    M = _M()
    v = _as_array(args[0], node)
    if isinstance(v, Arr):
        out = 1
        for x in v.flat:
            out = M.s_mul(out, x)
        return out
    raise Outside("np.prod of grid", node)


def np_argmax(interp, st, args, kwargs, node):
    M = _M()
    v = _as_array(args[0], node)
    if isinstance(v, Arr) and v.ndim == 1 and v.shape[0] >= 1:
        xs = [as_int(x) for x in v.flat]
        # first index of the maximum
        best_i, best_v = 0, xs[0]
        for k in range(1, len(xs)):
            gt = M.s_cmp(ast.Gt(), xs[k], best_v)
            best_i = ite(gt, k, best_i)
            best_v = ite(gt, xs[k], best_v)
        return best_i
    raise Outside("np.argmax outside 1-d constant shape", node)


def np_all(interp, st, args, kwargs, node, is_all=True):
    M = _M()
    v = args[0]
    axis = kwargs.get("axis", args[1] if len(args) > 1 else None)
    if isinstance(v, (list, tuple)):
        v = Arr.from_nested(list(v))
    if is_scalar(v):
        return _I().truthy_value(interp, st, v)
    f = b_and if is_all else b_or
    if isinstance(v, Arr):
        tv = v.map(lambda x: _I().truthy_value(interp, st, x), "bool")
        if not tv.flat:
            return is_all
        return _reduce_arr(tv, f, axis)
    if isinstance(v, Grid):
        if axis is None:
            vars_ = [z3.Int(V.fresh_name("q")) for _ in v.dims]
            rng = z3.And(*[z3.And(x >= 0, x < to_z3(d)) for x, d in zip(vars_, v.dims)])
            body = to_z3(_I().truthy_value(interp, st, v.select(vars_)))
            if is_all:
                return z3.ForAll(vars_, z3.Implies(rng, body))
            return z3.Exists(vars_, z3.And(rng, body))
        if axis < 0:
            axis += v.rank
        n = v.dims[axis]
        if isinstance(n, int) and n <= 8:
            out_dims = v.dims[:axis] + v.dims[axis + 1 :]

            def fn(idx):
                parts = []
                for k in range(n):
                    full = list(idx[:axis]) + [k] + list(idx[axis:])
                    parts.append(_I().truthy_value(interp, st, v.select(full)))
                return f(*parts)

            return M.grid_lambda(out_dims, "bool", fn)
        raise Outside("np.all over a symbolic axis", node)
    if isinstance(v, Rows):
        raise Outside("np.all over Rows", node)
    raise Outside(f"np.all of {type(v).__name__}", node)


def np_any(interp, st, args, kwargs, node):
    return np_all(interp, st, args, kwargs, node, is_all=False)


def np_array_equal(interp, st, args, kwargs, node):
    M = _M()
    a, b = _as_array(args[0], node), _as_array(args[1], node)
    if isinstance(a, Arr) and isinstance(b, Arr):
        if a.shape != b.shape:
            return False
        return b_and(*[M.s_cmp(ast.Eq(), as_int(x), as_int(y)) for x, y in zip(a.flat, b.flat)])
    if isinstance(a, Grid) and isinstance(b, Grid) and a.rank == b.rank:
        vars_ = [z3.Int(V.fresh_name("q")) for _ in a.dims]
        rng = z3.And(*[z3.And(x >= 0, x < to_z3(d)) for x, d in zip(vars_, a.dims)])
        same_shape = b_and(*[M.s_cmp(ast.Eq(), x, y) for x, y in zip(a.dims, b.dims)])
        if __import__("os").environ.get("PYVC_DEBUG_FALSE"):
            print("array_equal dims", a.dims, b.dims, same_shape)
        return b_and(same_shape, z3.ForAll(vars_, z3.Implies(rng, a.select(vars_) == b.select(vars_))))
    raise Outside("np.array_equal of mixed representations", node)


def np_logical_not(interp, st, args, kwargs, node):
    return _M().unop(interp, st, ast.Invert(), _boolify(interp, st, args[0]), node)


def _boolify(interp, st, v):
    if isinstance(v, Arr):
        return v.map(lambda x: _I().truthy_value(interp, st, x), "bool")
    if isinstance(v, Grid) and v.kind != "bool":
        return _M().grid_lambda(v.dims, "bool", lambda idx: v.select(idx) != 0)
    return v


def np_logical_or(interp, st, args, kwargs, node):
    return _M().binop(interp, st, ast.BitOr(), _boolify(interp, st, args[0]), _boolify(interp, st, args[1]), node)


def np_logical_and(interp, st, args, kwargs, node):
    return _M().binop(interp, st, ast.BitAnd(), _boolify(interp, st, args[0]), _boolify(interp, st, args[1]), node)


def np_maximum(interp, st, args, kwargs, node):
    return _M()._elementwise2(interp, st, args[0], args[1], _M().s_max, None, node)


def np_minimum(interp, st, args, kwargs, node):
    return _M()._elementwise2(interp, st, args[0], args[1], _M().s_min, None, node)


def np_norm(interp, st, args, kwargs, node):
    """np.linalg.norm: ord=1 exactly; default (2-norm) only compared against constants by callers,
    modelled exactly for vectors with at most one non-zero component, else squared relation is outside"""
    M = _M()
    v = _as_array(args[0], node)
    ord_ = kwargs.get("ord", args[1] if len(args) > 1 else None)
    axis = kwargs.get("axis")
    if isinstance(v, Arr):
        if ord_ == 1:
            av = v.map(M.s_abs)
            if axis is None:
                if v.ndim != 1:
                    raise Outside("1-norm of matrix", node)
                out = _reduce_arr(av, M.s_add, None)
            else:
                out = _reduce_arr(av, M.s_add, axis)
            return _to_real(out)
        if ord_ is None:
            # euclidean norm: represent symbolically as sqrt(sum of squares) via a fresh real r with r>=0, r*r == ss
            def eucl(vec):
                ss = 0
                for x in vec:
                    ss = M.s_add(ss, M.s_mul(as_int(x), as_int(x)))
                if not is_sym(ss):
                    import math

                    return math.sqrt(ss)
                r = z3.Real(V.fresh_name("norm"))
                st.assume(r >= 0)
                st.assume(r * r == z3.ToReal(ss) if ss.sort() == z3.IntSort() else r * r == ss)
                return r

            if axis is None:
                if v.ndim != 1:
                    raise Outside("2-norm of matrix", node)
                return eucl(v.flat)
            if axis in (1, -1) and v.ndim == 2:
                return Arr((v.shape[0],), [eucl(r.flat) for r in v.rows()], "float")
    raise Outside("np.linalg.norm outside modelled cases", node)


def _to_real(x):
    if isinstance(x, Arr):
        return x.map(_to_real, "float")
    if is_sym(x):
        return z3.ToReal(x) if x.sort() == z3.IntSort() else x
    return float(x)


def np_cross(interp, st, args, kwargs, node):
    M = _M()
    a, b = _as_array(args[0], node), _as_array(args[1], node)
    if isinstance(a, Arr) and isinstance(b, Arr) and a.shape == (3,) and b.shape == (3,):
        a0, a1, a2 = a.flat
        b0, b1, b2 = b.flat
        return Arr(
            (3,),
            [
                M.s_sub(M.s_mul(a1, b2), M.s_mul(a2, b1)),
                M.s_sub(M.s_mul(a2, b0), M.s_mul(a0, b2)),
                M.s_sub(M.s_mul(a0, b1), M.s_mul(a1, b0)),
            ],
        )
    raise Outside("np.cross outside 3-vectors", node)


def np_append(interp, st, args, kwargs, node):
    a, b = _as_array(args[0], node), _as_array(args[1], node)
    axis = kwargs.get("axis")
    if isinstance(a, Arr) and isinstance(b, Arr) and axis == 1 and a.ndim == 2 and b.ndim == 2 and a.shape[0] == b.shape[0]:
        rows = []
        for ra, rb in zip(a.rows(), b.rows()):
            rows.append(list(ra.flat) + list(rb.flat))
        return Arr.from_nested(rows)
    if axis == 0 and (isinstance(args[0], Grid) or isinstance(args[1], Grid)):
        # np.append(a, b, axis=0) of arrays of one trailing shape is np.concatenate((a, b), axis=0)
        return np_concatenate(interp, st, [(args[0], args[1])], {"axis": 0}, node)
    raise Outside("np.append outside modelled case", node)


def np_sort(interp, st, args, kwargs, node):
    M = _M()
    a = _as_array(args[0], node)
    axis = kwargs.get("axis", -1)
    if isinstance(a, Arr):
        if axis < 0:
            axis += a.ndim
        if a.shape[axis] == 2:
            # sort a length-2 axis: (min, max)
            out = Grid  # placeholder to keep linters quiet
            strides = a._strides()
            flat = list(a.flat)
            other = [range(d) if k != axis else [0] for k, d in enumerate(a.shape)]
            for idx in itertools.product(*other):
                o0 = sum(i * s for i, s in zip(idx, strides))
                o1 = o0 + strides[axis]
                x, y = a.flat[o0], a.flat[o1]
                flat[o0], flat[o1] = M.s_min(x, y), M.s_max(x, y)
            return Arr(a.shape, flat, a.kind)
    if isinstance(a, Grid):
        if axis < 0:
            axis += a.rank
        if isinstance(a.dims[axis], int) and a.dims[axis] == 2:
            def fn(idx):
                i0 = list(idx)
                i1 = list(idx)
                i0[axis] = 0
                i1[axis] = 1
                x, y = a.select(i0), a.select(i1)
                return z3.If(idx[axis] == 0, to_z3(M.s_min(x, y)), to_z3(M.s_max(x, y)))

            return M.grid_lambda(a.dims, a.kind, fn, a.dtype)
    raise Outside("np.sort outside a length-2 axis", node)


def np_transpose(interp, st, args, kwargs, node):
    a = _as_array(args[0], node)
    if isinstance(a, Arr) and a.ndim == 2:
        r, c = a.shape
        return Arr((c, r), [a.flat[i * c + j] for j in range(c) for i in range(r)], a.kind)
    if isinstance(a, Grid) and a.rank == 2:
        return _M().grid_lambda([a.dims[1], a.dims[0]], a.kind, lambda idx: a.select([idx[1], idx[0]]), a.dtype)
    raise Outside("transpose outside 2-d", node)


def np_copy(interp, st, args, kwargs, node):
    return args[0]


def np_pad(interp, st, args, kwargs, node):
    """np.pad(a, pad_width, mode='constant', constant_values=c) with constant integer widths"""
    M = _M()
    a = args[0]
    pw = kwargs.get("pad_width", args[1] if len(args) > 1 else None)
    mode = kwargs.get("mode", "constant")
    cv = kwargs.get("constant_values", 0)
    if mode != "constant" or not isinstance(a, Grid) or not is_scalar(cv):
        raise Outside("np.pad outside constant mode on an array with a scalar fill", node)
    if isinstance(pw, Arr):
        pw = [tuple(r.flat) for r in pw.rows()]
    if not (isinstance(pw, (tuple, list)) and len(pw) == a.rank and all(isinstance(x, (tuple, list)) and len(x) == 2 and all(isinstance(v, int) and v >= 0 for v in x) for x in pw)):
        raise Outside("np.pad with non-constant pad widths", node)
    dims = [M.s_add(d, b + e) for d, (b, e) in zip(a.dims, pw)]

    def fn(idx):
        inside = z3.And(*[z3.And(i >= b, i < to_z3(M.s_add(d, b))) for i, d, (b, e) in zip(idx, a.dims, pw)])
        src = a.select([i - b for i, (b, e) in zip(idx, pw)])
        return z3.If(inside, src, to_z3(cv) if V.sort_of(cv) == src.sort() else (z3.If(to_z3(cv), 1, 0) if src.sort() == z3.IntSort() and V.sort_of(cv) == z3.BoolSort() else to_z3(cv)))

    return M.grid_lambda(dims, a.kind, fn, a.dtype)


def np_repeat(interp, st, args, kwargs, node):
    """np.repeat(a, k, axis=ax) with a constant positive k: out[..., i, ...] = a[..., i // k, ...]"""
    M = _M()
    a = args[0]
    k = kwargs.get("repeats", args[1] if len(args) > 1 else None)
    axis = kwargs.get("axis", args[2] if len(args) > 2 else None)
    if not isinstance(a, Grid) or not isinstance(k, int) or k <= 0 or not isinstance(axis, int):
        raise Outside("np.repeat outside (array, constant count, axis)", node)
    if axis < 0:
        axis += a.rank
    dims = list(a.dims)
    dims[axis] = M.s_mul(dims[axis], k)

    def fn(idx):
        src = list(idx)
        src[axis] = idx[axis] / k
        return a.select(src)

    return M.grid_lambda(dims, a.kind, fn, a.dtype)


class WhereResult:
    """np.where(mask) before it is stacked into coordinates"""

    def __init__(self, mask):
        self.mask = mask

    def leaves(self):
        return [self.mask]

    def rebuild(self, leaves):
        return WhereResult(leaves[0])

    def sig(self):
        return ("WhereResult",)


def np_where(interp, st, args, kwargs, node):
    if len(args) != 1 or not isinstance(args[0], Grid) or args[0].kind != "bool":
        raise Outside("np.where outside the one-argument boolean-mask form", node)
    return WhereResult(args[0])


def np_column_stack(interp, st, args, kwargs, node):
    """np.column_stack(np.where(mask)) / np.argwhere(mask): the coordinates of the True cells, each exactly once
    (row-major order, which no caller here relies on) -- trusted library contract"""
    w = args[0]
    if isinstance(w, WhereResult):
        return mask_coords(interp, st, w.mask, node)
    if isinstance(w, (tuple, list)) and w and all(isinstance(p, Grid) and p.rank == 1 and p.kind == w[0].kind for p in w):
        # np.column_stack((a, b, ...)) of 1-d arrays of one length n: the (n, len) array whose columns are the arguments (np.vstack(...).T)
        return np_transpose(interp, st, [np_vstack(interp, st, [tuple(w)], {}, node)], {}, node)
    raise Outside("np.column_stack outside column_stack(np.where(mask)) / a tuple of 1-d arrays", node)


def mask_coords(interp, st, mask, node):
    _trust("np.column_stack(np.where(mask)) / np.argwhere(mask): exactly the index tuples of the True cells, each once")
    r = mask.rank
    tmpl = Arr((r,), [z3.Int(V.fresh_name("w")) for _ in range(r)], "int")
    lst = SymList.fresh("where", tmpl)
    n = lst.length
    st.assume(n >= 0)
    i, j = z3.Int(V.fresh_name("i")), z3.Int(V.fresh_name("j"))
    ei, ej = lst.get(i), lst.get(j)
    inr = lambda e: z3.And(*[z3.And(e.flat[k] >= 0, e.flat[k] < to_z3(mask.dims[k])) for k in range(r)])
    st.assume(z3.ForAll([i], z3.Implies(z3.And(i >= 0, i < n), z3.And(inr(ei), mask.select(ei.flat)))))
    st.assume(
        z3.ForAll([i, j], z3.Implies(z3.And(i >= 0, j > i, j < n), z3.Or(*[ei.flat[k] != ej.flat[k] for k in range(r)])))
    )
    qs = [z3.Int(V.fresh_name("q")) for _ in range(r)]
    rng = z3.And(*[z3.And(q >= 0, q < to_z3(d)) for q, d in zip(qs, mask.dims)])
    st.assume(
        z3.ForAll(
            qs,
            z3.Implies(
                z3.And(rng, mask.select(qs)),
                z3.Exists([i], z3.And(i >= 0, i < n, *[ei.flat[k] == qs[k] for k in range(r)])),
            ),
        )
    )
    return Rows(lst, r)


def np_argwhere(interp, st, args, kwargs, node):
    if isinstance(args[0], Grid) and args[0].kind == "bool":
        return mask_coords(interp, st, args[0], node)
    raise Outside("np.argwhere of non-mask", node)


def np_isnan(interp, st, args, kwargs, node):
    raise Outside("np.isnan", node)


# ---- RNG (trusted contracts: fresh values in the documented range; every draw is universally quantified)
def rng_randint_np(interp, st, args, kwargs, node):
    """np.random.randint(low, high, size=k): k independent ints in [low, high) (elementwise for array bounds)"""
    M = _M()
    _trust("np.random.randint(low, high, size): each component in [low, high); ValueError if low >= high")
    low, high = args[0], args[1] if len(args) > 1 else None
    size = kwargs.get("size", args[2] if len(args) > 2 else None)
    if high is None:
        low, high = 0, low
    if size is None:
        hi = high
        if isinstance(hi, Arr):
            raise Outside("randint with array bound and no size", node)
        interp.raise_if(st, M.s_cmp(ast.GtE(), low, hi), "ValueError", node)
        x = z3.Int(V.fresh_name("randint"))
        st.assume(z3.And(x >= to_z3(low), x < to_z3(hi)))
        return x
    if not isinstance(size, int):
        raise Outside("randint with symbolic size", node)
    lows = V.broadcast_to(_as_array(low), (size,)).flat
    highs = V.broadcast_to(_as_array(high), (size,)).flat
    out = []
    for lo, hi in zip(lows, highs):
        interp.raise_if(st, M.s_cmp(ast.GtE(), lo, hi), "ValueError", node)
        x = z3.Int(V.fresh_name("randint"))
        st.assume(z3.And(x >= to_z3(lo), x < to_z3(hi)))
        out.append(x)
    return Arr((size,), out, "int")


def rng_choice_np(interp, st, args, kwargs, node):
    M = _M()
    n = args[0]
    size = kwargs.get("size", args[1] if len(args) > 1 else None)
    replace = kwargs.get("replace", True)
    if "p" in kwargs:
        raise Outside("np.random.choice with p=", node)
    if not is_scalar(n):
        n = M.sym_len(interp, st, n, node)
        raise Outside("np.random.choice over an array", node)
    n = as_int(n)
    if size is None:
        _trust("np.random.choice(n): an int in [0, n); ValueError if n <= 0")
        interp.raise_if(st, M.s_cmp(ast.LtE(), n, 0), "ValueError", node)
        x = z3.Int(V.fresh_name("choice"))
        st.assume(z3.And(x >= 0, x < to_z3(n)))
        return x
    if size == 2 and replace is False:
        _trust("np.random.choice(n, size=2, replace=False): two distinct ints in [0, n); ValueError if n < 2")
        interp.raise_if(st, M.s_cmp(ast.Lt(), n, 2), "ValueError", node)
        x, y = z3.Int(V.fresh_name("choice")), z3.Int(V.fresh_name("choice"))
        st.assume(z3.And(x >= 0, x < to_z3(n), y >= 0, y < to_z3(n), x != y))
        return Arr((2,), [x, y], "int")
    raise Outside("np.random.choice outside modelled cases", node)


def rng_rand_np(interp, st, args, kwargs, node):
    _trust("np.random.rand(*shape): reals in [0, 1) pointwise")
    dims = [as_int(a) for a in args]
    if not dims:
        x = z3.Real(V.fresh_name("rand"))
        st.assume(z3.And(x >= 0, x < 1))
        return x
    g = Grid.fresh("rand", dims, "float")
    vars_ = [z3.Int(V.fresh_name("q")) for _ in dims]
    st.assume(z3.ForAll(vars_, z3.And(g.select(vars_) >= 0, g.select(vars_) < 1)))
    return g


def rng_randint_py(interp, st, args, kwargs, node):
    M = _M()
    _trust("random.randint(a, b): an int in [a, b]; ValueError if a > b")
    a, b = as_int(args[0]), as_int(args[1])
    interp.raise_if(st, M.s_cmp(ast.Gt(), a, b), "ValueError", node)
    x = z3.Int(V.fresh_name("pyrandint"))
    st.assume(z3.And(x >= to_z3(a), x <= to_z3(b)))
    return x


def rng_choice_py(interp, st, args, kwargs, node):
    M = _M()
    _trust("random.choice(seq): seq[k] for some 0 <= k < len(seq); IndexError if empty")
    seq = args[0]
    n = M.sym_len(interp, st, seq, node)
    interp.raise_if(st, M.s_cmp(ast.LtE(), n, 0), "IndexError", node)
    k = z3.Int(V.fresh_name("pychoice"))
    st.assume(z3.And(k >= 0, k < to_z3(n)))
    return M.getitem(interp, st, seq, k, node)


def it_accumulate(interp, st, args, kwargs, node):
    """itertools.accumulate(xs) over ints: running sums  cum[k] == xs[0] + ... + xs[k]  (trusted library contract,
    stated through the same prefix-sum function psum that sum() uses)"""
    M = _M()
    xs = args[0]
    if isinstance(xs, list):
        out, acc = [], None
        for x in xs:
            acc = x if acc is None else M.s_add(acc, x)
            out.append(acc)
        return out
    if not isinstance(xs, SymList) or not is_scalar(xs.get(z3.Int("k"))):
        raise Outside("itertools.accumulate outside lists of ints", node)
    _trust("itertools.accumulate(xs): cum[k] == xs[0]+...+xs[k], same length")
    arr = xs.arrs[0]
    for ax in psum_axioms(arr):
        st.assume(ax)
    k = z3.Int(V.fresh_name("k"))
    cum = z3.Lambda([k], sumfn()(arr, k + 1))
    return SymList(xs.tmpl, [cum], xs.length)


def it_chain_from_iterable(interp, st, args, kwargs, node):
    """list(itertools.chain.from_iterable(parts)): the concatenation, characterised positionally (trusted):
    len == sum of the lengths; result[len_0 + ... + len_{d-1} + k] == parts[d][k] for 0 <= k < len_d"""
    M = _M()
    parts = args[0]
    if not isinstance(parts, SymList) or not isinstance(parts.tmpl, SymList):
        raise Outside("chain.from_iterable outside a symbolic list of lists", node)
    _trust("itertools.chain.from_iterable(parts): positional concatenation of the parts in order")
    inner = parts.tmpl
    # lengths of the parts as an array
    len_arr = parts.arrs[0]
    for ax in psum_axioms(len_arr):
        st.assume(ax)
    total = sumfn()(len_arr, to_z3(parts.length))
    out = SymList.fresh("chain", inner.tmpl, length=total)
    d, k = z3.Int(V.fresh_name("d")), z3.Int(V.fresh_name("k"))
    part_d = parts.get(d)
    src = part_d.get(k)
    dst = out.get(sumfn()(len_arr, d) + k)
    eq = M.values_equal(dst, src) if hasattr(M, "values_equal") else V.values_equal(dst, src)
    st.assume(
        z3.ForAll([d, k], z3.Implies(z3.And(d >= 0, d < to_z3(parts.length), k >= 0, k < to_z3(part_d.length)), to_z3(eq)))
    )
    return out


def np_searchsorted(interp, st, args, kwargs, node):
    """np.searchsorted(a, v) (side='left') on a nondecreasing 1-d int array: the insertion point r with
    a[r-1] < v <= a[r]  (trusted; stated in the local form, valid when a is nondecreasing)"""
    a, v = args[0], as_int(args[1])
    side = kwargs.get("side", args[2] if len(args) > 2 else "left")
    if isinstance(a, SymList):
        a = symlist_to_grid(interp, st, a, node)
    if not isinstance(a, Grid) or a.rank != 1 or not is_scalar(v):
        raise Outside("np.searchsorted outside (1-d array, scalar)", node)
    if side not in ("left", "right"):
        raise Outside("np.searchsorted side", node)
    _trust("np.searchsorted(a, v, side): for nondecreasing a the unique r in [0, n] with a[r-1] < v <= a[r] (left) / a[r-1] <= v < a[r] (right)")
    n = to_z3(a.dims[0])
    r = z3.Int(V.fresh_name("searchsorted"))
    k = z3.Int(V.fresh_name("k"))
    sorted_ = z3.ForAll([k], z3.Implies(z3.And(k >= 0, k + 1 < n), a.select([k]) <= a.select([k + 1])))
    zv = to_z3(v)
    if side == "left":
        props = z3.And(r >= 0, r <= n, z3.Or(r == 0, a.select([r - 1]) < zv), z3.Or(r == n, a.select([r]) >= zv))
    else:
        props = z3.And(r >= 0, r <= n, z3.Or(r == 0, a.select([r - 1]) <= zv), z3.Or(r == n, a.select([r]) > zv))
    st.assume(z3.And(r >= 0, r <= n))
    st.assume(z3.Implies(sorted_, props))
    return r


def warn(interp, st, args, kwargs, node):
    return None


def identity1(interp, st, args, kwargs, node):
    return args[0]


def np_int8(interp, st, args, kwargs, node):
    return as_int(args[0])


LIBFUNCS = {
    "np.array": np_array,
    "np.asarray": np_array,
    "np.zeros": np_zeros,
    "np.ones": np_ones,
    "np.empty": np_empty,
    "np.full": np_full,
    "np.full_like": np_full_like,
    "np.abs": np_abs,
    "np.sum": np_sum,
    "np.prod": np_prod,
    "np.argmax": np_argmax,
    "np.all": np_all,
    "np.any": np_any,
    "np.array_equal": np_array_equal,
    "np.logical_not": np_logical_not,
    "np.logical_or": np_logical_or,
    "np.logical_and": np_logical_and,
    "np.maximum": np_maximum,
    "np.minimum": np_minimum,
    "np.linalg.norm": np_norm,
    "np.cross": np_cross,
    "np.append": np_append,
    "np.sort": np_sort,
    "np.copy": np_copy,
    "np.where": np_where,
    "np.pad": np_pad,
    "np.repeat": np_repeat,
    "np.column_stack": np_column_stack,
    "np.argwhere": np_argwhere,
    "np.int8": np_int8,
    "np.int32": np_int8,
    "np.random.randint": rng_randint_np,
    "np.random.choice": rng_choice_np,
    "np.random.rand": rng_rand_np,
    "random.randint": rng_randint_py,
    "random.choice": rng_choice_py,
    "warnings.warn": warn,
    "itertools.accumulate": it_accumulate,
    "itertools.chain.from_iterable": it_chain_from_iterable,
    "np.searchsorted": np_searchsorted,
    "tqdm.tqdm": identity1,
    "muutils.json_serialize.json_serialize": identity1,
    "zanj.loading.load_item_recursive": identity1,
    "copy.deepcopy": identity1,
}

LIBCONSTS = {}


def _np_linalg(interp):
    return _I().ModuleRef("np.linalg")


# ============================================================================= methods on values
def m_sum(interp, st, base, base_node, args, kwargs, node):
    return np_sum(interp, st, [base] + args, kwargs, node)


def m_all(interp, st, base, base_node, args, kwargs, node):
    return np_all(interp, st, [base] + args, kwargs, node)


def m_any(interp, st, base, base_node, args, kwargs, node):
    return np_any(interp, st, [base] + args, kwargs, node)


def m_astype(interp, st, base, base_node, args, kwargs, node):
    M = _M()
    kind, dname = _dtype_kind(args[0])
    conv = {
        "int": lambda x: M.s_int(x),
        "bool": lambda x: _I().truthy_value(interp, st, x),
        "float": lambda x: _to_real(as_int(x)),
    }[kind]
    if isinstance(base, Arr):
        return base.map(conv, kind)
    if isinstance(base, Grid):
        g = M.grid_lambda(base.dims, kind, lambda idx: conv(base.select(idx)), dname)
        return g
    return conv(base)


def m_copy(interp, st, base, base_node, args, kwargs, node):
    return base


def m_argmax(interp, st, base, base_node, args, kwargs, node):
    return np_argmax(interp, st, [base] + args, kwargs, node)


def m_max(interp, st, base, base_node, args, kwargs, node):
    M = _M()
    if isinstance(base, Arr) and base.flat:
        return _reduce_arr(base, M.s_max, kwargs.get("axis"))
    if isinstance(base, Grid) and base.kind == "int" and not args and "axis" not in kwargs:
        _trust("ndarray.max(): an element that is >= every element; ValueError on an empty array")
        size_pos = b_and(*[M.s_cmp(ast.Gt(), d, 0) for d in base.dims])
        interp.raise_if(st, b_not(size_pos), "ValueError", node)
        m = z3.Int(V.fresh_name("max"))
        vars_ = [z3.Int(V.fresh_name("q")) for _ in base.dims]
        rng = z3.And(*[z3.And(x >= 0, x < to_z3(d)) for x, d in zip(vars_, base.dims)])
        st.assume(z3.ForAll(vars_, z3.Implies(rng, base.select(vars_) <= m)))
        st.assume(z3.Exists(vars_, z3.And(rng, base.select(vars_) == m)))
        return m
    raise Outside("max() of grid", node)


def m_tolist(interp, st, base, base_node, args, kwargs, node):
    if isinstance(base, Arr) and base.ndim == 1:
        return list(base.flat)
    raise Outside("tolist", node)


def _mutate(interp, st, base_node, new, node):
    if base_node is None:
        raise Outside("mutation of a temporary", node)
    if st.guards:
        raise Outside("mutation inside a guarded expression", node)
    interp.assign(base_node, new, st)


def m_filt_append(interp, st, base, base_node, args, kwargs, node):
    from . import filt

    new = filt.append(interp, st, base, args[0], node)
    _mutate(interp, st, base_node, new, node)
    return None


def np_arange(interp, st, args, kwargs, node):
    I = _I()
    if len(args) == 1 and not (set(kwargs) - {"dtype"}):
        # (the dtype only matters for arithmetic that could overflow: A-int64)
        return I.SymRange(0, args[0])
    raise Outside("np.arange with several arguments", node)


def np_delete(interp, st, args, kwargs, node):
    """np.delete(a, idxs, axis=0) where idxs is a filtered view of range(len(a)): the complementary filtered view of a"""
    from .filt import FiltList, RangeSrc, same_source

    I = _I()
    a, idxs = args[0], args[1]
    axis = kwargs.get("axis", args[2] if len(args) > 2 else None)
    if axis != 0 or not isinstance(idxs, FiltList) or not isinstance(idxs.src, RangeSrc):
        raise Outside("np.delete other than (array, filtered indices of its own range, axis=0)", node)
    M = _M()
    if isinstance(a, I.SymRange):
        if not (isinstance(a.lo, int) and a.lo == 0):
            raise Outside("np.delete on a range not starting at 0", node)
        n = a.hi
        src = RangeSrc(n)
    elif isinstance(a, Grid):
        n = a.dims[0]
        src = a
    else:
        raise Outside(f"np.delete on {type(a).__name__}", node)
    interp.ctx.oblige(st, M.s_cmp(ast.Eq(), n, idxs.src.n), f"delete-indices-of-this-array@{getattr(node, 'lineno', '?')}", node, "assert")
    k = z3.Int(V.fresh_name("dk"))
    keep = z3.Lambda([k], z3.And(k >= 0, k < to_z3(n), z3.Not(z3.Select(idxs.keep, k))))
    return FiltList(src, keep, as_array=True)


def m_list_append(interp, st, base, base_node, args, kwargs, node):
    if isinstance(base, list):
        new = list(base) + [args[0]]
    else:
        new = base.append(args[0])
    _mutate(interp, st, base_node, new, node)
    return None


def m_list_extend(interp, st, base, base_node, args, kwargs, node):
    items = _M().iter_values(interp, st, args[0], node)
    if not isinstance(items, list):
        raise Outside("extend with symbolic-length value", node)
    new = base
    for x in items:
        new = (list(new) + [x]) if isinstance(new, list) else new.append(x)
    _mutate(interp, st, base_node, new, node)
    return None


def m_list_pop(interp, st, base, base_node, args, kwargs, node):
    M = _M()
    if isinstance(base, list):
        if args and is_sym(args[0]):
            base = SymList.from_pylist("lst", base)
        else:
            if not base:
                interp.raise_if(st, True, "IndexError", node)
                return None
            i = args[0] if args else -1
            new = list(base)
            v = new.pop(i)
            _mutate(interp, st, base_node, new, node)
            return v
    n = base.length
    interp.raise_if(st, M.s_cmp(ast.LtE(), n, 0), "IndexError", node)
    if not args:
        v = base.get(M.s_sub(n, 1))
        new = SymList(base.tmpl, base.arrs, M.s_sub(n, 1))
        _mutate(interp, st, base_node, new, node)
        return v
    j, ok = M.norm_index(args[0], n)
    M._oblige_index(interp, st, ok, node)
    v = base.get(j)
    k = z3.Int(V.fresh_name("k"))
    zj = to_z3(j)
    arrs = []
    for a in base.arrs:
        if a is None or isinstance(a, (str, bool, int, float)):
            arrs.append(a)
        else:
            # the shifted array is a fresh symbol defined by axioms that E-matching can use in both directions
            b = z3.Const(V.fresh_name("popped"), a.sort())
            st.assume(z3.ForAll([k], z3.Implies(k < zj, z3.Select(b, k) == z3.Select(a, k)), patterns=[z3.Select(b, k)]))
            st.assume(z3.ForAll([k], z3.Implies(k < zj, z3.Select(b, k) == z3.Select(a, k)), patterns=[z3.Select(a, k)]))
            st.assume(z3.ForAll([k], z3.Implies(k >= zj, z3.Select(b, k) == z3.Select(a, k + 1)), patterns=[z3.Select(b, k)]))
            st.assume(z3.ForAll([k], z3.Implies(k > zj, z3.Select(a, k) == z3.Select(b, k - 1)), patterns=[z3.Select(a, k)]))
            arrs.append(b)
    new = SymList(base.tmpl, arrs, M.s_sub(n, 1))
    _mutate(interp, st, base_node, new, node)
    return v


def m_set_add(interp, st, base, base_node, args, kwargs, node):
    key = _M().as_key(args[0], node)
    if isinstance(base, EmptySet):
        base = CSet.empty(len(key))
    _mutate(interp, st, base_node, base.add(key), node)
    return None


def m_set_discard(interp, st, base, base_node, args, kwargs, node):
    key = _M().as_key(args[0], node)
    if isinstance(base, EmptySet):
        return None
    _mutate(interp, st, base_node, base.discard(key), node)
    return None


def m_set_remove(interp, st, base, base_node, args, kwargs, node):
    key = _M().as_key(args[0], node)
    if isinstance(base, EmptySet):
        interp.raise_if(st, True, "KeyError", node)
        return None
    interp.raise_if(st, b_not(base.contains(key)), "KeyError", node)
    _mutate(interp, st, base_node, base.discard(key), node)
    return None


def m_set_copy(interp, st, base, base_node, args, kwargs, node):
    return base


def m_dict_get(interp, st, base, base_node, args, kwargs, node):
    key = args[0]
    default = args[1] if len(args) > 1 else None
    if isinstance(base, dict):
        if is_sym(key):
            raise Outside("dict.get with symbolic key", node)
        return base.get(key, default)
    raise Outside("get on symbolic dict", node)


def m_dict_update(interp, st, base, base_node, args, kwargs, node):
    """d.update(k=v, ...) / d.update({...}) on a python dict with constant keys: the same as the item assignments in argument order"""
    if not isinstance(base, dict):
        raise Outside("update on symbolic dict", node)
    new = dict(base)
    for a in args:
        if not isinstance(a, dict) or any(is_sym(k) for k in a):
            raise Outside("dict.update with a non-constant-key mapping", node)
        new.update(a)
    new.update(kwargs)
    _mutate(interp, st, base_node, new, node)
    return None


def m_dict_items(interp, st, base, base_node, args, kwargs, node):
    return [(k, v) for k, v in base.items()]


def m_dict_keys(interp, st, base, base_node, args, kwargs, node):
    return list(base.keys())


def m_dict_values(interp, st, base, base_node, args, kwargs, node):
    return list(base.values())


def m_str_startswith(interp, st, base, base_node, args, kwargs, node):
    return base.startswith(args[0])


def m_str_removeprefix(interp, st, base, base_node, args, kwargs, node):
    if is_sym(base) and isinstance(args[0], str):
        pre = z3.StringVal(args[0])
        return z3.If(z3.PrefixOf(pre, base), z3.SubString(base, len(args[0]), z3.Length(base) - len(args[0])), base)
    return base.removeprefix(args[0])


def m_tobytes(interp, st, base, base_node, args, kwargs, node):
    raise Outside("tobytes", node)


METHODS = {
    ("Arr", "sum"): m_sum,
    ("Grid", "sum"): m_sum,
    ("Arr", "all"): m_all,
    ("Grid", "all"): m_all,
    ("Arr", "any"): m_any,
    ("Grid", "any"): m_any,
    ("Arr", "astype"): m_astype,
    ("Grid", "astype"): m_astype,
    ("scalar", "astype"): m_astype,
    ("Arr", "copy"): m_copy,
    ("Grid", "copy"): m_copy,
    ("Arr", "argmax"): m_argmax,
    ("Arr", "max"): m_max,
    ("Grid", "max"): m_max,
    ("Arr", "tolist"): m_tolist,
    ("list", "append"): m_list_append,
    ("SymList", "append"): m_list_append,
    ("FiltList", "append"): m_filt_append,
    ("list", "extend"): m_list_extend,
    ("SymList", "extend"): m_list_extend,
    ("list", "pop"): m_list_pop,
    ("SymList", "pop"): m_list_pop,
    ("CSet", "add"): m_set_add,
    ("EmptySet", "add"): m_set_add,
    ("CSet", "discard"): m_set_discard,
    ("EmptySet", "discard"): m_set_discard,
    ("CSet", "remove"): m_set_remove,
    ("CSet", "copy"): m_set_copy,
    ("dict", "get"): m_dict_get,
    ("dict", "items"): m_dict_items,
    ("dict", "update"): m_dict_update,
    ("dict", "keys"): m_dict_keys,
    ("dict", "values"): m_dict_values,
    ("str", "startswith"): m_str_startswith,
    ("str", "removeprefix"): m_str_removeprefix,
}


LIBFUNCS.update({"np.arange": np_arange, "np.delete": np_delete})


_PERCENTILE = {}


def np_percentile(interp, st, args, kwargs, node):
    """np.percentile(a, q) of a 1-d array: an uninterpreted real function of (the array, its length, q) - whatever numpy computes,
    the same inputs give the same value (trusted: np.percentile is a pure function)"""
    a, q = args[0], args[1]
    if kwargs or len(args) != 2:
        raise Outside("np.percentile with options", node)
    if isinstance(a, Arr):
        a = _M().arr_to_grid(a)
    if not isinstance(a, Grid) or a.rank != 1:
        raise Outside("np.percentile of a non-1d array", node)
    _trust("np.percentile is a pure function of its array and q (its value is not interpreted)")
    key = str(a.arr.sort())
    if key not in _PERCENTILE:
        _PERCENTILE[key] = z3.Function("np_percentile_" + str(len(_PERCENTILE)), a.arr.sort(), z3.IntSort(), z3.RealSort(), z3.RealSort())
    qz = to_z3(q)
    if qz.sort() == z3.IntSort():
        qz = z3.ToReal(qz)
    return _PERCENTILE[key](a.arr, to_z3(a.dims[0]), qz)


LIBFUNCS.update({"np.percentile": np_percentile})


_NDIFF = {}


def n_diff_term(st, a, b):
    """np.sum(a != b) for two arrays of one shape: the number of positions at which they differ - an uninterpreted function of the
    two array terms and the shape, between 0 and the number of entries (trusted meaning of the numpy idiom)"""
    _trust("np.sum(a != b) is the number of positions at which a and b differ (a function of the two arrays only)")
    key = (a.rank, a.kind, b.kind)
    if key not in _NDIFF:
        _NDIFF[key] = z3.Function(f"n_diff_{a.rank}_{a.kind}_{b.kind}", *([a.arr.sort(), b.arr.sort()] + [z3.IntSort()] * a.rank + [z3.IntSort()]))
    t = _NDIFF[key](a.arr, b.arr, *[to_z3(d) for d in a.dims])
    st.assume(t >= 0)
    return t


def np_cumsum(interp, st, args, kwargs, node):
    """np.cumsum of a 1-d integer array: out[k] = a[0] + ... + a[k] (stated with the prefix-sum function psum; trusted library contract)"""
    a = args[0]
    if isinstance(a, Arr):
        a = _M().arr_to_grid(a)
    if kwargs or len(args) != 1 or not isinstance(a, Grid) or a.rank != 1 or a.kind != "int":
        raise Outside("np.cumsum other than of a 1-d integer array", node)
    _trust("np.cumsum(a)[k] == a[0] + ... + a[k]")
    for ax in psum_axioms(a.arr):
        st.assume(ax)
    f = sumfn()
    return _M().grid_lambda([a.dims[0]], "int", lambda idx: f(a.arr, idx[0] + 1))


def np_split(interp, st, args, kwargs, node):
    """np.split(a, cuts, axis=0) with a 1-d array of cut positions: len(cuts)+1 pieces, piece k = a[cuts[k-1]:cuts[k]]
    (with cuts[-1] := 0 and cuts[len] := len(a)); requires 0 <= cuts nondecreasing <= len(a) (obligation). Trusted library contract."""
    M = _M()
    a, cuts = args[0], args[1]
    axis = kwargs.get("axis", args[2] if len(args) > 2 else 0)
    if axis != 0 or not isinstance(a, Grid) or not isinstance(cuts, Grid) or cuts.rank != 1:
        raise Outside("np.split other than (array, 1-d cut positions, axis=0)", node)
    _trust("np.split(a, cuts, axis=0): piece k is a[cuts[k-1]:cuts[k]] (first from 0, last to the end)")
    m = to_z3(cuts.dims[0])
    n = to_z3(a.dims[0])
    k = z3.Int(V.fresh_name("sk"))
    cut = lambda i: z3.Select(cuts.arr, i)  # noqa: E731
    interp.ctx.oblige(st, z3.ForAll([k], z3.Implies(z3.And(k >= 0, k < m), z3.And(cut(k) >= 0, cut(k) <= n, z3.Implies(k > 0, cut(k - 1) <= cut(k))))),
                      f"split-cuts-ordered@{getattr(node, 'lineno', '?')}", node, "assert")
    lo = z3.If(k == 0, z3.IntVal(0), cut(k - 1))
    hi = z3.If(k == m, n, cut(k))
    t = z3.Int(V.fresh_name("st"))
    inner_dims = list(a.dims[1:])
    piece_arr = z3.Lambda([t], z3.Select(a.arr, lo + t))
    tmpl = Grid([z3.Int(V.fresh_name("piece_len"))] + inner_dims, z3.Const(V.fresh_name("piece"), a.arr.sort()), a.kind, None, a.dtype)
    # leaves of a Grid: dims..., arr
    arrs = [z3.Lambda([k], hi - lo)]
    for d in inner_dims:
        arrs.append(d if isinstance(d, int) else z3.K(z3.IntSort(), to_z3(d)))
    arrs.append(z3.Lambda([k], piece_arr))
    return SymList(tmpl, arrs, cuts.dims[0] + 1 if not isinstance(cuts.dims[0], int) else cuts.dims[0] + 1)


LIBFUNCS.update({"np.cumsum": np_cumsum, "np.split": np_split})


def bi_filter(interp, st, args, kwargs, node):
    """filter(pred, s) over a set of integer tuples: the subset where pred holds (consumed by set(...)); pred is evaluated on an
    arbitrary member (a bound variable), so calls inside it go through the callees' contracts for every member at once"""
    M = _M()
    I = _I()
    pred, s = args
    if not isinstance(s, CSet):
        raise Outside("filter() over anything but a set of coordinate tuples", node)
    ks = [z3.Int(V.fresh_name("fm")) for _ in range(s.arity)]
    st.guards.append(s.contains(ks))
    for k in ks:
        st.binders.append(k)
    try:
        p = I.truthy_value(interp, st, M.call_value(interp, st, pred, [tuple(ks)], {}, node))
    finally:
        st.guards.pop()
        for _ in ks:
            st.binders.pop()
    out = CSet.fresh("filtered", s.arity)
    st.assume(z3.ForAll(ks, out.contains(ks) == z3.And(s.contains(ks), to_z3(p))))
    st.assume(z3.And(out.card >= 0, out.card <= to_z3(s.card)))
    st.assume((out.card == 0) == z3.ForAll(ks, z3.Not(out.contains(ks))))
    return out


BUILTINS["filter"] = bi_filter


def lib_opaque_ctor(name):
    def ctor(interp, st, args, kwargs, node):
        I = _I()
        M = _M()
        from .npmodel3 import _flat_obj_args

        flat = _flat_obj_args(args, kwargs)
        if not flat:
            return z3.Const(V.fresh_name(name), I.OBJ_SORT)
        fn = z3.Function(f"ctor.{name}!" + "_".join(str(x.sort()).replace(" ", "") for x in flat)[:160], *([x.sort() for x in flat] + [I.OBJ_SORT]))
        return fn(*flat)

    return ctor


LIBFUNCS.update({"pathlib.Path": lib_opaque_ctor("Path"), "zanj.ZANJ": lib_opaque_ctor("ZANJ")})


def torch_tensor(interp, st, args, kwargs, node):
    """torch.tensor(ndarray): the same values as a tensor (trusted; indexing / shape are those of the array)"""
    _trust("torch.tensor(a) holds the values of the array a in the same layout")
    return args[0]


LIBFUNCS.update({"torch.tensor": torch_tensor})


def lib_uf(name, arg_kinds, res_kind):
    """a library function we do not look into: an uninterpreted function (pure: same arguments, same result)"""
    sorts = {"str": z3.StringSort(), "int": z3.IntSort(), "obj": None}

    def fn(interp, st, args, kwargs, node):
        I = _I()
        if kwargs or len(args) != len(arg_kinds):
            raise Outside(f"{name} with other arguments than modelled", node)
        zs = []
        for a, k in zip(args, arg_kinds):
            if isinstance(a, I.ObjMethod):
                a = a.value
            if isinstance(a, str):
                a = z3.StringVal(a)
            zs.append(to_z3(a))
        rs = I.OBJ_SORT if res_kind == "obj" else sorts[res_kind]
        _trust(f"{name} is a pure function (its value is not interpreted)")
        f = z3.Function("lib." + name + "!" + "_".join(str(z.sort()) for z in zs), *([z.sort() for z in zs] + [rs]))
        return f(*zs)

    return fn


LIBFUNCS.update({
    "json.dumps": lib_uf("json.dumps", ["obj"], "str"),
    "muutils.misc.stable_hash": lib_uf("stable_hash", ["str"], "int"),
    "muutils.misc.sanitize_fname": lib_uf("sanitize_fname", ["str"], "str"),
    "muutils.misc.shorten_numerical_to_str": lib_uf("shorten_numerical_to_str", ["int"], "str"),
})
METHODS[("scalar", "removeprefix")] = m_str_removeprefix


def lib_unknown(name):
    """a library function whose value is never looked at: every call returns a fresh unknown object (nothing is assumed about it, not even purity)"""

    def fn(interp, st, args, kwargs, node):
        I = _I()
        return z3.Const(V.fresh_name("lib." + name), I.OBJ_SORT)

    return fn


LIBFUNCS.update({
    "muutils.json_serialize.util.safe_getsource": lib_unknown("safe_getsource"),
    "muutils.json_serialize.util.string_as_lines": lib_unknown("string_as_lines"),
})


def m_str_join(interp, st, base, base_node, args, kwargs, node):
    """sep.join(x): concrete for concrete strings; for an opaque token list an unknown function of (sep, list)"""
    I = _I()
    x = args[0]
    if isinstance(x, I.ObjMethod):
        x = x.value
    if I.is_obj(x):
        return z3.Function("str.join_obj", z3.StringSort(), I.OBJ_SORT, z3.StringSort())(z3.StringVal(base) if isinstance(base, str) else base, x)
    if isinstance(x, (list, tuple)) and all(isinstance(e, str) for e in x) and isinstance(base, str):
        return base.join(x)
    if isinstance(x, (list, tuple)) and x and isinstance(base, str) and all(isinstance(e, str) or (is_sym(e) and e.sort() == z3.StringSort()) for e in x):
        # a constant number of pieces, some of them symbolic strings: their concatenation with the separator in between
        parts = []
        for k_, e in enumerate(x):
            if k_ and base:
                parts.append(z3.StringVal(base))
            parts.append(z3.StringVal(e) if isinstance(e, str) else e)
        return parts[0] if len(parts) == 1 else z3.Concat(*parts)
    raise Outside("str.join over a symbolic sequence of strings", node)


METHODS[("str", "join")] = m_str_join


def np_expand_dims(interp, st, args, kwargs, node):
    a = args[0]
    axis = kwargs.get("axis", args[1] if len(args) > 1 else None)
    if isinstance(a, Arr) and axis == 0:
        return Arr((1,) + tuple(a.shape), list(a.flat), a.kind)
    raise Outside("np.expand_dims other than (constant-shape array, 0)", node)


def np_concatenate(interp, st, args, kwargs, node):
    """np.concatenate((a, b, ...), axis=0) of arrays with the same trailing shape: the rows of a, then those of b, ..."""
    M = _M()
    parts = args[0]
    axis = kwargs.get("axis", args[1] if len(args) > 1 else 0)
    if axis != 0 or not isinstance(parts, (list, tuple)) or not parts:
        raise Outside("np.concatenate other than a tuple of arrays along axis 0", node)
    grids = [M.arr_to_grid(p) if isinstance(p, Arr) else p for p in parts]
    if not all(isinstance(g, Grid) and g.rank == grids[0].rank for g in grids):
        raise Outside("np.concatenate of non-arrays / different ranks", node)
    for g in grids[1:]:
        for k in range(1, g.rank):
            interp.ctx.oblige(st, M.s_cmp(ast.Eq(), g.dims[k], grids[0].dims[k]), f"concatenate-shape@{getattr(node, 'lineno', '?')}", node, "shape")
    total = 0
    offs = []
    for g in grids:
        offs.append(total)
        total = M.s_add(total, g.dims[0])

    def fn(idx):
        out = grids[-1].select([to_z3(idx[0]) - to_z3(offs[-1])] + list(idx[1:]))
        for g, o in zip(reversed(grids[:-1]), reversed(offs[:-1])):
            out = z3.If(to_z3(idx[0]) < to_z3(o) + to_z3(g.dims[0]), g.select([to_z3(idx[0]) - to_z3(o)] + list(idx[1:])), out)
        return out

    return M.grid_lambda([total] + list(grids[0].dims[1:]), grids[0].kind, fn)


LIBFUNCS.update({"np.expand_dims": np_expand_dims, "np.concatenate": np_concatenate})


def lib_event(name, result=None):
    """a library call with an effect we only record (spec: n_calls / call_arg): e.g. seeding the global random sources"""

    def fn(interp, st, args, kwargs, node):
        _trust(f"{name} is recorded as an event; its effect on the random sources is not modelled beyond that")
        if not interp.ctx.options.get("spec_mode"):
            ev = list(st.env.get("__events__", []))
            ev.append((name, None, tuple(args), dict(kwargs), None))
            st.env["__events__"] = ev
        if result == "int":
            return z3.Int(V.fresh_name(name.replace(".", "_")))
        return None

    return fn


LIBFUNCS.update({
    "muutils.mlutils.set_reproducibility": lib_event("set_reproducibility"),
    "torch.random.seed": lib_event("torch.random.seed", "int"),
    "np.random.seed": lib_event("np.random.seed"),
})


# ----------------------------------------------------------------------------- row-major index algebra (np.meshgrid / ravel / np.vstack)
_UNRAVEL = None


def unravel_fns():
    """unravel_row(k, C) = k // C, unravel_col(k, C) = k % C, ravel_index(i, j, C) = i * C + j.  Uninterpreted for the solver: what it
    knows about them are the axioms of `unravel_axioms`, which are theorems of these definitions (lemmas/Lattice.lean: unravel_*)."""
    global _UNRAVEL
    if _UNRAVEL is None:
        I_ = z3.IntSort()
        _UNRAVEL = (z3.Function("unravel_row", I_, I_, I_), z3.Function("unravel_col", I_, I_, I_), z3.Function("ravel_index", I_, I_, I_, I_))
    return _UNRAVEL


def unravel_axioms(R, C):
    row, col, flat = unravel_fns()
    R, C = to_z3(as_int(R)), to_z3(as_int(C))
    k, i, j = z3.Int(V.fresh_name("uk")), z3.Int(V.fresh_name("ui")), z3.Int(V.fresh_name("uj"))
    N = R * C
    a1 = z3.ForAll([i, j], z3.Implies(z3.And(C > 0, i >= 0, j >= 0, j < C),
                                      z3.And(row(flat(i, j, C), C) == i, col(flat(i, j, C), C) == j, flat(i, j, C) >= 0)), patterns=[flat(i, j, C)])
    body2 = z3.Implies(z3.And(C > 0, k >= 0), z3.And(flat(row(k, C), col(k, C), C) == k, col(k, C) >= 0, col(k, C) < C, row(k, C) >= 0))
    a2 = z3.ForAll([k], body2, patterns=[row(k, C)])
    a2b = z3.ForAll([k], body2, patterns=[col(k, C)])
    a3 = z3.ForAll([k], z3.Implies(z3.And(C > 0, k >= 0, k < N), row(k, C) < R), patterns=[row(k, C)])
    a4 = z3.ForAll([i, j], z3.Implies(z3.And(i >= 0, i < R, j >= 0, j < C), flat(i, j, C) < N), patterns=[flat(i, j, C)])
    return [a1, a2, a2b, a3, a4]


def np_meshgrid(interp, st, args, kwargs, node):
    """np.meshgrid(range(r), range(c), indexing="ij"): two (r, c) arrays, the first holding the row index and the second the column index
    of each position (trusted library contract)"""
    I = _I()
    M = _M()
    if kwargs.get("indexing") != "ij" or len(args) != 2 or set(kwargs) - {"indexing"}:
        raise Outside("np.meshgrid other than two ranges with indexing='ij'", node)
    dims = []
    for a in args:
        if not (isinstance(a, I.SymRange) and isinstance(a.lo, int) and a.lo == 0):
            raise Outside("np.meshgrid of something other than range(n)", node)
        dims.append(a.hi)
    rows = M.grid_lambda(dims, "int", lambda idx: idx[0])
    cols = M.grid_lambda(dims, "int", lambda idx: idx[1])
    return (rows, cols)


def m_ravel(interp, st, base, base_node, args, kwargs, node):
    """a.ravel() of a 2-d array in C order: out[k] = a[k // C, k % C], length R * C (trusted library contract)"""
    M = _M()
    if args or kwargs:
        raise Outside("ravel with arguments", node)
    if isinstance(base, Arr):
        return Arr((len(base.flat),), list(base.flat), base.kind)
    if not (isinstance(base, Grid) and base.rank == 2):
        raise Outside("ravel outside 2-d arrays", node)
    R, C = (_resolve_ite(interp, st, d) for d in base.dims)
    if isinstance(R, int) and isinstance(C, int):
        return Arr((R * C,), [base.select([i, j]) for i in range(R) for j in range(C)], base.kind)
    row, col, _ = unravel_fns()
    for ax in unravel_axioms(R, C):
        st.assume(ax)
    Cz = to_z3(as_int(C))
    return M.grid_lambda([M.s_mul(R, C)], base.kind, lambda idx: base.select([row(idx[0], Cz), col(idx[0], Cz)]), base.dtype)


def _resolve_ite(interp, st, d, depth=0):
    """a dimension written with if-then-else terms (the clamping of slice bounds) whose conditions are decided by the path condition: the same
    number with every decided if-then-else replaced by the branch taken"""
    if not is_sym(d):
        return d
    hyps = list(st.hyps())

    def decided(c):
        for cond, val in ((z3.Not(c), True), (c, False)):
            s_ = z3.Solver()
            s_.set("timeout", 2000)
            for h in hyps:
                s_.add(h)
            s_.add(cond)
            if V.guarded_check(s_, 2000) == z3.unsat:
                return val
        return None

    def walk(t, budget=[40]):
        if not z3.is_app(t) or t.num_args() == 0:
            return t
        kids = [walk(c) for c in t.children()]
        if z3.is_app_of(t, z3.Z3_OP_ITE) and budget[0] > 0:
            budget[0] -= 1
            v = decided(kids[0])
            if v is True:
                return kids[1]
            if v is False:
                return kids[2]
            # undecided, but both branches may denote the same number here (max(n - 1, 0) with n >= 1 is n - 1 either way)
            whole = z3.If(kids[0], kids[1], kids[2])
            for keep in (kids[1], kids[2]):
                if not z3.is_int_value(keep) and decided(whole == keep) is True:
                    return keep
        return t.decl()(*kids)

    out = z3.simplify(d)
    for _ in range(3):
        nxt = z3.simplify(walk(out, [40]))
        if nxt.eq(out):
            break
        out = nxt
    return out.as_long() if z3.is_int_value(out) else out


def np_vstack(interp, st, args, kwargs, node):
    """np.vstack((a, b, ...)) of 1-d arrays of one length n: the (len, n) array whose rows are the arguments (trusted library contract)"""
    M = _M()
    parts = args[0] if args else None
    if kwargs or len(args) != 1 or not isinstance(parts, (tuple, list)) or not parts:
        raise Outside("np.vstack other than of one tuple of arrays", node)
    if all(isinstance(p, Arr) and p.ndim == 1 for p in parts) and len({p.shape[0] for p in parts}) == 1:
        n = parts[0].shape[0]
        return Arr((len(parts), n), [x for p in parts for x in p.flat], parts[0].kind)
    if not all(isinstance(p, Grid) and p.rank == 1 and p.kind == parts[0].kind for p in parts):
        raise Outside("np.vstack of values other than 1-d arrays of one kind", node)
    n = parts[0].dims[0]
    for p in parts[1:]:
        same = (p.dims[0] is n) or (is_sym(p.dims[0]) and is_sym(n) and p.dims[0].eq(n)) or (isinstance(n, int) and isinstance(p.dims[0], int) and n == p.dims[0])
        if not same:
            # numpy raises ValueError on a length mismatch: an obligation of the caller
            interp.ctx.oblige(st, to_z3(as_int(p.dims[0])) == to_z3(as_int(n)), f"vstack-same-length@{getattr(node, 'lineno', '?')}", node, "assert")

    def fn(idx):
        out = parts[-1].select([idx[1]])
        for t in range(len(parts) - 2, -1, -1):
            out = z3.If(idx[0] == t, parts[t].select([idx[1]]), out)
        return out

    return M.grid_lambda([len(parts), n], parts[0].kind, fn, parts[0].dtype)


LIBFUNCS.update({"np.meshgrid": np_meshgrid, "np.vstack": np_vstack})
METHODS[("Grid", "ravel")] = m_ravel
METHODS[("Arr", "ravel")] = m_ravel


# ----------------------------------------------------------------------------- bytes and hashes (C09: equal mazes have equal hashes)
_DTYPE_CODE = {"bool": 1, "int8": 2, "int16": 3, "int32": 4, "int64": 5, "uint8": 6, "float32": 7, "float64": 8, "float": 8}


def _dtype_tag(g):
    """an integer naming the dtype of an array: a constant when it is known, otherwise an unknown function of the array"""
    if g.kind == "bool":
        return z3.IntVal(1)
    if g.dtype in _DTYPE_CODE:
        return z3.IntVal(_DTYPE_CODE[g.dtype])
    return z3.Function(f"dtype_of_r{g.rank}_{g.kind}", g.arr.sort(), z3.IntSort())(g.arr)


def m_tobytes(interp, st, base, base_node, args, kwargs, node):
    """a.tobytes(): an opaque bytes object.  Library contract (trusted): the bytes are a function of the dtype, the shape and the entries
    inside the shape - two arrays with the same dtype, the same shape and the same entries give equal bytes (that instance is assumed for
    every pair of tobytes() calls of one path); nothing else is known about them."""
    I = _I()
    M = _M()
    if args or kwargs:
        raise Outside("tobytes with arguments", node)
    g = M.arr_to_grid(base) if isinstance(base, Arr) else base
    if not isinstance(g, Grid):
        raise Outside("tobytes of a non-array", node)
    _trust("ndarray.tobytes(): arrays of one dtype and shape with equal entries have equal bytes (the bytes themselves are not interpreted)")
    f = z3.Function(f"np.tobytes_r{g.rank}_{g.kind}", *([g.arr.sort()] + [z3.IntSort()] * (g.rank + 1) + [I.OBJ_SORT]))
    tag = _dtype_tag(g)
    term = f(g.arr, *[to_z3(as_int(d)) for d in g.dims], tag)
    seen = interp.ctx.__dict__.setdefault("tobytes_seen", [])
    for (g2, tag2, term2) in seen:
        if g2.rank != g.rank or g2.kind != g.kind or term2.eq(term):
            continue
        idx = [z3.Int(V.fresh_name("bi")) for _ in range(g.rank)]
        inr = z3.And(*[z3.And(i >= 0, i < to_z3(as_int(d))) for i, d in zip(idx, g.dims)])
        same = z3.And(*([to_z3(as_int(a)) == to_z3(as_int(b)) for a, b in zip(g.dims, g2.dims)] + [tag == tag2, z3.ForAll(idx, z3.Implies(inr, g.select(idx) == g2.select(idx)))]))
        st.assume(z3.Implies(same, term == term2))
    seen.append((g, tag, term))
    return term


def bi_hash(interp, st, args, kwargs, node):
    """hash(x) of an opaque object (bytes, ...) or of a tuple of such: an unknown but fixed function of the value (equal values, equal hashes)"""
    I = _I()
    if kwargs or len(args) != 1:
        raise Outside("hash with other arguments", node)

    def obj_of(x):
        if isinstance(x, I.ObjMethod):
            x = x.value
        if I.is_obj(x):
            return x
        if is_sym(x) and x.sort() == z3.IntSort() or isinstance(x, int) and not isinstance(x, bool):
            return z3.Function("obj.of_int", z3.IntSort(), I.OBJ_SORT)(to_z3(x))
        if isinstance(x, str):
            return z3.Const("obj:" + repr(x), I.OBJ_SORT)
        if isinstance(x, tuple):
            parts = [obj_of(e) for e in x]
            return z3.Function(f"obj.tuple{len(parts)}", *([I.OBJ_SORT] * len(parts) + [I.OBJ_SORT]))(*parts)
        raise Outside(f"hash of {type(x).__name__}", node)

    x = args[0]
    if isinstance(x, Rec):
        raise Outside("hash of a record (call its __hash__ explicitly)", node)
    _trust("hash(): equal objects have equal hashes (the value is not interpreted)")
    return z3.Function("py.hash", I.OBJ_SORT, z3.IntSort())(obj_of(x))


BUILTINS["hash"] = bi_hash
METHODS[("Grid", "tobytes")] = m_tobytes
METHODS[("Arr", "tobytes")] = m_tobytes


# ----------------------------------------------------------------------------- zip(*rows), torch.stack (C17: get_batch)
def zip_star(interp, st, lst, node):
    """zip(*L) for a list L of symbolic length n >= 1 whose elements all iterate to the same constant number m of items (arrays with a
    constant first dimension, tuples): m tuples of length n, the j-th holding the j-th item of every element - returned as m symbolic
    lists.  (With n == 0 python yields nothing and the usual unpacking fails: an obligation of the caller.)"""
    M = _M()
    n = lst.length
    interp.ctx.oblige(st, to_z3(as_int(n)) >= 1, f"zip-star-nonempty@{getattr(node, 'lineno', '?')}", node, "assert")
    k = z3.Int(V.fresh_name("zk"))
    st.guards.append(z3.And(k >= 0, k < to_z3(as_int(n))))
    try:
        elem = lst.get(k)
        items = M.iter_values(interp, st, elem, node)
    finally:
        st.guards.pop()
    if not isinstance(items, list):
        raise Outside("zip(*rows) where a row has symbolic length", node)
    out = []
    for it in items:
        arrs = []
        for l in V.leaves_of(it):
            if l is None or isinstance(l, (str, bool, int, float)):
                arrs.append(l)
            else:
                arrs.append(V.lam_array(k, l))
        out.append(SymList(it, arrs, n))
    return out


def torch_stack(interp, st, args, kwargs, node):
    """torch.stack(seq) (dim 0): the tensor whose k-th slice is seq[k]; all elements must have one shape and seq must not be empty
    (torch raises otherwise: obligations).  Trusted library contract."""
    M = _M()
    if kwargs or len(args) != 1:
        raise Outside("torch.stack with a dim argument", node)
    seq = args[0]
    _trust("torch.stack(seq) puts seq[k] at index k of a new leading dimension")
    if isinstance(seq, tuple):
        seq = list(seq)
    if isinstance(seq, list):
        if not seq:
            raise Outside("torch.stack of an empty list", node)
        gs = [M.arr_to_grid(g) if isinstance(g, Arr) else g for g in seq]
        if not all(isinstance(g, Grid) for g in gs):
            raise Outside("torch.stack of non-arrays", node)
        return stack_grids(interp, st, gs, node)
    if isinstance(seq, SymList) and isinstance(seq.tmpl, Grid):
        n = seq.length
        ln = getattr(node, "lineno", "?")
        interp.ctx.oblige(st, to_z3(as_int(n)) >= 1, f"stack-nonempty@{ln}", node, "assert")
        k = z3.Int(V.fresh_name("sk"))
        first = seq.get(0)
        ek = seq.get(k)
        same = [to_z3(as_int(a)) == to_z3(as_int(b)) for a, b in zip(ek.dims, first.dims) if not (isinstance(a, int) and isinstance(b, int) and a == b)]
        if same:
            interp.ctx.oblige(st, z3.ForAll([k], z3.Implies(z3.And(k >= 0, k < to_z3(as_int(n))), z3.And(*same))), f"stack-shape@{ln}", node, "shape")
        arr = V.lam_array(k, ek.arr)
        return Grid([n] + list(first.dims), arr, first.kind, None, first.dtype)
    raise Outside(f"torch.stack of {type(seq).__name__}", node)


LIBFUNCS.update({"torch.stack": torch_stack})


# ----------------------------------------------------------------------------- token lists: [a, *xs, b], .count, .index (C06/C07 sequencing)
def _scalar_z3(x, node=None):
    I = _I()
    if isinstance(x, I.ObjMethod):
        x = x.value
    if isinstance(x, str):
        return z3.StringVal(x)
    if isinstance(x, bool) or (isinstance(x, (int, float)) and not is_sym(x)):
        return to_z3(x)
    if is_sym(x):
        return x
    raise Outside(f"list of {type(x).__name__} elements mixed with a symbolic-length list", node)


def symlist_concat(interp, st, parts, node):
    """[e0, *xs, e1, *ys, ...] / xs + ys with at least one symbolic-length part: the list whose entries are those of the parts in order.
    parts: ("one", scalar) or ("many", SymList | python list).  Scalar elements (strings / ints) only."""
    segs = []  # (length, getter(k_local) -> z3 scalar)
    tmpl = None
    for kind, v in parts:
        if kind == "one":
            z = _scalar_z3(v, node)
            segs.append((1, (lambda z_: (lambda j: z_))(z)))
            tmpl = tmpl if tmpl is not None else z
        elif isinstance(v, SymList):
            lv = V.leaves_of(v.tmpl)
            if len(lv) != 1 or not is_sym(lv[0]):
                raise Outside("concatenation of symbolic-length lists of structured elements", node)
            segs.append((v.length, (lambda a_: (lambda j: z3.Select(a_, j)))(v.arrs[0])))
            tmpl = lv[0]
        elif isinstance(v, (list, tuple)):
            for e in v:
                z = _scalar_z3(e, node)
                segs.append((1, (lambda z_: (lambda j: z_))(z)))
                tmpl = tmpl if tmpl is not None else z
        else:
            raise Outside(f"concatenation with {type(v).__name__}", node)
    if tmpl is None:
        return []
    k = z3.Int(V.fresh_name("ck"))
    offs = [0]
    for ln, _ in segs:
        offs.append(_M().s_add(offs[-1], ln))
    body = None
    for i in range(len(segs) - 1, -1, -1):
        val = segs[i][1](k - to_z3(as_int(offs[i])))
        if val.sort() != tmpl.sort():
            raise Outside("concatenation of lists of different element sorts", node)
        body = val if body is None else z3.If(k < to_z3(as_int(offs[i + 1])), val, body)
    for ln, _ in segs:
        if is_sym(ln):
            st.assume(to_z3(ln) >= 0)
    return SymList(z3.Const(V.fresh_name("cat_elem"), tmpl.sort()), [z3.Lambda([k], body)], offs[-1])


def _as_scalar_symlist(base, node):
    if isinstance(base, SymList):
        lv = V.leaves_of(base.tmpl)
        if len(lv) == 1 and is_sym(lv[0]):
            return base.arrs[0], base.length
        raise Outside("count/index on a list of structured elements", node)
    if isinstance(base, (list, tuple)):
        zs = [_scalar_z3(e, node) for e in base]
        if not zs:
            return None, 0
        arr = z3.K(z3.IntSort(), zs[0])
        for i, z in enumerate(zs):
            arr = z3.Store(arr, i, z)
        return arr, len(zs)
    raise Outside(f"count/index on {type(base).__name__}", node)


def m_list_count(interp, st, base, base_node, args, kwargs, node):
    """xs.count(x): a number c with 0 <= c <= len, c == 0 iff x does not occur, c == 1 iff it occurs exactly once (what is known of it)"""
    arr, n = _as_scalar_symlist(base, node)
    if arr is None:
        return 0
    x = _scalar_z3(args[0], node)
    nz = to_z3(as_int(n))
    c = z3.Int(V.fresh_name("count"))
    j, j2 = z3.Int(V.fresh_name("cj")), z3.Int(V.fresh_name("cj"))
    occ = lambda t: z3.And(t >= 0, t < nz, z3.Select(arr, t) == x)
    st.assume(z3.And(c >= 0, c <= nz))
    st.assume((c == 0) == z3.Not(z3.Exists([j], occ(j))))
    st.assume((c == 1) == z3.And(z3.Exists([j], occ(j)), z3.ForAll([j, j2], z3.Implies(z3.And(occ(j), occ(j2)), j == j2))))
    return c


def m_list_index(interp, st, base, base_node, args, kwargs, node):
    """xs.index(x): the first position of x; ValueError when x does not occur"""
    if len(args) != 1 or kwargs:
        raise Outside("list.index with start/stop", node)
    arr, n = _as_scalar_symlist(base, node)
    if arr is None:
        interp.raise_if(st, True, "ValueError", node)
        return 0
    x = _scalar_z3(args[0], node)
    nz = to_z3(as_int(n))
    j = z3.Int(V.fresh_name("ij"))
    present = z3.Exists([j], z3.And(j >= 0, j < nz, z3.Select(arr, j) == x))
    interp.raise_if(st, z3.Not(present), "ValueError", node)
    i = z3.Int(V.fresh_name("index"))
    st.assume(z3.And(i >= 0, i < nz, z3.Select(arr, i) == x, z3.ForAll([j], z3.Implies(z3.And(j >= 0, j < i), z3.Select(arr, j) != x))))
    return i


METHODS[("SymList", "count")] = m_list_count
METHODS[("SymList", "index")] = m_list_index
METHODS[("list", "count")] = m_list_count
METHODS[("list", "index")] = m_list_index


def np_max(interp, st, args, kwargs, node):
    """np.max(a) / np.min(a): the method on the array (python sequences are arrays first)"""
    a = _as_array(args[0], node) if not isinstance(args[0], (Arr, Grid)) else args[0]
    return m_max(interp, st, a, None, list(args[1:]), kwargs, node)


def np_min(interp, st, args, kwargs, node):
    a = _as_array(args[0], node) if not isinstance(args[0], (Arr, Grid)) else args[0]
    if isinstance(a, Arr) and a.flat:
        return _reduce_arr(a, _M().s_min, kwargs.get("axis"))
    raise Outside("np.min of a symbolic-shape array", node)


LIBFUNCS.update({"np.max": np_max, "np.amax": np_max, "np.min": np_min, "np.amin": np_min})


# ----------------------------------------------------------------------------- np.ndindex over a 3-d shape (row-major), np.random.shuffle
class NdIndex:
    """np.ndindex((D, R, C)): the index triples in row-major (C) order.  Element k is (nd3_d(k), nd3_x(k), nd3_y(k)); the solver sees these
    functions and their inverse flat3 only through `nd3_axioms` (theorems of k = (d*R + x)*C + y, lemmas/Unravel.lean: nd3_*)."""

    def __init__(self, dims):
        self.dims = list(dims)


_ND3 = None


def nd3_fns():
    global _ND3
    if _ND3 is None:
        I_ = z3.IntSort()
        _ND3 = tuple(z3.Function(n, I_, I_, I_, I_) for n in ("nd3_d", "nd3_x", "nd3_y")) + (z3.Function("flat3", I_, I_, I_, I_, I_, I_),)
    return _ND3


def nd3_axioms(D, R, C):
    fd, fx, fy, flat = nd3_fns()
    D, R, C = to_z3(as_int(D)), to_z3(as_int(R)), to_z3(as_int(C))
    N = D * R * C
    k, d, x, y = (z3.Int(V.fresh_name(n)) for n in ("nk", "nd", "nx", "ny"))
    b1_body = z3.Implies(z3.And(k >= 0, k < N), z3.And(fd(k, R, C) >= 0, fd(k, R, C) < D, fx(k, R, C) >= 0, fx(k, R, C) < R, fy(k, R, C) >= 0, fy(k, R, C) < C,
                                                    flat(fd(k, R, C), fx(k, R, C), fy(k, R, C), R, C) == k))
    b2 = z3.ForAll([d, x, y], z3.Implies(z3.And(d >= 0, d < D, x >= 0, x < R, y >= 0, y < C),
                                         z3.And(flat(d, x, y, R, C) >= 0, flat(d, x, y, R, C) < N, fd(flat(d, x, y, R, C), R, C) == d,
                                                fx(flat(d, x, y, R, C), R, C) == x, fy(flat(d, x, y, R, C), R, C) == y)), patterns=[flat(d, x, y, R, C)])
    return [z3.ForAll([k], b1_body, patterns=[p]) for p in (fd(k, R, C), fx(k, R, C), fy(k, R, C))] + [b2, N >= 0]


def np_ndindex(interp, st, args, kwargs, node):
    shape = args[0] if len(args) == 1 and isinstance(args[0], (tuple, list)) else tuple(args)
    if kwargs or len(shape) != 3:
        raise Outside("np.ndindex over anything but a 3-d shape", node)
    dims = [as_int(d) for d in shape]
    if all(isinstance(d, int) for d in dims):
        return [(a, b, c) for a in range(dims[0]) for b in range(dims[1]) for c in range(dims[2])]
    _trust("np.ndindex(shape): every index tuple of the shape once, in row-major order")
    for ax in nd3_axioms(*dims):
        st.assume(ax)
    return NdIndex(dims)


def ndindex_len(nd):
    M = _M()
    return M.s_mul(M.s_mul(nd.dims[0], nd.dims[1]), nd.dims[2])


def ndindex_item(nd, k):
    fd, fx, fy, _ = nd3_fns()
    R, C = to_z3(as_int(nd.dims[1])), to_z3(as_int(nd.dims[2]))
    kz = to_z3(as_int(k))
    return (fd(kz, R, C), fx(kz, R, C), fy(kz, R, C))


def np_random_shuffle(interp, st, args, kwargs, node):
    """np.random.shuffle(a) (in place, first axis): the rows of a in an unknown order - a'[k] == a[pi(k)] for a bijection pi of [0, n)
    (trusted library contract; pi and its inverse are fresh function symbols)"""
    M = _M()
    if kwargs or len(args) != 1 or not isinstance(node, ast.Call):
        raise Outside("np.random.shuffle with other arguments", node)
    a = args[0]
    if not isinstance(a, Grid):
        raise Outside("np.random.shuffle of a non-array", node)
    _trust("np.random.shuffle(a): permutes a along its first axis (a bijection of the row indices)")
    n = to_z3(as_int(a.dims[0]))
    pi = z3.Function(V.fresh_name("shuffle_pi"), z3.IntSort(), z3.IntSort())
    inv = z3.Function(V.fresh_name("shuffle_inv"), z3.IntSort(), z3.IntSort())
    k = z3.Int(V.fresh_name("pk"))
    body = z3.Implies(z3.And(k >= 0, k < n), z3.And(pi(k) >= 0, pi(k) < n, inv(k) >= 0, inv(k) < n, inv(pi(k)) == k, pi(inv(k)) == k))
    st.assume(z3.ForAll([k], body, patterns=[pi(k)]))
    st.assume(z3.ForAll([k], body, patterns=[inv(k)]))
    # every old row is somewhere in the new array: instantiated wherever an old row is mentioned
    st.assume(z3.ForAll([k], body, patterns=[z3.Select(a.arr, k)]))
    new = M.grid_lambda(a.dims, a.kind, lambda idx: a.select([pi(idx[0])] + list(idx[1:])), a.dtype)
    new.shuffled_from = (a, pi, inv)
    interp.assign(node.args[0], new, st)
    return None


LIBFUNCS.update({"np.ndindex": np_ndindex, "np.random.shuffle": np_random_shuffle})


def m_recdict_pop(interp, st, base, base_node, args, kwargs, node):
    """obj.__dict__.pop(name, default): supported when nothing of that name is stored in the record (then the default comes back, nothing changes)"""
    if len(args) != 2 or not isinstance(args[0], str):
        raise Outside("__dict__.pop without a constant name and a default", node)
    if args[0] in base.rec.fields or ("__dict__:" + args[0]) in base.rec.fields:
        raise Outside("__dict__.pop of an attribute the record holds", node)
    cref = _M().find_class(interp, base.rec.cls, st)
    r = _M().class_attr(interp, cref, args[0]) if cref is not None else None
    if r is None:
        raise Outside("__dict__.pop of a name the class does not define", node)
    _trust("functools.cached_property: dropping the cached entry from the instance dictionary makes the next read recompute the value (decorators are not modelled: every read recomputes)")
    return args[1]


METHODS[("RecDictView", "pop")] = m_recdict_pop


def np_flip(interp, st, args, kwargs, node):
    """np.flip(a, axis=k): entries reversed along one axis (trusted library contract)"""
    M = _M()
    a = M.arr_to_grid(args[0]) if isinstance(args[0], Arr) else args[0]
    axis = kwargs.get("axis", args[1] if len(args) > 1 else None)
    if not isinstance(a, Grid) or not isinstance(axis, int):
        raise Outside("np.flip without a constant axis", node)
    if axis < 0:
        axis += a.rank
    n = a.dims[axis]

    def fn(idx):
        idx2 = list(idx)
        idx2[axis] = to_z3(as_int(n)) - 1 - idx[axis]
        return a.select(idx2)

    return M.grid_lambda(a.dims, a.kind, fn, a.dtype)


LIBFUNCS.update({"np.flip": np_flip})


def m_reshape_split_last(interp, st, base, base_node, args, kwargs, node):
    """a.reshape(m, p, q) of an (n, p*q) array with constant p, q: out[k, e, c] == a[k, e*q + c]; m must be n (numpy raises otherwise: an obligation).
    Other reshapes are outside the subset."""
    M = _M()
    shape = args[0] if len(args) == 1 and isinstance(args[0], (tuple, list)) else tuple(args)
    if kwargs or not isinstance(base, Grid) or base.rank != 2 or len(shape) != 3:
        raise Outside("reshape other than (n, p*q) -> (n, p, q)", node)
    m, p_, q_ = (as_int(v) for v in shape)
    if not (isinstance(p_, int) and isinstance(q_, int) and isinstance(base.dims[1], int) and base.dims[1] == p_ * q_):
        raise Outside("reshape other than (n, p*q) -> (n, p, q) with constant p, q", node)
    interp.ctx.oblige(st, to_z3(as_int(m)) == to_z3(as_int(base.dims[0])), f"reshape-size@{getattr(node, 'lineno', '?')}", node, "shape")
    _trust("ndarray.reshape (C order): (n, p*q) -> (n, p, q) sends entry [k, e*q + c] to [k, e, c]")
    return M.grid_lambda([base.dims[0], p_, q_], base.kind, lambda idx: base.select([idx[0], idx[1] * q_ + idx[2]]), base.dtype)


METHODS[("Grid", "reshape")] = m_reshape_split_last


def np_default_rng(interp, st, args, kwargs, node):
    """np.random.default_rng(seed): a generator object we do not look into (its methods have their own library contracts)"""
    return _I().Opaque("np.random.Generator")


def rng_permuted(interp, st, args, kwargs, node):
    """Generator.permuted(a, axis=1, out=a) on an (n, 2, ...) array: every slice along axis 1 is permuted independently - with two entries, each
    row keeps or exchanges them (an unknown choice per row).  In place: the argument named by `out` receives the result.  Trusted library contract."""
    M = _M()
    a = args[0] if args else None
    axis, out = kwargs.get("axis"), kwargs.get("out")
    if not isinstance(a, Grid) or axis != 1 or a.rank < 2 or not (isinstance(a.dims[1], int) and a.dims[1] == 2) or not isinstance(node, ast.Call):
        raise Outside("Generator.permuted other than (array with a length-2 second axis, axis=1)", node)
    _trust("np.random.Generator.permuted(a, axis=1): permutes the entries along axis 1 independently for every index of the other axes")
    if a.rank != 3:
        raise Outside("Generator.permuted on an array that is not (n, 2, k)", node)
    flip = z3.Function(V.fresh_name("permuted_flip"), z3.IntSort(), z3.IntSort(), z3.BoolSort())  # one choice per (row, last index)
    new = M.grid_lambda(a.dims, a.kind, lambda idx: z3.If(flip(idx[0], idx[2]), a.select([idx[0], 1 - idx[1], idx[2]]), a.select(idx)), a.dtype)
    if out is not None:
        kw = [k_ for k_ in node.keywords if k_.arg == "out"]
        if not kw:
            raise Outside("Generator.permuted: cannot find the out= argument", node)
        interp.assign(kw[0].value, new, st)
    return new


LIBFUNCS.update({"np.random.default_rng": np_default_rng, "np.random.Generator.permuted": rng_permuted})


def lib_empty_sequence_if_attr_false(interp, st, args, kwargs, node):
    """muutils.misc.empty_sequence_if_attr_false(itr, owner, name): itr if getattr(owner, name, False) else () (trusted library contract)"""
    I = _I()
    if kwargs or len(args) != 3 or not isinstance(args[2], str):
        raise Outside("empty_sequence_if_attr_false with other arguments", node)
    itr, owner, name = args
    if isinstance(owner, dict):
        flag = owner.get(name, False)
    elif isinstance(owner, Rec):
        flag = owner.fields.get(name, False) if name in owner.fields else _M().getattr_value(interp, st, owner, name, node)
    else:
        raise Outside("empty_sequence_if_attr_false on an owner that is neither a record nor a dict", node)
    t = I.truthy_value(interp, st, flag)
    if isinstance(t, bool):
        return itr if t else ()
    raise Outside("empty_sequence_if_attr_false on a symbolic flag (declare the flag as two alternatives)", node)


LIBFUNCS.update({"muutils.misc.empty_sequence_if_attr_false": lib_empty_sequence_if_attr_false})


def lib_list_join(interp, st, args, kwargs, node):
    """muutils.misc.list_join(lst, factory): the elements of lst with factory() between consecutive ones (trusted library contract; constant-length lists)"""
    if kwargs or len(args) != 2 or not isinstance(args[0], (list, tuple)):
        raise Outside("list_join other than (constant-length list, factory)", node)
    out = []
    for k_, e in enumerate(args[0]):
        if k_:
            out.append(interp.call_value(args[1], [], {}, st, node) if hasattr(interp, "call_value") else _M().call_value(interp, st, args[1], [], {}, node))
        out.append(e)
    return out


LIBFUNCS.update({"muutils.misc.list_join": lib_list_join})


def dict_fromkeys(interp, st, args, kwargs, node):
    """dict.fromkeys(xs) for a list xs of maze objects, used as `list(dict.fromkeys(xs))`: the elements of xs that are not == to an EARLIER element, in
    their original order (a dict keeps the first key of every class of equal keys and iterates in insertion order).  Trusted: that meaning of dict,
    which needs == to be an equivalence and equal keys to hash equal (the latter is lemma hash_consistent of C09); == of two mazes is
    LatticeMaze.__eq__, proved equal to the specification maze_equal under C09."""
    from .filt import FiltList
    from . import spec as SP

    if kwargs or len(args) != 1 or not isinstance(args[0], SymList) or not isinstance(args[0].tmpl, Rec):
        raise Outside("dict.fromkeys other than of one symbolic-length list of records", node)
    src = args[0]
    if src.tmpl.cls not in ("LatticeMaze", "TargetedLatticeMaze", "SolvedMaze"):
        raise Outside("dict.fromkeys of records that are not mazes", node)
    _trust("dict.fromkeys(xs) keeps the first of every class of ==-equal keys, in insertion order (== of mazes: LatticeMaze.__eq__ = maze_equal, C09; equal mazes hash equal: lemma hash_consistent)")
    n = to_z3(as_int(src.length))
    k, j = z3.Int(V.fresh_name("fk")), z3.Int(V.fresh_name("fj"))
    eq = SP.sp_maze_equal(interp, st, [src.get(j), src.get(k)], {}, node)
    keep = z3.Lambda([k], z3.And(k >= 0, k < n, z3.Not(z3.Exists([j], z3.And(j >= 0, j < k, to_z3(eq))))))
    return FiltList(src, keep)


def rows_to_grid(interp, st, rows, node, oblige=True):
    """np.array(list of k-vectors) as a proper (n, k) array: only right when the list is not empty (an obligation here)"""
    M = _M()
    lst = rows.src
    if not isinstance(lst, SymList):
        raise Outside("rows array over something other than a symbolic list", node)
    n = lst.length
    if oblige:
        interp.ctx.oblige(st, to_z3(as_int(n)) > 0, f"rows-nonempty@{getattr(node, 'lineno', '?')}", node, "shape")
    kq = z3.Int(V.fresh_name("rq"))
    ek = lst.get(kq)
    ak = ek if isinstance(ek, Arr) else Arr.from_nested(list(ek))

    def fn(ix):
        row = [z3.substitute(to_z3(v), (kq, ix[0])) for v in ak.flat]
        out = row[-1]
        for c in range(len(row) - 2, -1, -1):
            out = z3.If(ix[1] == c, row[c], out)
        return out

    return M.grid_lambda([n, rows.width], ak.kind, fn)


def m_str_startswith(interp, st, base, base_node, args, kwargs, node):
    """s.startswith(prefix) / s.endswith(suffix) on (symbolic) strings"""
    if kwargs or len(args) != 1:
        raise Outside("startswith / endswith with start / end arguments", node)
    which = getattr(node.func, "attr", "startswith") if isinstance(node, ast.Call) and isinstance(node.func, ast.Attribute) else "startswith"
    a = z3.StringVal(base) if isinstance(base, str) else base
    b = z3.StringVal(args[0]) if isinstance(args[0], str) else args[0]
    if not (is_sym(a) and is_sym(b) and a.sort() == z3.StringSort() and b.sort() == z3.StringSort()):
        raise Outside("startswith on non-strings", node)
    if isinstance(base, str) and isinstance(args[0], str):
        return base.startswith(args[0]) if which == "startswith" else base.endswith(args[0])
    return z3.PrefixOf(b, a) if which == "startswith" else z3.SuffixOf(b, a)


METHODS[("scalar", "startswith")] = m_str_startswith
METHODS[("scalar", "endswith")] = m_str_startswith
