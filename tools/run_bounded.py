"""Run one bounded stand-in module on its own:  tools/run_bounded.sh C13 quick [seed]"""
import importlib, json, sys, time
sys.path.insert(0, "/verif")
pid, tier = sys.argv[1], (sys.argv[2] if len(sys.argv) > 2 else "quick")
seed = int(sys.argv[3]) if len(sys.argv) > 3 else 0
mod = importlib.import_module(f"bounded.{pid}")
t0 = time.time()
results = mod.run(tier, seed)
for r in results:
    print(f"[{r.name}] evaluations={r.evaluations} distinct_nontrivial={len(r.distinct)} exhaustive={r.exhaustive} seconds={r.seconds:.1f} failures={len(r.failures)} errors={len(r.errors)}")
    print("   rule:", r.rule[:300])
    for f in r.failures[:8]:
        print("   FAIL", f["key"], "|", str(f["what"])[:300])
    for e in r.errors[:3]:
        print("   ERROR", e[:1500])
print(f"total {time.time()-t0:.1f}s")
