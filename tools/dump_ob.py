import sys, importlib
sys.path.insert(0, "/verif")
from pyvc.contracts import REGISTRY
from pyvc import spec
from pyvc.repo import Repo
from pyvc.driver import verify_contract
REGISTRY.spec_functions.update(spec.SPEC_FUNCTIONS)
importlib.import_module(sys.argv[1])
q, pat, out = sys.argv[2], sys.argv[3], sys.argv[4]
c = [c for c in REGISTRY.contracts.values() if c.qualname == q][0]
rep = verify_contract(REGISTRY, Repo(), c)
print(rep.status, rep.reason)
for ob in rep.obligations:
    if pat in ob.label:
        open(out, "w").write(ob.smt2()); print("wrote", ob.label, len(ob.smt2())); break
