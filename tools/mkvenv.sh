#!/bin/sh
# Build the overlay venv /verif/.venv312 (python 3.12 = /venv's interpreter, sees /venv's
# site-packages through a .pth, plus z3-solver / crosshair / deal / icontract / jsonschema from the
# offline wheelhouse).  Idempotent; safe to call from every check.
set -e
V="$(dirname "$0")/../.venv312"
V="$(cd "$(dirname "$0")/.." && pwd)/.venv312"
if [ -x "$V/bin/python" ] && [ -f "$V/.ok" ]; then
  exit 0
fi
LOCK="$V.lock"
exec 9>"$LOCK"
flock 9
if [ -x "$V/bin/python" ] && "$V/bin/python" -c "import z3, cvc5, numpy, jsonschema, maze_dataset" >/dev/null 2>&1; then
  exit 0
fi
rm -rf "$V"
/venv/bin/python -m venv "$V"
PIP_NO_INDEX=1 "$V/bin/python" -m pip install -q --no-index --find-links /opt/veriftools/wheels \
   z3-solver cvc5 crosshair-tool deal icontract jsonschema >/dev/null 2>&1 || \
PIP_NO_INDEX=1 "$V/bin/python" -m pip install -q --no-index --find-links /opt/veriftools/wheels \
   z3-solver cvc5 jsonschema
SP=$("$V/bin/python" -c "import sysconfig;print(sysconfig.get_paths()['purelib'])")
echo "import site; site.addsitedir('/venv/lib/python3.12/site-packages')" > "$SP/zz_overlay.pth"
"$V/bin/python" -c "import z3, cvc5, numpy, jsonschema, maze_dataset; print('overlay venv ok', z3.get_version_string(), numpy.__version__)" && touch "$V/.ok"
