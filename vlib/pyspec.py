"""Independent executable specification of the lattice graph (concrete; used by bounded stand-ins).
Written from the documented representation: conn[0,i,j] joins (i,j)-(i+1,j); conn[1,i,j] joins (i,j)-(i,j+1)."""
from __future__ import annotations

import itertools
from collections import deque

import numpy as np


def in_grid(shape, c):
    return 0 <= c[0] < shape[0] and 0 <= c[1] < shape[1]


def edge(conn, a, b):
    R, C = conn.shape[1:]
    if not (in_grid((R, C), a) and in_grid((R, C), b)):
        return False
    if abs(a[0] - b[0]) + abs(a[1] - b[1]) != 1:
        return False
    d = 0 if a[0] != b[0] else 1
    return bool(conn[d, min(a[0], b[0]), min(a[1], b[1])])


def lattice_neighbors(shape, c):
    out = []
    for d in ((1, 0), (-1, 0), (0, 1), (0, -1)):
        n = (c[0] + d[0], c[1] + d[1])
        if in_grid(shape, n):
            out.append(n)
    return out


def neighbors(conn, c):
    return [n for n in lattice_neighbors(conn.shape[1:], c) if edge(conn, c, n)]


def cells(shape):
    return [(i, j) for i in range(shape[0]) for j in range(shape[1])]


def bfs_dist(conn, s):
    dist = {s: 0}
    q = deque([s])
    while q:
        u = q.popleft()
        for v in neighbors(conn, u):
            if v not in dist:
                dist[v] = dist[u] + 1
                q.append(v)
    return dist


def component(conn, s):
    return set(bfs_dist(conn, s))


def is_connected(conn):
    shape = conn.shape[1:]
    return len(component(conn, (0, 0))) == shape[0] * shape[1]


def edge_set(conn):
    """set of frozenset({a,b}) for every set bit that is a real lattice edge"""
    R, C = conn.shape[1:]
    out = set()
    for i in range(R):
        for j in range(C):
            if conn[0, i, j] and i + 1 < R:
                out.add(frozenset({(i, j), (i + 1, j)}))
            if conn[1, i, j] and j + 1 < C:
                out.add(frozenset({(i, j), (i, j + 1)}))
    return out


def lattice_edge_slots(R, C):
    return [(0, i, j) for i in range(R - 1) for j in range(C)] + [(1, i, j) for i in range(R) for j in range(C - 1)]


def all_conn_lists(R, C):
    """every well-formed connection list on an R x C grid"""
    slots = lattice_edge_slots(R, C)
    for bits in itertools.product((False, True), repeat=len(slots)):
        conn = np.zeros((2, R, C), dtype=np.bool_)
        for s, b in zip(slots, bits):
            conn[s] = b
        yield conn


def conn_from_index(R, C, idx):
    slots = lattice_edge_slots(R, C)
    conn = np.zeros((2, R, C), dtype=np.bool_)
    for k, s in enumerate(slots):
        conn[s] = bool((idx >> k) & 1)
    return conn


def random_conn(rng, R, C, p=0.5):
    conn = rng.random((2, R, C)) < p
    conn[0, -1, :] = False
    conn[1, :, -1] = False
    return conn


def wf(conn):
    return conn.ndim == 3 and conn.shape[0] == 2 and conn.dtype == np.bool_ and not conn[0, -1, :].any() and not conn[1, :, -1].any()


def is_spanning_tree(conn):
    R, C = conn.shape[1:]
    return wf(conn) and is_connected(conn) and int(conn.sum()) == R * C - 1


def all_shortest_paths(conn, s, e):
    dist = bfs_dist(conn, s)
    if e not in dist:
        return []
    out = []

    def rec(path):
        u = path[-1]
        if u == s:
            out.append(path[::-1])
            return
        for v in neighbors(conn, u):
            if dist.get(v, -1) == dist[u] - 1:
                rec(path + [v])

    rec([e])
    return out
