"""C12 - generation metadata tells the truth about reachability."""
ID = "C12"
LEVEL = "proof"
LEVEL_TEXT = (
    "Unbounded proof on the same generator contracts as C01: gen_dfs/gen_prim record exactly the cells reachable from the recorded "
    "start cell (both inclusions: reach closure + monotonicity for <=, least-fixed-point induction for >=), set fully_connected exactly when "
    "all r*c cells were visited, which implies every cell is reachable; the connections form a tree over the visited cells (|E| = |V|-1, every "
    "edge joins visited cells) with at most the requested number of cells; percolation generators record the component computed by "
    "gen_connected_component_from (itself proved against reach); dfs_percolation keeps a true flag true because edges are only added. "
    "The last sentence of the property is proved too: get_connected_component returns distinct in-grid cells that are mutually reachable for every maze whose metadata has one of the shapes the "
    "generators produce and tells the truth in the sense above (what the generator contracts establish), and generate_random_path - plain or with any combination of allowed_start / allowed_end / "
    "deadend / endpoints_not_equal options - only hands pairs of such cells to the solver, whose contract then gives a connected shortest path (a pair outside the component fails the solver's "
    "reach precondition). The single-corridor clause (do_forks=False) is decided by the bounded stand-in only."
)
LEVEL_NOTE = (
    "Trusted: pyvc encoding; RNG library contracts (value ranges only); lemmas about reachability as a least fixed point "
    "(reach_induction, reach_mono, reach_trans, reach_sym), L3 (the lattice is connected), L4 (counting); acyclicity follows from "
    "connected + |E| = |V|-1 (textbook, not machine-checked); termination not proved (Wilson's walk terminates only almost surely)."
)
TECHNIQUE = "contract-based deductive verification: loop invariants + callee contracts over the real AST, z3; bounded enumeration of all RNG scripts as stand-in"
CONTRACT_MODULES = ["contracts.lattice_maze", "contracts.generators", "contracts.solver", "contracts.paths"]
G = "maze_dataset/generation/generators.py"
LM = "maze_dataset/maze/lattice_maze.py"
PROVE = [
    (G, "_random_start_coord"),
    (G, "get_neighbors_in_bounds"),
    (LM, "_fill_edges_with_walls"),
    (G, "LatticeMazeGenerators.gen_dfs"),
    (G, "LatticeMazeGenerators.gen_prim"),
    (G, "LatticeMazeGenerators.gen_wilson"),
    (G, "LatticeMazeGenerators.gen_percolation"),
    (G, "LatticeMazeGenerators.gen_dfs_percolation"),
    (LM, "LatticeMaze.nodes_connected"),
    (LM, "LatticeMaze.get_coord_neighbors"),
    (LM, "LatticeMaze.gen_connected_component_from"),
    (LM, "LatticeMaze.get_nodes"),
    (LM, "LatticeMaze.get_connected_component"),
    (LM, "LatticeMaze.generate_random_path"),
]
ASSUMPTIONS = [
    "grid_shape is passed as an ndarray of two ints >= 1 (MazeDatasetConfig.grid_shape_np does; gen_wilson rejects a tuple)",
    "lattice_dim == 2",
    "0 <= p <= 1; float accessible_cells / max_tree_depth <= 1 (the generators assert this)",
]
EXPLANATION = "see DESIGN.md C12"


def run(run):
    from props._std import run_bounded, run_lean

    run.prove(PROVE)
    run_lean(run)
    run_bounded(run, "C12")
