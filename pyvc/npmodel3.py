"""Library models, part 3: name resolution, attributes, calls (contracts / inlining), builtins, numpy."""
from __future__ import annotations

import ast
import itertools

import z3

from . import values as V
from .values import (
    Arr,
    CDict,
    CSet,
    GList,
    Grid,
    Outside,
    Rec,
    SymList,
    as_int,
    b_and,
    b_implies,
    b_not,
    b_or,
    is_scalar,
    is_sym,
    ite,
    merge,
    to_z3,
)


def _M():
    from . import npmodel

    return npmodel


def _I():
    from . import interp

    return interp


LIB_MODULES = {
    "numpy": "np",
    "random": "random",
    "warnings": "warnings",
    "itertools": "itertools",
    "copy": "copy",
    "typing": "typing",
    "json": "json",
    "multiprocessing": "multiprocessing",
    "functools": "functools",
    "math": "math",
    "torch": "torch",
    "tqdm": "tqdm",
    "re": "re",
}

BUILTIN_EXCS = set(_I().EXC_HIERARCHY) if False else None


# ----------------------------------------------------------------------------- global names
def resolve_global(interp, mod, name, node=None):
    I = _I()
    if mod is None:
        return resolve_builtin(interp, name, node)
    if name in mod._global_cache:
        return mod._global_cache[name]
    n = mod.toplevel(name)
    if n is None:
        return resolve_builtin(interp, name, node)
    if isinstance(n, ast.FunctionDef):
        v = I.RepoFunc(mod, n, None, n.name)
    elif isinstance(n, ast.ClassDef):
        v = I.ClassRef(mod, n)
    elif isinstance(n, (ast.Assign, ast.AnnAssign)) and _is_dyn_dataclass_instance(interp, mod, n.value) is not None:
        v = _is_dyn_dataclass_instance(interp, mod, n.value)
    elif isinstance(n, (ast.Assign, ast.AnnAssign)):
        st0 = I.State(mod=mod)
        v = interp.ev(n.value, st0)
        if st0.pc or st0.excs:
            raise Outside(f"module constant {name} is not a plain value", node)
    elif isinstance(n, ast.Import):
        v = None
        for a in n.names:
            if (a.asname or a.name.split(".")[0]) == name:
                top = a.name.split(".")[0]
                v = I.ModuleRef(LIB_MODULES.get(top, top) if a.asname or "." not in a.name else top)
    elif isinstance(n, ast.ImportFrom):
        v = None
        for a in n.names:
            if (a.asname or a.name) == name:
                src = n.module or ""
                if n.level:
                    base = mod.relpath.rsplit("/", n.level)[0].replace("/", ".")
                    src = base + ("." + src if src else "")
                target = interp.ctx.repo.module_by_dotted(src)
                if target is not None:
                    sub = interp.ctx.repo.module_by_dotted(src + "." + a.name)
                    if target.toplevel(a.name) is None and sub is not None:
                        v = I.ModuleRef(src + "." + a.name)
                    else:
                        v = resolve_global(interp, target, a.name, node)
                else:
                    v = I.ModuleRef(f"{LIB_MODULES.get(src.split('.')[0], src)}.{a.name}" if src.split(".")[0] in LIB_MODULES else f"{src}.{a.name}")
    else:
        raise Outside(f"global {name} bound by {type(n).__name__}", node)
    mod._global_cache[name] = v
    return v


class DynInstance:
    """instance of a class built by dataclasses.make_dataclass(name, fields=<list literal>, bases=(B,)) with all defaults:
    attribute values are read from the field list's AST (entries written as literal tuples) and from the base class"""

    def __init__(self, mod, fields_node, bases):
        self.mod = mod
        self.fields_node = fields_node
        self.bases = bases

    def leaves(self):
        return []

    def rebuild(self, leaves):
        return self

    def sig(self):
        return ("DynInstance",)


def _is_dyn_dataclass_instance(interp, mod, value):
    I = _I()
    if not (isinstance(value, ast.Call) and isinstance(value.func, ast.Name) and not value.args and not value.keywords):
        return None
    cn = mod.toplevel(value.func.id)
    if not isinstance(cn, (ast.Assign, ast.AnnAssign)):
        return None
    mk = cn.value
    if not (isinstance(mk, ast.Call) and _deco_name(mk.func) == "make_dataclass"):
        return None
    fields = None
    bases = []
    for kw in mk.keywords:
        if kw.arg == "fields" and isinstance(kw.value, ast.Name):
            fn = mod.toplevel(kw.value.id)
            if isinstance(fn, (ast.Assign, ast.AnnAssign)) and isinstance(fn.value, ast.List):
                fields = fn.value
        if kw.arg == "bases" and isinstance(kw.value, ast.Tuple):
            for b in kw.value.elts:
                if isinstance(b, ast.Name):
                    bv = resolve_global(interp, mod, b.id)
                    if isinstance(bv, I.ClassRef):
                        bases.append(bv)
    if fields is None:
        return None
    return DynInstance(mod, fields, bases)


def dyn_getattr(interp, st, inst, attr, node):
    I = _I()
    for e in inst.fields_node.elts:
        if isinstance(e, ast.Tuple) and len(e.elts) == 3 and isinstance(e.elts[0], ast.Constant) and e.elts[0].value == attr:
            f = e.elts[2]
            if isinstance(f, ast.Call):
                for kw in f.keywords:
                    if kw.arg == "default":
                        return interp.ev(kw.value, I.State(mod=inst.mod))
    for b in inst.bases:
        r = class_attr(interp, b, attr)
        if isinstance(r, tuple) and r[0] == "const":
            return r[1]
    raise Outside(f"attribute {attr} of a make_dataclass instance (not a literal entry of the field list)", node)


def resolve_builtin(interp, name, node=None):
    I = _I()
    if name in BUILTINS:
        return I.Native(name, BUILTINS[name])
    if name in I.EXC_HIERARCHY:
        return I.ExcType(name)
    if name in ("True", "False", "None"):
        return {"True": True, "False": False, "None": None}[name]
    if name in interp.ctx.registry.spec_functions:
        return I.Native(name, interp.ctx.registry.spec_functions[name])
    raise Outside(f"unbound name {name}", node)


# ----------------------------------------------------------------------------- classes
def class_mro(interp, cref):
    """list of ClassRef following base names inside the repository"""
    I = _I()
    out = [cref]
    for b in cref.node.bases:
        bname = b.id if isinstance(b, ast.Name) else (b.attr if isinstance(b, ast.Attribute) else None)
        if bname is None:
            continue
        try:
            bv = resolve_global(interp, cref.mod, bname)
        except Outside:
            # a base class defined inside a namespace class of the same module (PromptSequencers._PromptSequencer): found by name when unique
            cands = [n_ for n_ in ast.walk(cref.mod.tree) if isinstance(n_, ast.ClassDef) and n_.name == bname]
            if len(cands) != 1:
                continue
            bv = I.ClassRef(cref.mod, cands[0])
        if isinstance(bv, I.ClassRef):
            for c in class_mro(interp, bv):
                if all(c.name != o.name for o in out):
                    out.append(c)
    return out


def find_class(interp, cls_name, st=None):
    """ClassRef for a class name, searching the current module then the registry's class table"""
    I = _I()
    reg = interp.ctx.registry
    if cls_name in reg.class_files:
        mod = interp.ctx.repo.module(reg.class_files[cls_name])
        n = mod.toplevel(cls_name)
        if isinstance(n, ast.ClassDef):
            return I.ClassRef(mod, n)
        # nested class: search
        for top in ast.walk(mod.tree):
            if isinstance(top, ast.ClassDef) and top.name == cls_name:
                return I.ClassRef(mod, top)
    if st is not None and st.mod is not None:
        try:
            v = resolve_global(interp, st.mod, cls_name)
            if isinstance(v, I.ClassRef):
                return v
        except Outside:
            pass
    return None


def class_attr(interp, cref, name):
    """look a name up in the class body (following bases); returns a value or None"""
    I = _I()
    for c in class_mro(interp, cref):
        found = None
        for n in c.node.body:
            if isinstance(n, ast.FunctionDef) and n.name == name:
                found = n
            elif isinstance(n, ast.Assign) and any(isinstance(t, ast.Name) and t.id == name for t in n.targets):
                found = n
            elif isinstance(n, ast.AnnAssign) and isinstance(n.target, ast.Name) and n.target.id == name and n.value is not None:
                found = n
            elif isinstance(n, ast.ClassDef) and n.name == name:
                found = n
        if found is None:
            continue
        if isinstance(found, ast.ClassDef):
            return I.ClassRef(c.mod, found)
        if isinstance(found, ast.FunctionDef):
            decos = [_deco_name(d) for d in found.decorator_list]
            return I.RepoFunc(
                c.mod,
                found,
                c.node,
                f"{c.name}.{found.name}",
                static="staticmethod" in decos,
                classmethod_="classmethod" in decos,
                is_property="property" in decos or "cached_property" in decos,
            ), decos
        # assignment: property(lambda self: ...) or a plain constant
        val = found.value
        if isinstance(val, ast.Call) and isinstance(val.func, ast.Name) and val.func.id == "property" and val.args and isinstance(val.args[0], ast.Lambda):
            return ("property-lambda", val.args[0], c)
        if isinstance(val, ast.Call) and _deco_name(val.func) in ("serializable_field", "field"):
            for kw in val.keywords:
                if kw.arg == "default":
                    st0 = I.State(mod=c.mod)
                    return ("const", interp.ev(kw.value, st0))
            return None
        st0 = I.State(mod=c.mod)
        return ("const", interp.ev(val, st0))
    return None


def _deco_name(d):
    if isinstance(d, ast.Name):
        return d.id
    if isinstance(d, ast.Attribute):
        return d.attr
    if isinstance(d, ast.Call):
        return _deco_name(d.func)
    return None


def find_method(interp, cls_name, name, st=None):
    I = _I()
    cref = find_class(interp, cls_name, st)
    if cref is None:
        return None
    r = class_attr(interp, cref, name)
    if isinstance(r, tuple) and isinstance(r[0], I.RepoFunc):
        return r[0]
    return None


def is_subclass_name(interp, cls_name, base_name, st=None):
    if cls_name == base_name:
        return True
    cref = find_class(interp, cls_name, st)
    if cref is None:
        return False
    return any(c.name == base_name for c in class_mro(interp, cref))


# ----------------------------------------------------------------------------- attributes
def getattr_value(interp, st, base, attr, node=None):
    I = _I()
    M = _M()
    base = _resolve_lazy(interp, base)
    if isinstance(base, I.ModuleRef):
        full = f"{base.name}.{attr}"
        if full in LIBFUNCS:
            return I.Native(full, LIBFUNCS[full])
        if full in LIBCONSTS:
            return LIBCONSTS[full]
        mod = interp.ctx.repo.module_by_dotted(base.name)
        if mod is not None:
            return resolve_global(interp, mod, attr, node)
        return I.ModuleRef(full)
    if isinstance(base, Rec):
        if attr in base.fields:
            return base.fields[attr]
        if attr == "__class__":
            return find_class(interp, base.cls, st) or I.Opaque("class")
        if attr == "__dict__":
            return RecDictView(base, node.value if node is not None else None)
        cref = find_class(interp, base.cls, st)
        if cref is None:
            raise Outside(f"attribute {attr} of record {base.cls} (class not found)", node)
        r = class_attr(interp, cref, attr)
        if r is None:
            raise Outside(f"attribute {attr} of {base.cls}", node)
        if isinstance(r, tuple) and r[0] == "property-lambda":
            lam, c = r[1], r[2]
            clo = I.Closure(lam, {}, c.mod, c.node)
            return call_closure(interp, st, clo, [base], {}, node)
        if isinstance(r, tuple) and r[0] == "const":
            return r[1]
        if isinstance(r, I.ClassRef):
            return r
        f, decos = r
        if f.is_property:
            return call_function(interp, st, f, [base], {}, node)
        if f.static:
            return f
        if f.classmethod_:
            return I.BoundMethod(cref, f)
        return I.BoundMethod(base, f, node.value if node is not None else None)
    if isinstance(base, I.Native) and base.name == "dict" and attr == "fromkeys":
        from .npmodel4 import dict_fromkeys

        return I.Native("dict.fromkeys", dict_fromkeys)
    if isinstance(base, I.ObjMethod):
        base = base.value
    if I.is_obj(base):
        return I.ObjMethod(base, attr)
    if isinstance(base, I.SuperRef):
        r = class_attr(interp, base.base, attr) if base.base is not None else None
        if isinstance(r, tuple) and isinstance(r[0], I.RepoFunc):
            return I.BoundMethod(base.self_val, r[0], ast.Name(id="self", ctx=ast.Load()))
        if attr == "__init__":
            if any(isinstance(n_, ast.AnnAssign) for c in class_mro(interp, base.base) for n_ in c.node.body):
                return I.Native("super().__init__", lambda interp_, st_, a, kw, nd: super_dataclass_init(interp_, st_, base, a, kw, nd))
            return I.Opaque("super().__init__")
        raise Outside(f"super().{attr}", node)
    if isinstance(base, DynInstance):
        return dyn_getattr(interp, st, base, attr, node)
    if isinstance(base, I.ClassRef):
        r = class_attr(interp, base, attr)
        if attr == "__name__":
            return base.name
        if attr == "__mro__":
            return tuple(class_mro(interp, base))
        if r is None and (base.name, attr) in interp.ctx.registry.assumed_methods:
            return I.Native(f"{base.name}.{attr}", interp.ctx.registry.assumed_methods[(base.name, attr)])
        if r is None:
            raise Outside(f"class attribute {base.name}.{attr}", node)
        if isinstance(r, tuple) and r[0] == "const":
            return r[1]
        if isinstance(r, I.ClassRef):
            return r
        if isinstance(r, tuple) and isinstance(r[0], I.RepoFunc):
            f = r[0]
            if f.classmethod_:
                return I.BoundMethod(base, f)
            return f
        raise Outside(f"class attribute {base.name}.{attr}", node)
    # value methods / numpy attributes
    if isinstance(base, Rows):
        if attr == "shape":
            return RowsShape(base)
    if isinstance(base, (Arr, Grid)):
        if attr == "shape":
            return tuple(base.shape) if isinstance(base, Arr) else tuple(base.dims)
        if attr == "ndim":
            return base.ndim if isinstance(base, Arr) else base.rank
        if attr == "T":
            return np_transpose(interp, st, [base], {}, node)
        if attr == "size":
            dims = base.shape if isinstance(base, Arr) else base.dims
            out = 1
            for d in dims:
                out = M.s_mul(out, d)
            return out
        if attr == "dtype":
            return I.Opaque("dtype")
    key = (type(base).__name__ if not is_sym(base) else "scalar", attr)
    if isinstance(base, (bool, int, float)) or is_sym(base):
        key = ("scalar", attr)
    if key in METHODS:
        return I.Native(f"{key[0]}.{attr}", _bind(METHODS[key], base, node.value if node is not None else None))
    if isinstance(base, I.Opaque):
        return I.Opaque(f"{base.what}.{attr}")
    if isinstance(base, I.RepoFunc) and attr == "__name__":
        return base.node.name
    if isinstance(base, (I.UPred, I.UFunc)) and attr == "__name__":
        return base.name_term
    if isinstance(base, I.ExcValue):
        return I.Opaque("exc-attr")
    raise Outside(f"attribute {attr} of {type(base).__name__}", node)


class RecDictView:
    """`obj.__dict__` used only as `obj.__dict__[name] = value` (frozen dataclass jank)"""

    def __init__(self, rec, node):
        self.rec = rec
        self.node = node


def setattr_value(interp, st, base, attr, v, node=None):
    if isinstance(base, Rec) and attr == "__dict__" and isinstance(v, RecDictView):
        return v.rec
    if isinstance(base, Rec):
        return base.with_field(attr, v)
    raise Outside(f"attribute store on {type(base).__name__}", node)


def _bind(fn, base, base_node):
    def bound(interp, st, args, kwargs, node):
        return fn(interp, st, base, base_node, args, kwargs, node)

    return bound


# ----------------------------------------------------------------------------- calls
_ALT_ENVS = {"old": "__pre__", "entry": "__entry__", "prev": "__prev__", "final": "__final__"}


def call(interp, st, node):
    I = _I()
    # evaluate callee
    fnode = node.func
    if isinstance(fnode, ast.Name) and fnode.id in _ALT_ENVS and interp.ctx.options.get("spec_mode"):
        alt = st.env.get(_ALT_ENVS[fnode.id])
        if alt is None:
            raise Outside(f"{fnode.id}() used where no such state exists", node)
        sub = I.State(dict(alt), st.pc, st.guards, st.mod, st.cls)
        for k in ("__pre__", "__entry__", "__prev__", "__final__", "__axioms__"):
            if k in st.env:
                sub.env.setdefault(k, st.env[k])
        v = interp.ev(node.args[0], sub)
        if "__axioms__" in sub.env:
            st.env["__axioms__"] = sub.env["__axioms__"]
        return v
    self_node = None
    if isinstance(fnode, ast.Attribute):
        basev = interp.ev(fnode.value, st)
        # obj.__dict__["x"] = ... is handled in assign; method call on a value:
        f = getattr_value(interp, st, basev, fnode.attr, fnode)
        self_node = fnode.value
    else:
        f = interp.ev(fnode, st)
    args = []
    for a in node.args:
        if isinstance(a, ast.Starred):
            v = interp.ev(a.value, st)
            if is_sym(v) and v.sort() == I.OBJ_SORT:
                args.append(v)  # *args of an opaque argument tuple: passed on as one opaque value (only unknown callables accept it)
                continue
            items = interp.lib.iter_values(interp, st, v, a)
            if not isinstance(items, list):
                if isinstance(items, SymList) and len(node.args) == 1 and not node.keywords and isinstance(f, I.Native) and f.name == "zip":
                    # zip(*rows) over a symbolic-length list of fixed-width rows: the transposition
                    from .npmodel4 import zip_star
                    return zip_star(interp, st, items, node)
                raise Outside("star-args of symbolic length", node)
            args.extend(items)
        else:
            args.append(interp.ev(a, st))
    kwargs = {}
    for kw in node.keywords:
        if kw.arg is None:
            v = interp.ev(kw.value, st)
            if is_sym(v) and v.sort() == I.OBJ_SORT:
                kwargs["**"] = v
                continue
            if not isinstance(v, dict):
                raise Outside("** of non-dict", node)
            kwargs.update(v)
        else:
            kwargs[kw.arg] = interp.ev(kw.value, st)
    return call_value(interp, st, f, args, kwargs, node, self_node)


def _resolve_lazy(interp, v):
    from .tys import LazyClass

    if isinstance(v, LazyClass):
        I = _I()
        mod = interp.ctx.repo.module(v.file)
        n = mod.toplevel(v.name)
        if not isinstance(n, ast.ClassDef):
            raise Outside(f"class {v.name} not found in {v.file}")
        return I.ClassRef(mod, n)
    return v


def call_value(interp, st, f, args, kwargs, node, self_node=None):
    I = _I()
    f = _resolve_lazy(interp, f)
    if isinstance(f, I.Native):
        return f.fn(interp, st, args, kwargs, node)
    if isinstance(f, I.BoundMethod):
        res = call_function(interp, st, f.func, [f.self_val] + args, kwargs, node, self_node=f.self_node)
        return res
    if isinstance(f, I.RepoFunc):
        return call_function(interp, st, f, args, kwargs, node)
    if isinstance(f, I.Closure):
        return call_closure(interp, st, f, args, kwargs, node)
    if isinstance(f, I.ClassRef):
        return construct(interp, st, f, args, kwargs, node)
    if isinstance(f, I.ExcType):
        return I.ExcValue(f.name)
    if isinstance(f, I.ModuleRef):
        if f.name in LIBFUNCS:
            return LIBFUNCS[f.name](interp, st, args, kwargs, node)
        raise Outside(f"call of unmodelled library function {f.name}", node)
    if isinstance(f, I.ObjMethod):
        return call_obj_method(interp, st, f, args, kwargs, node)
    if isinstance(f, I.UPred):
        return f.call(args, kwargs)
    if isinstance(f, I.UFunc):
        return f.call(st, args, kwargs)
    if isinstance(f, I.Opaque) and f.what == "super().__init__":
        from .npmodel4 import _trust

        _trust("super().__init__() of a dataset class (GPTDataset / torch Dataset define no __init__) has no effect")
        return None
    if isinstance(f, I.Opaque):
        if f.what in LIBFUNCS:
            # a method of a library object we do not look into (e.g. np.random.Generator.permuted) with a library contract of its own
            return LIBFUNCS[f.what](interp, st, args, kwargs, node)
        raise Outside(f"call of opaque {f.what}", node)
    raise Outside(f"call of {type(f).__name__}", node)


def _flat_obj_args(args, kwargs):
    flat = []
    for a in list(args) + [kwargs[k] for k in sorted(kwargs)]:
        for l in V.leaves_of(a):
            if l is None:
                continue
            flat.append(z3.StringVal(l) if isinstance(l, str) else to_z3(l))
    return flat


def call_obj_method(interp, st, f, args, kwargs, node):
    """a method of an opaque object (a path, a cache file handle, a dataset class, a config ...): the CONTRACT under verification says which
    of them may raise what (`ext_raises`), which return a bool (`ext_bool`) and which calls are recorded as events (`ext_events`);
    the result is an unknown function of receiver and arguments"""
    I = _I()
    cur = getattr(interp.ctx, "current_contract", None)
    raises = getattr(cur, "ext_raises", {}).get(f.attr, []) if cur is not None else []
    ln = getattr(node, "lineno", "?")
    for exc in raises:
        est = st.copy()
        est.excs = []
        est.guards = []
        est.pc.extend(to_z3(g) for g in st.guards)
        est.trace.append(f"{f.attr}-raises:{exc}@{ln}")
        st.excs.append((exc, est))
    flat = _flat_obj_args(args, kwargs)
    is_bool = cur is not None and f.attr in getattr(cur, "ext_bool", ())
    fn = z3.Function(f"ext.{f.attr}!{len(flat)}!" + "_".join(str(x.sort()).replace(" ", "") for x in flat)[:160],
                     *([I.OBJ_SORT] + [x.sort() for x in flat] + [z3.BoolSort() if is_bool else I.OBJ_SORT]))
    res = fn(f.base, *flat)
    if cur is not None and f.attr in getattr(cur, "ext_events", ()) and not interp.ctx.options.get("spec_mode"):
        ev = list(st.env.get("__events__", []))
        ev.append((f.attr, f.base, tuple(args), dict(kwargs), res))
        st.env["__events__"] = ev
    return res


def bind_params(interp, st, fnode, args, kwargs, mod, cls, node):
    """python parameter binding -> env dict"""
    I = _I()
    a = fnode.args
    env = {}
    pos = list(a.posonlyargs) + list(a.args)
    if len(args) > len(pos) and a.vararg is None:
        raise Outside("too many positional arguments", node)
    for p, v in zip(pos, args):
        env[p.arg] = v
    if a.vararg is not None:
        env[a.vararg.arg] = tuple(args[len(pos) :])
    kwargs = dict(kwargs)
    for p in pos[len(args) :] + list(a.kwonlyargs):
        if p.arg in kwargs:
            env[p.arg] = kwargs.pop(p.arg)
    # defaults
    defaults = dict(zip([p.arg for p in pos[len(pos) - len(a.defaults) :]], a.defaults))
    for p, d in zip(a.kwonlyargs, a.kw_defaults):
        if d is not None:
            defaults[p.arg] = d
    dst = I.State(mod=mod, cls=cls)
    for p in pos + list(a.kwonlyargs):
        if p.arg not in env:
            if p.arg in defaults:
                env[p.arg] = interp.ev(defaults[p.arg], dst)
            else:
                raise Outside(f"missing argument {p.arg}", node)
    if a.kwarg is not None:
        env[a.kwarg.arg] = kwargs
    elif kwargs:
        raise Outside(f"unexpected keyword arguments {list(kwargs)}", node)
    return env


def call_closure(interp, st, clo, args, kwargs, node):
    I = _I()
    fnode = clo.node
    env = dict(clo.env)
    env.update(bind_params(interp, st, fnode, args, kwargs, clo.mod, clo.cls, node))
    if isinstance(fnode, ast.Lambda):
        sub = I.State(env, st.pc, st.guards, clo.mod, clo.cls)
        sub.excs = st.excs
        sub.binders = st.binders  # a lambda evaluated under a binder (filter / map / comprehension) stays under it
        v = interp.ev(fnode.body, sub)
        return v
    return inline_body(interp, st, fnode, env, clo.mod, clo.cls, node)


def inline_body(interp, st, fnode, env, mod, cls, node):
    """execute a function body in place; all normal returns are merged into one value"""
    I = _I()
    if interp.ctx.inline_depth > 6:
        raise Outside("inlining too deep", node)
    sub = I.State(env, list(st.pc), [], mod, cls)
    if st.guards:
        sub.pc.extend(to_z3(g) for g in st.guards)
    sub.binders = list(getattr(st, "binders", []))
    sub.trace = list(st.trace)
    interp.ctx.inline_depth += 1
    try:
        outs = interp.exec_block(fnode.body, sub)
    finally:
        interp.ctx.inline_depth -= 1
    rets = []
    for o in outs:
        if o.kind == "raise":
            st.excs.append((o.exc, o.st))
        elif o.kind in ("return", "normal"):
            rets.append(o)
        else:
            raise Outside("break/continue escaping inlined function", node)
    if not rets:
        # every path raises: the continuation is dead
        st.assume(False)
        return None
    if len(rets) == 1:
        o = rets[0]
        # adopt facts learned inside (path condition beyond the caller's)
        n0 = len(st.pc) + len(st.guards)
        for f in o.st.pc[n0:]:
            st.assume(f)
        if "self" in o.st.env:
            st.env["__inline_self__"] = o.st.env["self"]
        return o.value
    # several returns: build a disjunction of path facts, merge values pairwise
    n0 = len(st.pc) + len(st.guards)
    conds = [b_and(*o.st.pc[n0:]) if o.st.pc[n0:] else True for o in rets]
    val = rets[-1].value
    for k in range(len(rets) - 2, -1, -1):
        val = merge(to_z3(conds[k]), rets[k].value, val)
    st.assume(b_or(*conds))
    if all("self" in o.st.env for o in rets):
        sv = rets[-1].st.env["self"]
        for k in range(len(rets) - 2, -1, -1):
            sv = merge(to_z3(conds[k]), rets[k].st.env["self"], sv)
        st.env["__inline_self__"] = sv
    return val


def call_function(interp, st, f, args, kwargs, node, self_node=None):
    """call of a repository function: through its contract when it has one, else inlined"""
    reg = interp.ctx.registry
    con = reg.contract_for(f)
    if con is not None and not con.inline and not reg.is_current(interp.ctx, f):
        return con.apply_at_call(interp, st, f, args, kwargs, node, self_node)
    if con is None and not reg.may_inline(f):
        raise Outside(f"call of {f.qualname} which has no contract and is not inlinable", node)
    env = bind_params(interp, st, f.node, args, kwargs, f.mod, f.cls, node)
    self_before = env.get("self")
    res = inline_body(interp, st, f.node, env, f.mod, f.cls, node)
    self_after = st.env.pop("__inline_self__", None)
    if self_node is not None and isinstance(self_before, Rec) and self_after is not None and self_after is not self_before:
        # the inlined method assigned attributes of self: the caller's object is that updated value
        interp.assign(self_node, self_after, st)
    return res


def construct(interp, st, cref, args, kwargs, node):
    """instantiate a repository class"""
    I = _I()
    reg = interp.ctx.registry
    init = None
    r = class_attr(interp, cref, "__init__")
    if isinstance(r, tuple) and isinstance(r[0], I.RepoFunc):
        init = r[0]
    if init is not None:
        con = reg.contract_for(init)
        if reg.may_inline(init):
            # the real __init__ body is executed on a fresh record (no assumed contract needed)
            obj = Rec(cref.name, {})
            env = bind_params(interp, st, init.node, [obj] + args, kwargs, init.mod, init.cls, node)
            inline_body(interp, st, init.node, env, init.mod, init.cls, node)
            out = st.env.pop("__inline_self__", None)
            if out is None:
                raise Outside(f"constructor {cref.name}.__init__ could not be inlined", node)
            return out
        if con is not None and not con.inline:
            return con.apply_at_call(interp, st, init, [cref] + args, kwargs, node, None, constructing=cref)
        raise Outside(f"constructor {cref.name}.__init__ without contract", node)
    # dataclass-style: fields from annotated class attributes along the MRO
    fields = {}
    order = []
    for c in reversed(class_mro(interp, cref)):
        for n in c.node.body:
            if isinstance(n, ast.AnnAssign) and isinstance(n.target, ast.Name):
                nm = n.target.id
                if nm not in order:
                    order.append(nm)
                fields[nm] = (n, c)
    if args:
        if len(args) > len(order):
            raise Outside("too many constructor arguments", node)
        for nm, v in zip(order, args):
            kwargs = dict(kwargs)
            kwargs[nm] = v
    vals = {}
    for nm in order:
        n, c = fields[nm]
        if nm in kwargs:
            vals[nm] = kwargs[nm]
        elif n.value is not None:
            r2 = class_attr(interp, cref, nm)
            if isinstance(r2, tuple) and r2[0] == "const":
                vals[nm] = r2[1]
            else:
                raise Outside(f"default of field {nm}", node)
        else:
            raise Outside(f"missing constructor argument {nm}", node)
    extra = set(kwargs) - set(order)
    if extra:
        raise Outside(f"unexpected constructor arguments {extra}", node)
    obj = Rec(cref.name, vals)
    post = find_method(interp, cref.name, "__post_init__", st)
    if post is not None:
        con = reg.contract_for(post)
        if con is not None and not con.inline and not reg.may_inline(post):
            res = con.apply_at_call(interp, st, post, [obj], {}, node, None, returns_self=True)
            return res
        env = bind_params(interp, st, post.node, [obj], {}, post.mod, post.cls, node)
        sub_env = env
        # run the body; __post_init__ mutates self through __dict__
        sub = I.State(sub_env, list(st.pc), [], post.mod, post.cls)
        outs = interp.exec_block(post.node.body, sub)
        normals = [o for o in outs if o.kind in ("normal", "return")]
        for o in outs:
            if o.kind == "raise":
                st.excs.append((o.exc, o.st))
        if len(normals) != 1:
            raise Outside("__post_init__ with several normal paths", node)
        n0 = len(st.pc)
        for f_ in normals[0].st.pc[n0:]:
            st.assume(f_)
        obj = normals[0].st.env["self"]
    return obj


from .npmodel4 import *  # noqa: E402,F401,F403
