"""Bounded stand-in for C01: every maze produced by the five real generators is a well-formed boolean connection
structure of the requested shape; gen_dfs / gen_prim (default arguments) and gen_wilson produce spanning trees;
percolation p=0 / p=1 produce no / all lattice edges; gen_dfs_percolation contains the dfs tree.

"All random executions" is made finite by a scripted random source (bounded/_rngscript.py): on small grids EVERY
decision script is visited (Wilson: up to a stated number of draws); larger grids get seeded runs whose decisions
are recorded, so every failure carries the exact script for replay().  Labelled bounded, never counted as proved."""
from __future__ import annotations

import time
import warnings

import numpy as np

from bounded import _rngscript as RS
from vlib import pyspec as S
from vlib.runner import BoundedResult

CHECKER = "C01"
TREE_NEUTRAL = {"start_coord", "_shape_as_array", "randomized_stack"}  # arguments that leave "default arguments" intact for the spanning-tree clause
PERC_NEUTRAL = {"start_coord", "_shape_as_array", "p"}


def _all_lattice_edges_set(conn):
    R, C = conn.shape[1:]
    return all(bool(conn[s]) for s in S.lattice_edge_slots(R, C))


def check_execution(part, ex, cache):
    gen, (R, C), kwargs = ex.gen, ex.shape, ex.kwargs
    inp = ex.input()
    kk = RS.kwargs_key(kwargs)
    if ex.cut:
        if ex.cut_total:  # hard cap on draws (never the enumeration budget): "always return a ..." needs a return
            part.seen((gen, ex.shape, kk, "no-return"), nontrivial=R * C >= 2)
            inp["script"] = inp["script"][:4096]  # enough to reproduce: replay continues a too-short script with seeded picks
            part.fail(f"C01:no-return:{gen}", f"{gen}({R}x{C}, {kwargs}) did not return within {len(ex.script)} random draws (cap = {RS.seeded_draw_cap(ex.shape)}, at least 40x what any run of the unchanged generators needed on 3x3..20x20 grids)", inp, f"{len(ex.script)} draws, last 8: {ex.script[-8:]}")
        return
    if ex.exc is not None:
        part.seen((gen, ex.shape, kk, "raised", type(ex.exc).__name__), nontrivial=R * C >= 2)
        part.fail(f"C01:raises:{gen}", f"{gen}({R}x{C}, {kwargs}) raised {type(ex.exc).__name__}: {str(ex.exc)[:200]} on accepted arguments", inp, repr(ex.exc)[:300])
        return
    conn = getattr(ex.maze, "connection_list", None)
    sample = None
    if not part.samples or (R * C >= 4 and len(part.samples) < 3):
        sample = {"generator": gen, "shape": [R, C], "kwargs": kwargs, "script": ex.script[:64], "connection_list": conn.astype(int).tolist() if isinstance(conn, np.ndarray) and conn.size <= 40 else None}
    part.seen((gen, ex.shape, kk, conn.tobytes() if isinstance(conn, np.ndarray) else repr(conn)), nontrivial=R * C >= 2, sample=sample)

    # ---- well-formed: bool ndarray (2,R,C), nothing leaves the grid
    if not isinstance(conn, np.ndarray) or conn.dtype != np.bool_ or conn.shape != (2, R, C):
        part.fail(f"C01:wf:{gen}", f"{gen}({R}x{C}, {kwargs}): connection_list is {type(conn).__name__} dtype {getattr(conn, 'dtype', None)} shape {getattr(conn, 'shape', None)}, expected bool ndarray of shape (2,{R},{C})", inp, repr(getattr(conn, "shape", None)))
        return
    ckey = (gen, kk, conn.tobytes())
    graph_done = ckey in cache
    cache[ckey] = True
    if not graph_done:
        if conn[0, -1, :].any() or conn[1, :, -1].any():
            part.fail(f"C01:wf:{gen}", f"{gen}({R}x{C}, {kwargs}): a connection leaves the grid (conn[0,-1,:]={conn[0, -1, :].astype(int).tolist()}, conn[1,:,-1]={conn[1, :, -1].astype(int).tolist()})", inp, conn.astype(int).tolist())
        n_edges = int(conn.sum())
        plain = not (set(kwargs) - TREE_NEUTRAL)
        # ---- spanning tree: connected and exactly R*C-1 connections (hence acyclic)
        if gen == "gen_wilson" or (gen in ("gen_dfs", "gen_prim") and plain):
            connected = S.is_connected(conn)
            if not connected or n_edges != R * C - 1:
                part.fail(f"C01:spanning-tree:{gen}", f"{gen}({R}x{C}, {kwargs}): not a spanning tree: connected={connected}, {n_edges} connections for {R * C} cells", inp, conn.astype(int).tolist())
        # ---- percolation extremes
        if gen in ("gen_percolation", "gen_dfs_percolation"):
            p = kwargs.get("p", RS.DEFAULT_P)
            if gen == "gen_percolation" and p == 0 and n_edges != 0:
                part.fail(f"C01:percolation-p0:{gen}", f"{gen}({R}x{C}, {kwargs}): p=0 but {n_edges} connections", inp, conn.astype(int).tolist())
            if p == 1 and not (_all_lattice_edges_set(conn) and n_edges == len(S.lattice_edge_slots(R, C))):
                part.fail(f"C01:percolation-p1:{gen}", f"{gen}({R}x{C}, {kwargs}): p=1 but {n_edges} connections set, the lattice has {len(S.lattice_edge_slots(R, C))} edges", inp, conn.astype(int).tolist())
        if gen == "gen_dfs_percolation" and not (set(kwargs) - PERC_NEUTRAL):
            connected = S.is_connected(conn)
            if not connected or len(S.edge_set(conn)) < R * C - 1:
                part.fail(f"C01:connected:{gen}", f"{gen}({R}x{C}, {kwargs}): default dfs arguments but the result is not connected ({n_edges} connections)", inp, conn.astype(int).tolist())

    # ---- gen_dfs_percolation contains the tree gen_dfs builds from the same decisions (and equals it when p=0)
    if gen == "gen_dfs_percolation":
        sub = [t[0] for t in ex.trace if t[2] != "rand"]  # start-coordinate draws + dfs decisions
        rkey = ("dfsref", kk, tuple(sub))
        ref = cache.get(rkey)
        if ref is None:
            kw = {k: v for k, v in kwargs.items() if k != "p"}
            rex = RS.replay_execution("gen_dfs", ex.shape, kw, sub)
            rc = getattr(rex.maze, "connection_list", None)
            ref = rc if isinstance(rc, np.ndarray) and rc.shape == conn.shape and len(rex.script) == len(sub) else False
            cache[rkey] = ref
        if ref is not False:
            if (ref & ~conn).any():
                part.fail(f"C01:contains-dfs-tree:{gen}", f"{gen}({R}x{C}, {kwargs}): a connection of the dfs tree built from the same decisions is missing", inp, {"dfs": ref.astype(int).tolist(), "result": conn.astype(int).tolist()})
            elif kwargs.get("p", RS.DEFAULT_P) == 0 and not np.array_equal(ref, conn):
                part.fail(f"C01:percolation-p0:{gen}", f"{gen}({R}x{C}, {kwargs}): p=0 but connections were added to the dfs tree", inp, {"dfs": ref.astype(int).tolist(), "result": conn.astype(int).tolist()})


RS.register_checker(CHECKER, check_execution)

FUNCTIONS = [
    "LatticeMazeGenerators.gen_dfs",
    "LatticeMazeGenerators.gen_prim",
    "LatticeMazeGenerators.gen_wilson",
    "LatticeMazeGenerators.gen_percolation",
    "LatticeMazeGenerators.gen_dfs_percolation",
    "_random_start_coord",
    "get_neighbors_in_bounds",
    "_fill_edges_with_walls",
]


def _run_part(name, jobs, rule):
    t0 = time.time()
    res = BoundedResult(name, rule=rule, exhaustive=False, functions=FUNCTIONS)
    try:
        stats = RS.run_jobs(jobs, res)
        res.rule += f" || this run: {stats['executions']} executions in {stats['jobs']} jobs, completed per generator {dict(sorted(stats['by_gen'].items()))}, cut branches {stats['cut']}"
        missing = [g for g in RS.GENERATORS if not stats["by_gen"].get(g)]
        if missing:
            res.errors.append(f"no completed execution of {missing} (vacuous)")
    except Exception as e:  # noqa: BLE001
        import traceback

        res.errors.append(f"{type(e).__name__}: {e}\n{traceback.format_exc(limit=6)}")
    res.seconds = time.time() - t0
    return res


def run(tier, seed):
    warnings.simplefilter("ignore")
    ex_jobs, sd_jobs, ex_rule, sd_rule = RS.plan(CHECKER, tier, seed)
    return [_run_part("C01.all-executions", ex_jobs, ex_rule), _run_part("C01.seeded", sd_jobs, sd_rule)]


def replay(check, inp):
    """re-run exactly the recorded execution (generator, shape, kwargs, decision script); True iff every C01 clause holds on it now"""
    warnings.simplefilter("ignore")
    part = RS.Partial()
    ex = RS.replay_input(inp)
    check_execution(part, ex, {})
    for f in part.failures:
        print("  still failing:", f["key"], f["what"][:300])
    return not part.failures
