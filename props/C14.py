"""C14 - token vocabularies and token-id codecs are fixed, duplicate-free, invertible."""
ID = "C14"
LEVEL = "exploration"
LEVEL_TEXT = (
    "The vocabulary FACTS (finite) are decided by complete evaluation, the CODECS (any sequence length) by proof. "
    "PROVED (unbounded, z3; for ANY vocabulary - the list / map are symbolic module globals - and id / token sequences of any length): MazeTokenizerModular.decode and MazeTokenizer.decode "
    "are position-wise lookups in the vocabulary list and raise TokenError - nothing else, in particular no IndexError - exactly when some id is outside [0, len), negative ids included; "
    "both encode functions are position-wise lookups in the token-to-id map and raise TokenError exactly when some token is unknown; the two inverse LEMMAS decode(encode(ts)) == ts and "
    "encode(decode(ids)) == ids follow from the contracts given that the map is the inverse of the list. For the legacy tokenizers that premise is itself proved from the real dict comprehension "
    "(MazeTokenizer._tokenizer_map: for any duplicate-free token list the map contains exactly the list's tokens and sends each to its position). "
    + 'Complete evaluation over the finite domain (labelled bounded, exhaustive=true): all 4096 positions against the published layout restated independently, encode/decode on every token, unknown tokens and out-of-range ids, all legacy modes x max_grid_size 1..50, corner-first ordering permutation and prefix property for all n<m<=50.'
)
LEVEL_NOTE = "Trusted: pyvc encoding (strings as z3 strings; the str.split() branch of encode is not modelled: token lists only). That the modular map (a module-level statement of constants.py) is the inverse of the list, that the vocabularies are duplicate-free, and the layout facts are bounded-complete, not proved; a dict comprehension keeps the value of the LAST element producing a key."
TECHNIQUE = "contract-based deductive verification of the four codec functions and two inverse lemmas (z3, symbolic vocabulary) + complete evaluation of the finite vocabulary facts (bounded, exhaustive)"
CONTRACT_MODULES = ["contracts.tokcodec"]
MT = "maze_dataset/tokenization/maze_tokenizer.py"
L = "/verif/contracts/lemmas_src.py"
PROVE = [(MT, "MazeTokenizerModular.decode"), (MT, "MazeTokenizerModular.encode"), (MT, "MazeTokenizer.decode"), (MT, "MazeTokenizer.encode"), (L, "modular_decode_encode"), (L, "modular_encode_decode"), (MT, "MazeTokenizer._tokenizer_map")]
ASSUMPTIONS = ["token lists (not space-joined strings) for encode; joined_tokens=False for decode"]
EXPLANATION = "see DESIGN.md C14"


def run(run):
    from props._std import run_bounded

    if PROVE:
        run.prove(PROVE)
    run_bounded(run, "C14")
