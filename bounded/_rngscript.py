"""Scripted random source for the maze generators + enumeration of ALL random executions on small grids.
Shared by bounded/C01.py and bounded/C12.py.

The generators (maze_dataset/generation/generators.py) draw from `random.randint`, `random.choice`,
`np.random.randint`, `np.random.choice` and `np.random.rand`.  While a `ScriptRNG` is installed the names
`random` and `np` *as seen from the generators module* are proxies: every draw is answered from a decision
script and recorded together with the number of alternatives it had, so that a depth-first walk over the
scripts visits every possible execution.  Any other draw (random.random, np.random.shuffle, ...) raises
`UnmodelledDraw`, which the harness reports as a checker error, never as a violation.  The module names are
restored in a `finally`.

Decision script = list with one entry per draw, in draw order
  * int k   : the k-th alternative of a discrete draw (k-th value of the integer range / k-th list element);
              for one cell of `np.random.rand` when the harness enumerates: 0 = outcome `>= p`, 1 = outcome `< p`
              (boundary representatives: p itself, and the largest float below p; a single alternative when p is 0 or 1)
  * float x : the literal value returned for one cell of `np.random.rand` (seeded runs)
"""
from __future__ import annotations

import hashlib
import multiprocessing
import os
import random as _pyrandom
import signal
import threading
import time
import traceback
from contextlib import contextmanager, nullcontext

import numpy as _np

GENERATORS = ("gen_dfs", "gen_prim", "gen_wilson", "gen_percolation", "gen_dfs_percolation")
DEFAULT_P = 0.4  # default of gen_percolation / gen_dfs_percolation (signature)
EXEC_TIME_LIMIT = 60.0  # seconds for ONE scripted execution of a generator (watchdog against non-terminating modified trees)
REAL_TIME_LIMIT = 15.0  # same for a run with the real RNGs (no cap on draws there; the slowest unchanged run, Wilson 20x20, takes ~0.1 s)


class Cut(BaseException):
    """the draw budget of an enumeration is used up (not an error, the branch is counted as cut);
    total=True: the hard cap on the number of draws of one execution was hit instead (the generator does not seem to return)"""

    def __init__(self, total=False):
        super().__init__()
        self.total = total


class UnmodelledDraw(BaseException):
    """the code under check asked for a random draw the scripted source does not model (harness limitation)"""


class ExecutionTimeout(BaseException):
    """one execution ran longer than EXEC_TIME_LIMIT"""


# ----------------------------------------------------------------------------------------------- scripted source
class ScriptRNG:
    """answers draws from `script`; once the script is used up: first alternative (fallback None) or a seeded pick"""

    def __init__(self, script=(), p=None, fallback=None, enumerate_rand=True, max_branching=None, max_total=None, lenient=False):
        self.script = list(script)
        self.lenient = lenient  # replay on a changed tree: an entry that no longer fits is folded into the range instead of rejected
        self.p = DEFAULT_P if p is None else float(p)
        self.fallback = fallback  # None | random.Random
        self.enumerate_rand = enumerate_rand
        self.max_branching = max_branching  # budget of draws with more than one alternative
        self.max_total = max_total  # hard cap on the number of draws
        self.trace = []  # (entry, n_alternatives, kind)
        self.branching = 0

    # -- core
    def _next_entry(self):
        i = len(self.trace)
        return self.script[i] if i < len(self.script) else None

    def _budget(self, n):
        if self.max_total is not None and len(self.trace) >= self.max_total:
            raise Cut(total=True)
        if n > 1 and self.max_branching is not None and self.branching >= self.max_branching:
            raise Cut()

    def draw(self, n, kind):
        """one discrete draw with n >= 1 alternatives; returns the index"""
        n = int(n)
        if n < 1:
            raise ValueError(f"scripted {kind}: empty range")
        self._budget(n)
        e = self._next_entry()
        if e is None:
            k = 0 if self.fallback is None else self.fallback.randrange(n)
        else:
            if self.lenient:
                e = int(e * n) % n if isinstance(e, float) else int(e) % n
            if isinstance(e, float) or not (0 <= int(e) < n):
                raise UnmodelledDraw(f"script entry {e!r} at draw {len(self.trace)} does not fit a {kind} draw with {n} alternatives (the execution diverged from the recorded one)")
            k = int(e)
        if n > 1:
            self.branching += 1
        self.trace.append((k, n, kind))
        return k

    def rand_cell(self):
        """one cell of np.random.rand: a float in [0,1)"""
        p = self.p
        alts = []
        if p < 1.0:
            alts.append(min(max(p, 0.0), float(_np.nextafter(1.0, 0.0))))  # outcome `>= p` (the boundary value p itself)
        if p > 0.0:
            alts.append(float(_np.nextafter(min(p, 1.0), -1.0)))  # outcome `< p` (largest float below p)
        e = self._next_entry()
        if isinstance(e, float):
            self._budget(1)
            self.trace.append((e, 1, "rand"))
            return e
        if e is None and (self.fallback is not None) and not self.enumerate_rand:
            self._budget(1)
            x = self.fallback.random()
            self.trace.append((x, 1, "rand"))
            return x
        k = self.draw(len(alts), "rand")
        return alts[k]

    # -- the five modelled entry points
    def py_randint(self, a, b):
        return a + self.draw(b - a + 1, "random.randint")

    def py_choice(self, seq):
        if len(seq) == 0:
            raise IndexError("Cannot choose from an empty sequence")
        return seq[self.draw(len(seq), "random.choice")]

    def np_randint(self, low, high=None, size=None, dtype=int):
        if high is None:
            low, high = 0, low
        if size is None:
            shape = _np.broadcast(_np.asarray(low), _np.asarray(high)).shape
        else:
            shape = (size,) if isinstance(size, (int, _np.integer)) else tuple(size)
        lo = _np.broadcast_to(_np.asarray(low), shape)
        hi = _np.broadcast_to(_np.asarray(high), shape)
        if shape == ():
            if int(hi) <= int(lo):
                raise ValueError("low >= high")
            return int(lo) + self.draw(int(hi) - int(lo), "np.random.randint")
        out = _np.empty(shape, dtype=_np.int64)
        for idx in _np.ndindex(*shape):
            if int(hi[idx]) <= int(lo[idx]):
                raise ValueError("low >= high")
            out[idx] = int(lo[idx]) + self.draw(int(hi[idx]) - int(lo[idx]), "np.random.randint")
        return out

    def np_choice(self, a, size=None, replace=True, p=None):
        if size is not None or p is not None or replace is not True:
            raise UnmodelledDraw("np.random.choice with size/replace/p is not modelled")
        if isinstance(a, (int, _np.integer)):
            if a <= 0:
                raise ValueError("a must be greater than 0 unless no samples are taken")
            return self.draw(int(a), "np.random.choice")
        arr = _np.asarray(a)
        if arr.ndim != 1 or arr.shape[0] == 0:
            raise ValueError("a must be 1-dimensional and non-empty")
        return arr[self.draw(arr.shape[0], "np.random.choice")]

    def np_rand(self, *shape):
        if not shape:
            return self.rand_cell()
        out = _np.empty(tuple(int(s) for s in shape), dtype=_np.float64)
        for idx in _np.ndindex(*out.shape):
            out[idx] = self.rand_cell()
        return out

    def script_out(self):
        return [e for e, _n, _k in self.trace]


class _PyRandomProxy:
    def __init__(self, rng):
        object.__setattr__(self, "_rng", rng)

    def __getattr__(self, name):
        rng = object.__getattribute__(self, "_rng")
        if name == "randint":
            return rng.py_randint
        if name == "choice":
            return rng.py_choice
        raise UnmodelledDraw(f"random.{name} is not modelled by the scripted random source")


class _NpRandomProxy:
    def __init__(self, rng):
        object.__setattr__(self, "_rng", rng)

    def __getattr__(self, name):
        rng = object.__getattribute__(self, "_rng")
        if name == "randint":
            return rng.np_randint
        if name == "choice":
            return rng.np_choice
        if name == "rand":
            return rng.np_rand
        raise UnmodelledDraw(f"np.random.{name} is not modelled by the scripted random source")


class _NumpyProxy:
    """numpy with `.random` replaced; everything else is the real numpy"""

    def __init__(self, rng):
        object.__setattr__(self, "random", _NpRandomProxy(rng))

    def __getattr__(self, name):
        return getattr(_np, name)


def generators_module():
    import maze_dataset.generation.generators as G

    return G


@contextmanager
def installed(rng):
    """`random` and `np` of the generators module answer from `rng`; restored on exit whatever happens"""
    G = generators_module()
    saved = (G.random, G.np)
    G.random = _PyRandomProxy(rng)
    G.np = _NumpyProxy(rng)
    try:
        yield rng
    finally:
        G.random, G.np = saved


@contextmanager
def time_limit(seconds):
    ok = threading.current_thread() is threading.main_thread() and hasattr(signal, "setitimer")
    if not ok:
        yield
        return

    def handler(signum, frame):
        raise ExecutionTimeout()

    old = signal.signal(signal.SIGALRM, handler)
    signal.setitimer(signal.ITIMER_REAL, seconds)
    try:
        yield
    finally:
        signal.setitimer(signal.ITIMER_REAL, 0)
        signal.signal(signal.SIGALRM, old)


# ----------------------------------------------------------------------------------------------- one execution
class Execution:
    """one run of a generator under a script"""

    __slots__ = ("gen", "shape", "kwargs", "script", "trace", "maze", "exc", "cut", "cut_total", "mode", "global_seed")

    def __init__(self, gen, shape, kwargs):
        self.gen, self.shape, self.kwargs = gen, tuple(int(x) for x in shape), dict(kwargs)
        self.script, self.trace, self.maze, self.exc, self.cut, self.mode, self.global_seed = [], [], None, None, False, "script", None
        self.cut_total = False  # cut by the hard cap on draws (not by the enumeration budget)

    def input(self):
        """what replay() needs to re-run exactly this execution"""
        d = {"generator": self.gen, "shape": list(self.shape), "kwargs": dict(self.kwargs), "script": list(self.script)}
        if self.global_seed is not None:
            d["global_seed"] = self.global_seed  # run with the REAL random / np.random seeded with this value (no script)
        return d


def norm_kwargs(kwargs):
    """kwargs as they come back from a replay file (lists for tuples) -> what the generator is called with"""
    out = {}
    for k, v in (kwargs or {}).items():
        if k == "start_coord" and v is not None:
            v = tuple(int(x) for x in v)
        out[k] = v
    return out


def call_generator(gen, shape, kwargs, rng):
    """run the real generator with `rng` installed (rng None: nothing installed, the real global RNGs are used);
    returns an Execution (maze, or the exception it raised, or cut)"""
    G = generators_module()
    ex = Execution(gen, shape, kwargs)
    fn = getattr(G.LatticeMazeGenerators, gen)
    kw = norm_kwargs(kwargs)
    # gen_wilson subtracts from grid_shape: it needs an ndarray (MazeDatasetConfig.grid_shape_np passes one); the others take a tuple
    as_arr = kw.pop("_shape_as_array", False)
    grid = _np.array(ex.shape) if gen == "gen_wilson" or as_arr else ex.shape
    if as_arr == "int8":
        grid = _np.array(ex.shape, dtype=_np.int8)  # the library's own Coord dtype: products of its entries must not be computed in int8
    try:
        with time_limit(EXEC_TIME_LIMIT if rng is not None else REAL_TIME_LIMIT), (installed(rng) if rng is not None else nullcontext()):
            ex.maze = fn(grid, **kw)
    except Cut as c:
        ex.cut, ex.cut_total = True, c.total
    except (UnmodelledDraw, ExecutionTimeout, KeyboardInterrupt):
        raise
    except BaseException as e:  # noqa: BLE001 - an exception of the code under check
        if isinstance(e, (SystemExit, MemoryError)):
            raise
        ex.exc = e
    if rng is not None:
        ex.trace = list(rng.trace)
        ex.script = rng.script_out()
    return ex


def global_seed_execution(gen, shape, kwargs, seed):
    """the generator exactly as a user runs it: REAL random / np.random, both seeded with `seed` (state restored afterwards).
    Keeps the scripted source honest (argument conventions of the real draw functions); no script, replay re-seeds."""
    st_py, st_np = _pyrandom.getstate(), _np.random.get_state()
    try:
        _pyrandom.seed(seed)
        _np.random.seed(seed % (2**32))
        ex = call_generator(gen, shape, kwargs, None)
    finally:
        _pyrandom.setstate(st_py)
        _np.random.set_state(st_np)
    ex.mode, ex.global_seed = "global-seed", int(seed)
    return ex


def replay_input(inp):
    """re-run the execution recorded in a failure input"""
    gen, shape, kwargs = inp["generator"], tuple(int(x) for x in inp["shape"]), norm_kwargs(inp.get("kwargs") or {})
    if inp.get("global_seed") is not None:
        return global_seed_execution(gen, shape, kwargs, int(inp["global_seed"]))
    return replay_execution(gen, shape, kwargs, list(inp["script"]))


def kw_p(kwargs):
    return kwargs.get("p", DEFAULT_P)


def seeded_draw_cap(shape):
    """draws allowed in one seeded execution: far above what any generator needs (a Wilson run used at most 1/40 of it in
    trials on 3x3..20x20, 1x20, 20x3; the others draw at most ~4 per cell); guards against non-terminating modified trees"""
    n = int(shape[0]) * int(shape[1])
    return 30 * n * max(int(shape[0]), int(shape[1])) + 2000


def replay_execution(gen, shape, kwargs, script):
    """re-run one recorded script.  On the tree that produced it the script fits exactly; on a changed tree entries that no
    longer fit are folded into range and a script that is too short is continued with seeded picks (continuing with the first
    alternative could make a Wilson walk bounce for ever)"""
    rng = ScriptRNG(script, p=kw_p(kwargs), fallback=_pyrandom.Random(stable_int("replay", len(script))), enumerate_rand=False, lenient=True, max_total=max(4 * len(script), seeded_draw_cap(shape)))
    return call_generator(gen, shape, kwargs, rng)


def stable_int(*parts):
    return int.from_bytes(hashlib.blake2b(repr(parts).encode(), digest_size=8).digest(), "big")


def seeded_execution(gen, shape, kwargs, seed):
    """a plain pseudo-random execution (all decisions from random.Random(seed)); the decisions are recorded as a script"""
    rng = ScriptRNG((), p=kw_p(kwargs), fallback=_pyrandom.Random(seed), enumerate_rand=False, max_total=seeded_draw_cap(shape))
    ex = call_generator(gen, shape, kwargs, rng)
    ex.mode = "seeded"
    return ex


def _next_script(trace, floor):
    """depth-first successor: bump the last draw (at position >= floor) that still has an untried alternative"""
    i = len(trace) - 1
    while i >= floor:
        e, n, _k = trace[i]
        if isinstance(e, int) and e + 1 < n:
            return [t[0] for t in trace[:i]] + [e + 1]
        i -= 1
    return None


def enumerate_executions(gen, shape, kwargs, prefix=(), budget=None, max_total=None, rand_seed=None):
    """every execution whose decision script starts with `prefix`.
    budget    = max number of draws with more than one alternative (None: unlimited; the generator must then be finite)
    max_total = hard cap on draws (used for splitting work and as a guard)
    rand_seed = None: np.random.rand cells are enumerated as the two outcomes (< p, >= p);
                int : rand cells are not enumerated, each execution gets seeded pseudo-random floats (discrete draws still enumerated)"""
    script = list(prefix)
    floor = len(script)
    count = 0
    splitting = max_total is not None
    if max_total is None:
        max_total = seeded_draw_cap(shape)  # guard: no generator needs that many draws on this grid
    while script is not None:
        if rand_seed is None:
            rng = ScriptRNG(script, p=kw_p(kwargs), max_branching=budget, max_total=max_total)
        else:
            rng = _HybridRNG(script, p=kw_p(kwargs), max_branching=budget, max_total=max_total, fallback=_pyrandom.Random(stable_int(rand_seed, count)))
        ex = call_generator(gen, shape, kwargs, rng)
        if splitting:
            ex.cut_total = False  # (the cap is the split depth, not the guard)
        count += 1
        yield ex
        trace = ex.trace
        if rand_seed is not None:
            # floats never branch; drop them from the tail so that the successor is computed on the discrete part
            while trace and isinstance(trace[-1][0], float):
                trace = trace[:-1]
        if len(trace) < floor:
            return  # the prefix itself was not consumed completely: single execution
        script = _next_script(trace, floor)


class _HybridRNG(ScriptRNG):
    """discrete draws: script, then first alternative (enumerated by the caller); rand cells: seeded floats"""

    def __init__(self, script, p, max_branching, max_total, fallback):
        super().__init__(script, p=p, fallback=None, enumerate_rand=False, max_branching=max_branching, max_total=max_total)
        self._float_src = fallback

    def rand_cell(self):
        e = self._next_entry()
        self._budget(1)
        x = e if isinstance(e, float) else self._float_src.random()
        self.trace.append((float(x), 1, "rand"))
        return float(x)


def split_prefixes(gen, shape, kwargs, budget, want=256):
    """cut the execution tree into independent sub-trees: list of prefixes such that every execution extends exactly one"""
    depth = 2
    while True:
        prefixes, any_cut = [], False
        for ex in enumerate_executions(gen, shape, kwargs, budget=budget, max_total=depth):
            if ex.cut and len(ex.trace) >= depth:
                any_cut = True
                prefixes.append([t[0] for t in ex.trace[:depth]])
            else:
                prefixes.append(list(ex.script))  # complete (or budget-cut) below the split depth: a one-execution sub-tree
        if not any_cut or len(prefixes) >= want or depth >= 40:
            return prefixes
        depth += 2


# ----------------------------------------------------------------------------------------------- jobs / pool
class Partial:
    """what a worker sends back (a BoundedResult without the rule)"""

    def __init__(self):
        self.evaluations = 0
        self.distinct = set()
        self.samples = []
        self.failures = []
        self.errors = []
        self.cut = 0
        self.no_return = 0
        self.executions = 0
        self.by_gen = {}

    # same surface as BoundedResult for the checkers
    def seen(self, canonical, nontrivial=True, sample=None):
        self.evaluations += 1
        if nontrivial:
            self.distinct.add(hashlib.blake2b(repr(canonical).encode(), digest_size=8).hexdigest())
        if sample is not None and len(self.samples) < 3:
            self.samples.append(sample)

    def fail(self, key, what, input=None, observed=None):
        if len(self.failures) < 50 and sum(1 for f in self.failures if f["key"] == key) < 2:
            self.failures.append({"key": key, "what": what, "input": input, "observed": observed})


def _global_rng_fingerprint():
    return (hash(_pyrandom.getstate()), hashlib.blake2b(_np.random.get_state()[1].tobytes(), digest_size=8).hexdigest(), int(_np.random.get_state()[2]))


_CHECKERS = {}
_TIMEOUTS = None  # shared array (one counter per generator) of executions that hit the watchdog, set by run_jobs before forking


def register_checker(name, fn):
    """fn(partial, execution, cache) is called once per completed (not cut) execution"""
    _CHECKERS[name] = fn


def run_job(job):
    """one job in one process.  job = dict(checker, kind='enum'|'seeded', gen, shape, kwargs, ...)"""
    part = Partial()
    part.t0 = time.time()
    check = _CHECKERS[job["checker"]]
    gen, shape, kwargs = job["gen"], job["shape"], job["kwargs"]
    cache = {}
    if _TIMEOUTS is not None and _TIMEOUTS[GENERATORS.index(gen)] >= 2:
        part.errors.append(f"{gen}{shape}{kwargs}: job skipped, two executions of {gen} already exceeded the time limit")
        part.seconds = 0.0
        return part
    try:
        before = _global_rng_fingerprint()
        if job["kind"] == "enum":
            it = enumerate_executions(gen, shape, kwargs, prefix=job.get("prefix", ()), budget=job.get("budget"), rand_seed=job.get("rand_seed"))
        elif job["kind"] == "global-seed":
            it = (global_seed_execution(gen, shape, kwargs, s % (2**32)) for s in job["seeds"])
        else:
            it = (seeded_execution(gen, shape, kwargs, s) for s in job["seeds"])
        for ex in it:
            part.executions += 1
            if ex.cut:
                part.cut += 1
                if ex.cut_total:
                    part.no_return += 1
                    if part.no_return <= 3:
                        check(part, ex, cache)  # C01 reports it (the generator did not return within the hard cap on draws)
                    if part.no_return >= 20:
                        break  # the whole sub-tree is like that: stop burning time
                continue
            part.by_gen[gen] = part.by_gen.get(gen, 0) + 1
            check(part, ex, cache)  # (checkers that use the global RNG restore its state)
        if _global_rng_fingerprint() != before:
            part.errors.append(f"{gen}{shape}{kwargs}: randomness was consumed from the global RNG state behind the scripted source (the enumeration would be incomplete)")
    except UnmodelledDraw as e:
        part.errors.append(f"{gen}{shape}{kwargs}: {e}")
    except ExecutionTimeout:
        if _TIMEOUTS is not None:
            _TIMEOUTS[GENERATORS.index(gen)] += 1
        part.errors.append(f"{gen}{shape}{kwargs}: one execution ran longer than {REAL_TIME_LIMIT if job['kind'] == 'global-seed' else EXEC_TIME_LIMIT:.0f}s (prefix {job.get('prefix')}, seeds {job.get('seeds')}); possible non-termination of the code under check")
    except Exception as e:  # noqa: BLE001 - harness crash
        part.errors.append(f"{gen}{shape}{kwargs}: {type(e).__name__}: {e}\n{traceback.format_exc(limit=6)}")
    part.seconds = time.time() - part.t0
    return part


def expand_jobs(jobs):
    """split the large enumeration jobs (job['split'] true) into sub-tree jobs"""
    out = []
    for job in jobs:
        if job["kind"] == "enum" and job.get("split") and job.get("rand_seed") is None:  # (hybrid jobs are never split)
            for pre in split_prefixes(job["gen"], job["shape"], job["kwargs"], job.get("budget"), want=job.get("want") or 32):
                j = dict(job)
                j["prefix"] = pre
                out.append(j)
        else:
            out.append(job)
    return out


def run_jobs(jobs, res, nproc=None):
    """run all jobs (fork pool), merge into the BoundedResult `res` in job order; returns dict(cut=..., executions=..., by_gen=...)"""
    global _TIMEOUTS
    generators_module()  # import before forking
    _TIMEOUTS = multiprocessing.get_context("fork").Array("i", len(GENERATORS))
    t_start = time.time()
    jobs = expand_jobs(jobs)
    t_split = time.time()
    nproc = nproc or min(16, os.cpu_count() or 1)
    if nproc > 1 and len(jobs) > 1:
        ctx = multiprocessing.get_context("fork")
        with ctx.Pool(nproc) as pool:
            parts = pool.map(run_job, jobs, chunksize=1)
    else:
        parts = [run_job(j) for j in jobs]
    stats = {"cut": 0, "executions": 0, "by_gen": {}, "jobs": len(jobs)}
    if os.environ.get("VERIF_BOUNDED_DEBUG"):
        print(f"   [debug] {len(jobs)} jobs, split+pool wall {time.time() - t_start:.1f}s (split {t_split - t_start:.1f}s), cpu {sum(p.seconds for p in parts):.1f}s")
        for p, j in sorted(zip(parts, jobs), key=lambda pj: -pj[0].seconds)[:8]:
            print(f"   [debug] {p.seconds:6.2f}s {p.executions:7d} execs {j['gen']} {j['shape']} {j['kwargs']} budget={j.get('budget')} prefix={j.get('prefix')}")
    for part in parts:
        res.evaluations += part.evaluations
        res.distinct |= part.distinct
        for s in part.samples:
            if len(res.samples) < 3:
                res.samples.append(s)
        for f in part.failures:
            if sum(1 for g in res.failures if g["key"] == f["key"]) < 2:  # at most 2 inputs per stable key (room for many keys)
                res.fail(f["key"], f["what"], f["input"], f["observed"])
        for e in part.errors:
            if len(res.errors) < 20:
                res.errors.append(e)
        stats["cut"] += part.cut
        stats["executions"] += part.executions
        for g, n in part.by_gen.items():
            stats["by_gen"][g] = stats["by_gen"].get(g, 0) + n
    return stats


# ----------------------------------------------------------------------------------------------- helpers for checkers
def kwargs_key(kwargs):
    return tuple(sorted((k, repr(v)) for k, v in kwargs.items()))


def dfs_subscript(trace):
    """the part of a gen_dfs_percolation script that its inner gen_dfs call consumed is what follows the leading
    start-coordinate draws (np.random.randint) and precedes the rand cells"""
    i = 0
    while i < len(trace) and trace[i][2] == "np.random.randint":
        i += 1
    j = i
    while j < len(trace) and trace[j][2] != "rand":
        j += 1
    return [t[0] for t in trace[i:j]]


def enum_job(checker, gen, shape, kwargs=None, budget=None, split=False, rand_seed=None, want=32):
    """split: cut the execution tree into about `want` sub-trees that run in parallel"""
    return {"checker": checker, "kind": "enum", "gen": gen, "shape": tuple(shape), "kwargs": dict(kwargs or {}), "budget": budget, "split": split, "rand_seed": rand_seed, "want": want}


def seeded_job(checker, gen, shape, kwargs, seeds, real=False):
    return {"checker": checker, "kind": "global-seed" if real else "seeded", "gen": gen, "shape": tuple(shape), "kwargs": dict(kwargs or {}), "seeds": list(seeds)}


class Stopwatch:
    def __init__(self):
        self.t0 = time.time()

    def __call__(self):
        return time.time() - self.t0


# ----------------------------------------------------------------------------------------------- the scope (shared by C01 and C12)
def _dedupe(kws):
    out, seen = [], set()
    for kw in kws:
        k = kwargs_key(kw)
        if k not in seen:
            seen.add(k)
            out.append(kw)
    return out


def dfs_kwargs_small(R, C):
    """accepted keyword arguments of gen_dfs / gen_prim exercised on the exhaustively enumerated grids
    (fractions are dyadic so that `fraction * count` is exact; `_shape_as_array`: pass grid_shape as ndarray instead of tuple)"""
    n, last = R * C, (R - 1, C - 1)
    return _dedupe(
        [{}, {"start_coord": last}, {"start_coord": (0, 0)}, {"_shape_as_array": True}]
        + [{"accessible_cells": a} for a in (0, 1, 2, 3, n, n + 2, 0.0, 0.25, 0.5, 1.0)]
        + [{"max_tree_depth": d} for d in (0, 1, 2, 3, 4, 2 * n, 0.5, 1.0)]
        + [{"do_forks": False}, {"do_forks": False, "start_coord": last}, {"do_forks": False, "accessible_cells": 3}, {"do_forks": False, "max_tree_depth": 4}]
        + [{"accessible_cells": 0.5, "max_tree_depth": 0.5}, {"accessible_cells": 3, "start_coord": last}, {"accessible_cells": 0.75, "max_tree_depth": 6}]
    )


def dfs_kwargs_large(R, C):
    n, last = R * C, (R - 1, C - 1)
    return _dedupe(
        [{}, {"start_coord": last}, {"_shape_as_array": True}]
        + [{"accessible_cells": a} for a in (n // 2, n + 5, 0.25, 0.75, 1.0)]
        + [{"max_tree_depth": d} for d in (R + C, 0.5, 1.0)]
        + [{"do_forks": False}, {"do_forks": False, "accessible_cells": 0.5}, {"accessible_cells": 0.5, "max_tree_depth": 0.5}, {"do_forks": False, "max_tree_depth": R + C, "start_coord": last}]
    )


def perc_kwargs(R, C):
    last = (R - 1, C - 1)
    return _dedupe([{}, {"p": 0.0}, {"p": 1.0}, {"p": 0}, {"p": 1}, {"p": 0.5, "start_coord": last}, {"p": 0.0, "start_coord": last}, {"p": 1.0, "_shape_as_array": True}])


def dfsperc_kwargs_cheap(R, C):
    """single-outcome percolation (p in {0,1}): as many executions as gen_dfs"""
    last = (R - 1, C - 1)
    return _dedupe([{"p": 0.0}, {"p": 1.0}, {"p": 0.0, "accessible_cells": 2}, {"p": 1.0, "max_tree_depth": 2}, {"p": 0.0, "start_coord": last}, {"p": 0, "accessible_cells": 1}])


def dfsperc_kwargs_full(R, C):
    last = (R - 1, C - 1)
    return _dedupe([{}, {"p": 0.5, "start_coord": last}, {"accessible_cells": 2}, {"max_tree_depth": 2}])


def plan(checker, tier, seed):
    """-> (jobs of the all-executions part, jobs of the seeded part, rule text of each part)"""
    thorough = tier == "thorough"
    tiny = [(1, 1), (1, 2), (2, 1), (1, 3), (3, 1), (2, 2), (1, 4), (4, 1)]
    mid = [(2, 3), (3, 2)]
    ex_jobs = []
    # --- gen_dfs: finite, every execution
    dfs_shapes = tiny + mid + [(3, 3), (2, 4), (4, 2), (3, 4), (4, 3)] + ([(2, 5), (5, 2), (1, 6), (6, 1)] if thorough else [])
    for sh in dfs_shapes:
        for kw in dfs_kwargs_small(*sh):
            ex_jobs.append(enum_job(checker, "gen_dfs", sh, kw))
        if sh[0] * sh[1] <= 6:
            ex_jobs.append(enum_job(checker, "gen_dfs", sh, {"randomized_stack": True}, split=sh[0] * sh[1] == 6))
    # --- gen_prim: finite, every execution
    prim_shapes = tiny + mid
    for sh in prim_shapes:
        for kw in dfs_kwargs_small(*sh):
            ex_jobs.append(enum_job(checker, "gen_prim", sh, kw, split=sh[0] * sh[1] >= 6))
    prim8 = [(2, 4), (4, 2)] if thorough else []  # 8 cells: 170 thousand executions with default arguments
    for sh in prim8:
        last = (sh[0] - 1, sh[1] - 1)
        for kw in ({}, {"start_coord": last}, {"do_forks": False}, {"accessible_cells": 0.5}, {"max_tree_depth": 4}, {"accessible_cells": 3, "start_coord": last}):
            ex_jobs.append(enum_job(checker, "gen_prim", sh, kw, split=True, want=300))
    # 3x3: with default arguments 33.0 million executions (1.13 M from a corner start, 6.06 M from an edge start, 19.7 M from the centre)
    prim33 = [{"do_forks": False}, {"accessible_cells": 4}, {"accessible_cells": 5}, {"accessible_cells": 0.5}, {"max_tree_depth": 0.5}]
    prim33_budget = 13
    if thorough:
        prim33 += [{"max_tree_depth": 4}, {"start_coord": (0, 0)}, {"start_coord": (2, 2)}]
    for kw in prim33:
        ex_jobs.append(enum_job(checker, "gen_prim", (3, 3), kw, split=True, want=3000 if "start_coord" in kw else 100))
    if thorough:
        ex_jobs.append(enum_job(checker, "gen_prim", (3, 3), {}, budget=prim33_budget, split=True, want=3000))
    # --- gen_wilson: infinite tree, cut at a number of draws that have more than one alternative
    wil = {sh: (18 if thorough else 15) for sh in tiny}
    wil.update({sh: (14 if thorough else 12) for sh in mid})
    if thorough:
        wil[(3, 3)] = 13
    for sh, b in wil.items():
        ex_jobs.append(enum_job(checker, "gen_wilson", sh, {}, budget=b, split=sh[0] * sh[1] >= 4))
    # --- gen_percolation: start draws x both outcomes of every rand cell
    perc_shapes = tiny + mid + ([(3, 3)] if thorough else [])
    for sh in perc_shapes:
        for kw in perc_kwargs(*sh):
            if sh == (3, 3) and kw.get("p", DEFAULT_P) not in (0, 1) and "start_coord" in kw:
                continue  # 3x3: one interior-p configuration (2^18 patterns x 4 starts)
            ex_jobs.append(enum_job(checker, "gen_percolation", sh, kw, split=sh[0] * sh[1] >= 6))
    # --- gen_dfs_percolation: dfs decisions x rand cells
    for sh in tiny + mid + [(3, 3)]:
        for kw in dfsperc_kwargs_cheap(*sh):
            ex_jobs.append(enum_job(checker, "gen_dfs_percolation", sh, kw))
    for sh in tiny + mid:
        for i, kw in enumerate(dfsperc_kwargs_full(*sh)):
            if sh in mid and i > 0 and not thorough:
                # quick tier: dfs decisions enumerated, 4 seeded rand patterns per decision sequence
                for r in range(4):
                    ex_jobs.append(enum_job(checker, "gen_dfs_percolation", sh, kw, rand_seed=stable_int(seed, "hyb", sh, i, r)))
            else:
                ex_jobs.append(enum_job(checker, "gen_dfs_percolation", sh, kw, split=sh in mid))
    for r in range(8 if thorough else 2):
        ex_jobs.append(enum_job(checker, "gen_dfs_percolation", (3, 3), {}, rand_seed=stable_int(seed, "hyb33", r)))
    ex_rule = (
        "EVERY random execution (depth-first walk over all decision scripts of the scripted random source; each draw records its number of alternatives) of: "
        f"gen_dfs on {_fmt(dfs_shapes)} x {len(dfs_kwargs_small(3, 3))} keyword settings (accessible_cells int/float, max_tree_depth int/float, do_forks, start_coord, shape as tuple/ndarray; randomized_stack=True up to 6 cells); "
        f"gen_prim on {_fmt(prim_shapes)} x the same settings"
        + (f", on {_fmt(prim8)} x 6 settings (default, start at the last cell, do_forks=False, accessible_cells=0.5, max_tree_depth=4, accessible_cells=3 from the last cell)" if prim8 else "")
        + f", and every execution on 3x3 for the settings {prim33}"
        + (f"; 3x3 with default arguments (33.0 million executions) cut after {prim33_budget} draws with >1 alternative" if thorough else "; 3x3 with default arguments (33.0 million executions) only seeded in this tier")
        + "; gen_wilson (infinite tree) cut after N draws with >1 alternative, N = "
        + ", ".join(f"{r}x{c}:{b}" for (r, c), b in wil.items())
        + " (cut branches are counted, nothing is checked on them); "
        f"gen_percolation on {_fmt(perc_shapes)}: start draws x both outcomes (`<p`: largest float below p, `>=p`: p itself) of every np.random.rand cell, p in 0, 1, 0.4 (default), 0.5; "
        f"gen_dfs_percolation: p in {{0,1}} on {_fmt(tiny + mid + [(3, 3)])}, interior p on {_fmt(tiny + mid)} "
        + ("all decisions and all rand outcomes" if thorough else "(2x3/3x2: default args fully, other settings all dfs decisions x 4 seeded rand patterns)")
        + f", 3x3 default args all dfs decisions x {8 if thorough else 2} seeded rand patterns. "
        "evaluation = one completed execution; distinct = (generator, shape, kwargs, output bits, metadata); non-trivial = grid of at least 2 cells"
    )
    # --- seeded runs
    big = [(3, 3), (4, 4), (5, 5), (6, 6), (8, 8), (3, 7), (7, 2), (1, 8), (8, 1), (5, 4)]
    if thorough:
        big += [(10, 10), (12, 12), (15, 15), (20, 20), (4, 17), (20, 3), (1, 20), (20, 1)]
    reps = 30 if thorough else 12
    sd_jobs = []
    for sh in big:
        n = sh[0] * sh[1]
        wil_reps = reps if n <= 64 else (3 if n <= 150 else 2)
        seeds = lambda tag, k: [stable_int(seed, tag, sh, i) for i in range(k)]  # noqa: E731
        for kw in dfs_kwargs_large(*sh):
            sd_jobs.append(seeded_job(checker, "gen_dfs", sh, kw, seeds(("dfs", kwargs_key(kw)), reps)))
            sd_jobs.append(seeded_job(checker, "gen_prim", sh, kw, seeds(("prim", kwargs_key(kw)), reps)))
        sd_jobs.append(seeded_job(checker, "gen_dfs", sh, {"randomized_stack": True, "accessible_cells": 0.5}, seeds("dfsrs", reps)))
        for s in seeds("wilson", wil_reps * (6 if sh == (3, 3) else 1)):
            sd_jobs.append(seeded_job(checker, "gen_wilson", sh, {}, [s]))
        for kw in perc_kwargs(*sh) + [{"p": 0.25}, {"p": 0.75}]:
            sd_jobs.append(seeded_job(checker, "gen_percolation", sh, kw, seeds(("perc", kwargs_key(kw)), reps)))
        for kw in dfsperc_kwargs_cheap(*sh) + dfsperc_kwargs_full(*sh) + [{"p": 0.1, "accessible_cells": n // 2}, {"p": 0.2, "max_tree_depth": sh[0] + sh[1]}]:
            sd_jobs.append(seeded_job(checker, "gen_dfs_percolation", sh, kw, seeds(("dp", kwargs_key(kw)), reps)))
    # a grid of 128 cells or more whose shape arrives as an int8 array (the dtype the library annotates coordinates with)
    for sh in ((12, 12), (8, 16)):
        for gen, kw in (("gen_dfs", {}), ("gen_prim", {}), ("gen_wilson", {}), ("gen_percolation", {"p": 1.0}), ("gen_dfs_percolation", {"p": 0.0})):
            sd_jobs.append(seeded_job(checker, gen, sh, dict(kw, _shape_as_array="int8"), [stable_int(seed, "int8", gen, sh)], real=True))
    n_real = 6 if thorough else 3
    for sh in big:
        n = sh[0] * sh[1]
        for gen, kws in (("gen_dfs", [{}, {"accessible_cells": 0.5}]), ("gen_prim", [{}, {"do_forks": False}]), ("gen_wilson", [{}]), ("gen_percolation", [{}, {"p": 1.0}]), ("gen_dfs_percolation", [{}, {"p": 0.0, "max_tree_depth": sh[0] + sh[1]}])):
            for kw in kws:
                sd_jobs.append(seeded_job(checker, gen, sh, kw, [stable_int(seed, "real", gen, sh, kwargs_key(kw), i) for i in range(n_real)], real=True))
    sd_rule = (
        f"seeded pseudo-random executions (decisions recorded as a script for replay) on {_fmt(big)}: {reps} per (generator, shape, keyword setting) "
        f"[gen_wilson: {reps} up to 64 cells, 3 up to 150 cells, 2 above; 3x3: {6 * reps}]; {len(dfs_kwargs_large(5, 5))} settings for gen_dfs/gen_prim, "
        f"{len(perc_kwargs(5, 5)) + 2} for gen_percolation (p in 0, 1, 0.25, 0.4, 0.5, 0.75), {len(dfsperc_kwargs_cheap(5, 5)) + len(dfsperc_kwargs_full(5, 5)) + 2} for gen_dfs_percolation; "
f"plus {n_real} runs per (generator, shape, 1-2 settings) with the REAL random/np.random seeded (replayed by seed, not by script); "
        "plus one real-RNG run per generator on 12x12 and 8x16 with grid_shape passed as an int8 array; all seeds derived from the run seed. evaluation = one execution; distinct = (generator, shape, kwargs, output bits, metadata)"
    )
    return ex_jobs, sd_jobs, ex_rule, sd_rule


def _fmt(shapes):
    return ",".join(f"{r}x{c}" for r, c in shapes)
