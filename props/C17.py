"""C17 - rasterized input/target images show the problem and only the solution."""
ID = "C17"
LEVEL = "exploration"
LEVEL_TEXT = 'PROVED (unbounded, z3): the two post-processing helpers pointwise for every image size - _remove_isolated_cells (a non-wall pixel whose four neighbours are wall or outside becomes wall, nothing else changes) and _extend_pixels (each pixel doubled, one-pixel wall frame, shape (2H+2, 2W+2, 3)). Bounded: input/target images recomputed independently from as_pixels for all 8 option combinations on solved mazes incl. percolation mazes with isolated cells; isolated-cell removal and pixel extension pointwise; item flags and batch order.'
LEVEL_NOTE = 'Trusted: torch stacking; as_pixels is covered by C10.'
TECHNIQUE = "contracts on the leaf functions discharged by z3 (pyvc) + bounded stand-in of the contract-based verifier: run-time checking of the real code against an independent executable statement over an enumerated scope (the proved leaf functions are listed in evidence; the composition is decided by the bounded stand-in)"
CONTRACT_MODULES = ["contracts.raster"]
PROVE = [("maze_dataset/maze/lattice_maze.py", "_remove_isolated_cells"), ("maze_dataset/dataset/rasterized.py", "_extend_pixels")]
ASSUMPTIONS = []
EXPLANATION = "see DESIGN.md C17"


def run(run):
    from props._std import run_bounded

    if PROVE:
        run.prove(PROVE)
    run_bounded(run, "C17")
