#!/bin/sh
# quiet mutation run: prints only summary + non-discharged labels
D=/var/tmp/mzmut.$$
rm -rf $D; mkdir -p $D; cp -r /repo/maze_dataset $D/
F=$1; E=$2; shift 2
sed -i "$E" $D/$F
diff <(cd /repo && cat $F) $D/$F | head -4
VERIF_REPO=$D /verif/.venv312/bin/python /verif/tools/try_contract.py "$@" 2>&1 | grep -v conda | grep -v " discharged " | grep -v "model:" | cut -c1-220 | head -${MAXL:-14}
rm -rf $D
