"""Sidecar contracts for the token-id codecs (C14): decode against the vocabulary list, for ANY vocabulary (the list is a symbolic module global)."""
from pyvc.contracts import contract, Loop
from pyvc import tys as T

MT = "maze_dataset/tokenization/maze_tokenizer.py"
_N = "len(token_ids)"
_BAD = f"exists(lambda k: token_ids[k] < 0 or token_ids[k] >= len(VOCAB_LIST), (0, {_N}))"


@contract(MT, "MazeTokenizerModular.decode")
class modular_decode:
    params = dict(token_ids=T.ListT(T.Int), joined_tokens=T.Const(False), VOCAB_LIST=T.ListT(T.Str))
    ensures = {
        # decode is position-wise lookup in the vocabulary list (so it inverts an encode that maps a token to its position)
        "C14.decode.len": f"len(result) == {_N}",
        "C14.decode.lookup": f"forall(lambda k: result[k] == VOCAB_LIST[token_ids[k]], (0, {_N}))",
        "C14.decode.ids-valid": f"not {_BAD}",
    }
    # an id outside [0, len) - negative ones included - raises the library's token error, nothing else
    raises = {"TokenError": _BAD}
    loops = {0: Loop(head="for token_id in token_ids", havoc=dict(), inv={"non-negative-so-far": "forall(lambda k: token_ids[k] >= 0, (0, _k))"})}
    result = T.ListT(T.Str)
    options = dict(no_concrete=True)
    props = ["C14"]


_NT = "len(text)"
_UNKNOWN = f"exists(lambda k: text[k] not in VOCAB_TOKEN_TO_INDEX, (0, {_NT}))"


@contract(MT, "MazeTokenizerModular.encode")
class modular_encode:
    params = dict(text=T.ListT(T.Str), VOCAB_TOKEN_TO_INDEX=T.StrDictT())
    ensures = {
        "C14.encode.len": f"len(result) == {_NT}",
        "C14.encode.lookup": f"forall(lambda k: result[k] == VOCAB_TOKEN_TO_INDEX[text[k]], (0, {_NT}))",
        "C14.encode.tokens-known": f"not {_UNKNOWN}",
    }
    # an unknown token raises the library's token error, nothing else
    raises = {"TokenError": _UNKNOWN}
    result = T.ListT(T.Int)
    options = dict(no_concrete=True)
    props = ["C14"]


L = "/verif/contracts/lemmas_src.py"
# the vocabulary facts (decided completely by the bounded stand-in: 4096 distinct tokens, the map is the inverse of the list)
_INVERSE = [
    "forall(lambda i: VOCAB_LIST[i] in VOCAB_TOKEN_TO_INDEX and VOCAB_TOKEN_TO_INDEX[VOCAB_LIST[i]] == i, (0, len(VOCAB_LIST)))",
    "forall_str(lambda t: implies(t in VOCAB_TOKEN_TO_INDEX, 0 <= VOCAB_TOKEN_TO_INDEX[t] and VOCAB_TOKEN_TO_INDEX[t] < len(VOCAB_LIST)"
    " and VOCAB_LIST[VOCAB_TOKEN_TO_INDEX[t]] == t))",
]
_GLOBALS = dict(VOCAB_LIST=T.ListT(T.Str), VOCAB_TOKEN_TO_INDEX=T.StrDictT())


@contract(L, "modular_decode_encode")
class modular_decode_encode:
    """Lemma C14.inverse-1: decode(encode(ts)) == ts for every token list over the vocabulary"""
    params = dict(text=T.ListT(T.Str), **_GLOBALS)
    requires = _INVERSE + ["forall(lambda k: text[k] in VOCAB_TOKEN_TO_INDEX, (0, len(text)))"]
    ensures = {"C14.decode-after-encode": "len(result) == len(text) and forall(lambda k: result[k] == text[k], (0, len(text)))"}
    options = dict(no_concrete=True)
    props = ["C14"]


@contract(L, "modular_encode_decode")
class modular_encode_decode:
    """Lemma C14.inverse-2: encode(decode(ids)) == ids for every id list within [0, len)"""
    params = dict(token_ids=T.ListT(T.Int), **_GLOBALS)
    requires = _INVERSE + ["forall(lambda k: 0 <= token_ids[k] and token_ids[k] < len(VOCAB_LIST), (0, len(token_ids)))"]
    ensures = {"C14.encode-after-decode": "len(result) == len(token_ids) and forall(lambda k: result[k] == token_ids[k], (0, len(token_ids)))"}
    options = dict(no_concrete=True)
    props = ["C14"]


LEGACY = T.RecT("MazeTokenizer", token_arr=T.ListT(T.Str), tokenizer_map=T.StrDictT())
_BADL = "exists(lambda k: tokens[k] < 0 or tokens[k] >= len(self.token_arr), (0, len(tokens)))"
_UNKL = "exists(lambda k: text[k] not in self.tokenizer_map, (0, len(text)))"


@contract(MT, "MazeTokenizer.decode")
class legacy_decode:
    params = dict(self=LEGACY, tokens=T.ListT(T.Int), joined_tokens=T.Const(False))
    ensures = {
        "C14.legacy-decode.len": "len(result) == len(tokens)",
        "C14.legacy-decode.lookup": "forall(lambda k: result[k] == self.token_arr[tokens[k]], (0, len(tokens)))",
        "C14.legacy-decode.ids-valid": f"not {_BADL}",
    }
    raises = {"TokenError": _BADL}
    loops = {0: Loop(head="for token in tokens", havoc=dict(), inv={"non-negative-so-far": "forall(lambda k: tokens[k] >= 0, (0, _k))"})}
    result = T.ListT(T.Str)
    options = dict(no_concrete=True)
    props = ["C14"]


@contract(MT, "MazeTokenizer.encode")
class legacy_encode:
    params = dict(self=LEGACY, text=T.ListT(T.Str))
    ensures = {
        "C14.legacy-encode.len": "len(result) == len(text)",
        "C14.legacy-encode.lookup": "forall(lambda k: result[k] == self.tokenizer_map[text[k]], (0, len(text)))",
        "C14.legacy-encode.tokens-known": f"not {_UNKL}",
    }
    raises = {"TokenError": _UNKL}
    result = T.ListT(T.Int)
    options = dict(no_concrete=True)
    props = ["C14"]


@contract(MT, "MazeTokenizer._tokenizer_map")
class legacy_tokenizer_map:
    """C14: `the token-to-id map is the inverse of the token list` - from the real dict comprehension, for any duplicate-free token list
    (that the three legacy vocabularies are duplicate-free for every max_grid_size is decided completely by the bounded stand-in)"""
    params = dict(self=T.RecT("MazeTokenizer", _token_arr=T.ListT(T.Str)))
    requires = ["forall(lambda a, b: implies(a != b, self._token_arr[a] != self._token_arr[b]), (0, len(self._token_arr)), (0, len(self._token_arr)))"]
    ensures = {
        "C14.legacy-map.inverse": "forall(lambda i: self._token_arr[i] in result and result[self._token_arr[i]] == i, (0, len(self._token_arr)))",
        "C14.legacy-map.only-tokens": "forall_str(lambda t: implies(t in result, 0 <= result[t] and result[t] < len(self._token_arr) and self._token_arr[result[t]] == t))",
    }
    options = dict(no_concrete=True)
    props = ["C14"]
