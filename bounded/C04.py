"""Bounded stand-in for C04: serial generation by the real MazeDataset.generate / from_config as a function of the
configuration only.  Two-run comparisons (bit-identical connection lists and solutions) in one process with the global
RNGs / library state deliberately perturbed in between, digests from fresh interpreters with different PYTHONHASHSEED,
and from_config == generate + configured filters in order with the passed config left untouched.  Labelled bounded."""
from __future__ import annotations

import contextlib
import copy
import hashlib
import itertools
import json
import os
import random
import signal
import subprocess
import sys
import threading
import time
import traceback
import warnings

import numpy as np

from vlib.runner import BoundedResult

GEN_KWARGS = [
    ("gen_dfs", {}),
    ("gen_dfs", {"do_forks": False}),
    ("gen_dfs", {"accessible_cells": 6}),
    ("gen_dfs", {"max_tree_depth": 3}),
    ("gen_wilson", {}),
    ("gen_percolation", {"p": 0.3}),
    ("gen_percolation", {"p": 0.6}),
    ("gen_dfs_percolation", {"p": 0.2}),
    ("gen_prim", {}),
    ("gen_prim", {"accessible_cells": 5}),
]
ENDPOINTS = [
    {},
    {"deadend_end": True, "endpoints_not_equal": True},
    {"allowed_start": [(0, 0), (1, 1)]},
    {"deadend_start": True},
]
HASHSEEDS = ("0", "1", "12345")
PERTURBATIONS = ("none", "reseed-and-draw", "draw-only", "other-datasets", "other-configs", "other-from_config", "fresh-config-object")
FILTER_LISTS = [
    [("path_length", {"min_length": 3}), ("start_end_distance", {"min_distance": 2}), ("truncate_count", {"max_count": 3})],
    [("truncate_count", {"max_count": 4}), ("path_length", {"min_length": 3})],
    [("start_end_distance", {"min_distance": 2}), ("path_length", {"min_length": 3})],
    [("truncate_count", {"max_count": 2})],
    [],
]
_MARK = "C04DIGESTS:"


CALL_SECONDS = 30.0  # one generation of these datasets takes milliseconds; longer means it does not terminate
CHILD_SECONDS = 420.0


class Timeout(BaseException):
    """raised by the interval timer inside the call under check (BaseException: not swallowed by `except Exception`)"""


class Abort(Exception):
    """a generation did not terminate: stop the batch (the failure is recorded)"""


@contextlib.contextmanager
def deadline(seconds):
    """raise Timeout in the main thread when the body runs longer than `seconds`; the timer keeps firing every 2 s so that
    clean-up code of the library that blocks while the Timeout unwinds (Pool.terminate()) is interrupted as well"""
    if threading.current_thread() is not threading.main_thread():
        yield
        return
    state = {"active": True}

    def _raise(signum, frame):
        if state["active"]:
            raise Timeout("".join(traceback.format_stack(frame, limit=12)))  # where the main thread was when the time ran out

    old = signal.signal(signal.SIGALRM, _raise)
    signal.setitimer(signal.ITIMER_REAL, seconds, 2.0)
    try:
        yield
    finally:
        while True:
            try:
                state["active"] = False
                signal.setitimer(signal.ITIMER_REAL, 0)
                signal.signal(signal.SIGALRM, old)
                break
            except Timeout:  # fired between the statements above
                continue


def _tup(x):
    return tuple(int(v) for v in x)


def norm_cfg(d):
    ep = {}
    for k, v in (d.get("endpoint") or {}).items():
        ep[k] = [_tup(c) for c in v] if isinstance(v, (list, tuple)) else v
    filters = []
    for f in d.get("filters") or []:
        if len(f) == 3 and not isinstance(f[1], dict):  # recorded flat form [name, argument name, value]
            filters.append((str(f[0]), {str(f[1]): int(f[2])}))
        else:
            filters.append((str(f[0]), {str(k): int(v) for k, v in dict(f[1]).items()}))
    return {
        "name": str(d.get("name", "c04")),
        "grid_n": int(d["grid_n"]),
        "n_mazes": int(d["n_mazes"]),
        "gen": str(d["gen"]),
        "kwargs": dict(d.get("kwargs") or {}),
        "endpoint": ep,
        "seed": int(d["seed"]),
        "filters": filters,
    }


def rec_cfg(d):
    """the configuration as recorded in a failure input: shallow, JSON-able (filters as flat [name, argument, value] triples)"""
    out = dict(d)
    out["filters"] = [[n, k, v] for n, kw in d.get("filters", []) for k, v in kw.items()]
    return out


def make_cfg(d, with_filters=True):
    from maze_dataset import MazeDatasetConfig
    from maze_dataset.generation.generators import GENERATORS_MAP

    kw = {}
    if with_filters and d.get("filters"):
        kw["applied_filters"] = [dict(name=n, args=(), kwargs=dict(k)) for n, k in d["filters"]]
    return MazeDatasetConfig(
        name=d["name"],
        grid_n=d["grid_n"],
        n_mazes=d["n_mazes"],
        maze_ctor=GENERATORS_MAP[d["gen"]],
        maze_ctor_kwargs=dict(d["kwargs"]),
        endpoint_kwargs={k: (list(v) if isinstance(v, list) else v) for k, v in d["endpoint"].items()},
        seed=d["seed"],
        **kw,
    )


def outcome_of(fn):
    """('ok', [(conn, solution), ...]) or ('raises', exception type name)"""
    try:
        with deadline(CALL_SECONDS):
            ds = fn()
    except Timeout:
        return ("raises", "no-termination", f"no result within {CALL_SECONDS:.0f} s")
    except Exception as ex:  # noqa: BLE001
        return ("raises", type(ex).__name__, str(ex)[:200])
    return ("ok", [(np.array(m.connection_list), np.array(m.solution)) for m in ds.mazes])


def _stop_if_hung(res, o, d, what):
    if o[0] == "raises" and o[1] == "no-termination":
        res.fail("C04:no-termination", f"{what} did not return within {CALL_SECONDS:.0f} s for {d}", {"cfg": rec_cfg(d)}, "timeout")
        raise Abort()


def gen_outcome(cfg):
    from maze_dataset import MazeDataset

    return outcome_of(lambda: MazeDataset.generate(cfg, gen_parallel=False))


def same_arrays(a, b):
    return a.shape == b.shape and a.dtype == b.dtype and np.array_equal(a, b)


def diff_outcomes(o1, o2):
    """None if bit-identical, else a one-line description of the first difference"""
    if o1[0] != o2[0]:
        return f"first run {o1[0]} {o1[1] if o1[0]=='raises' else ''}, second run {o2[0]} {o2[1] if o2[0]=='raises' else ''}"
    if o1[0] == "raises":
        return None if o1[1] == o2[1] else f"raises {o1[1]} then {o2[1]}"
    if len(o1[1]) != len(o2[1]):
        return f"{len(o1[1])} mazes then {len(o2[1])} mazes"
    for i, ((c1, s1), (c2, s2)) in enumerate(zip(o1[1], o2[1])):
        if not same_arrays(c1, c2):
            return f"maze {i}: connection lists differ"
        if not same_arrays(s1, s2):
            return f"maze {i}: solutions differ ({s1.tolist()} vs {s2.tolist()})"
    return None


def digest(o):
    if o[0] == "raises":
        return "raises:" + o[1]
    h = hashlib.sha256()
    for c, s in o[1]:
        h.update(repr((c.shape, str(c.dtype), s.shape, str(s.dtype))).encode())
        h.update(np.ascontiguousarray(c).tobytes())
        h.update(np.ascontiguousarray(s).tobytes())
    return h.hexdigest()


# ---------------------------------------------------------------------------------------------- perturbations
def perturb(kind, rng):
    """deliberately change every piece of global state a generation could depend on"""
    import torch
    from maze_dataset import MazeDataset

    if kind == "none":
        return
    if kind == "reseed-and-draw":
        random.seed(int(rng.integers(0, 2 ** 30)))
        [random.random() for _ in range(int(rng.integers(1, 9)))]
        np.random.seed(int(rng.integers(0, 2 ** 30)))
        np.random.rand(int(rng.integers(1, 9)))
        torch.manual_seed(int(rng.integers(0, 2 ** 30)))
        torch.rand(1)
    elif kind == "draw-only":
        [random.random() for _ in range(int(rng.integers(1, 9)))]
        random.randint(0, 5)
        np.random.rand(int(rng.integers(1, 9)))
        np.random.randint(0, 10, size=3)
        np.random.choice(7, size=2, replace=False)
        torch.rand(int(rng.integers(1, 4)))
    elif kind == "other-datasets":
        for gen, kw, seed in (("gen_wilson", {}, int(rng.integers(0, 999))), ("gen_dfs_percolation", {"p": 0.3}, int(rng.integers(0, 999))), ("gen_dfs", {}, 42)):
            other = make_cfg(norm_cfg({"name": "other", "grid_n": int(rng.integers(2, 6)), "n_mazes": int(rng.integers(1, 4)), "gen": gen, "kwargs": kw, "endpoint": {}, "seed": seed}))
            try:
                MazeDataset.generate(other, gen_parallel=False)
            except ValueError:
                pass
    elif kind == "other-configs":
        for _ in range(3):
            make_cfg(norm_cfg({"name": "othercfg", "grid_n": 3, "n_mazes": 2, "gen": "gen_dfs", "kwargs": {}, "endpoint": {}, "seed": int(rng.integers(0, 2 ** 20))}))
        np.random.rand(2)
    elif kind == "other-from_config":
        other = make_cfg(norm_cfg({"name": "otherfc", "grid_n": 4, "n_mazes": 5, "gen": "gen_dfs", "kwargs": {}, "endpoint": {}, "seed": int(rng.integers(0, 999)),
                                   "filters": [("path_length", {"min_length": 2})]}))
        try:
            MazeDataset.from_config(other, load_local=False, save_local=False, do_download=False)
        except ValueError:
            pass
        random.random()
    else:
        raise KeyError(kind)


# ---------------------------------------------------------------------------------------------- checks
def check_same_process(res, d, rng, kinds=PERTURBATIONS):
    d = norm_cfg(d)
    d = {**d, "filters": []}
    ckey = repr(sorted(d.items()))
    cfg = make_cfg(d)
    first = gen_outcome(cfg)
    _stop_if_hung(res, first, d, "serial generation")
    ok = True
    if first[0] == "raises" and first[1] != "ValueError":
        res.fail("C04:generate-raises", f"serial generation raised {first[1]}: {first[2]} for {d}", {"cfg": rec_cfg(d)}, list(first))
        ok = False
    for kind in kinds:
        if kind == "fresh-config-object":
            perturb("draw-only", rng)
            cfg_k = make_cfg(d)  # a new, equal configuration object (constructing it reseeds the global RNGs)
            perturb("draw-only", rng)
        else:
            perturb(kind, rng)
            cfg_k = cfg
        again = gen_outcome(cfg_k)
        _stop_if_hung(res, again, d, "serial generation")
        res.seen((ckey, kind, digest(again)), nontrivial=(again[0] == "ok"), sample={"cfg": d, "perturbation": kind, "digest": digest(again)})
        df = diff_outcomes(first, again)
        if df is not None:
            ok = False
            res.fail("C04:same-process", f"two serial generations of the same configuration differ after perturbation '{kind}': {df} [{d['gen']} {d['kwargs']} grid {d['grid_n']} n {d['n_mazes']} seed {d['seed']} endpoint {d['endpoint']}]",
                     {"cfg": rec_cfg(d), "perturbation": kind}, df)
    return ok


def _child_env(hashseed):
    import maze_dataset

    env = dict(os.environ)
    here = os.path.dirname(os.path.dirname(os.path.abspath(__file__)))
    root = os.path.dirname(os.path.dirname(os.path.abspath(maze_dataset.__file__)))
    inherited = env.get("PYTHONPATH", "")
    # the inherited PYTHONPATH already names the tree under check; prepend it explicitly so the child cannot pick another copy
    env["PYTHONPATH"] = os.pathsep.join([root, here] + ([inherited] if inherited else []))
    env["PYTHONHASHSEED"] = str(hashseed)
    env["PYTHONDONTWRITEBYTECODE"] = "1"
    env.setdefault("MPLBACKEND", "Agg")
    return env


def _child_main():
    """runs in a fresh interpreter: read config dicts (JSON on stdin), print their digests"""
    warnings.simplefilter("ignore")
    job = json.load(sys.stdin)
    cfgs = [norm_cfg(d) for d in job["cfgs"]]
    order = list(range(len(cfgs)))
    if job.get("reverse"):
        order.reverse()  # a different history of library use before each generation
    out = [None] * len(cfgs)
    for k in order:
        d = {**cfgs[k], "filters": []}
        out[k] = digest(gen_outcome(make_cfg(d)))
    sys.stdout.write("\n" + _MARK + json.dumps({"digests": out, "hashseed": os.environ.get("PYTHONHASHSEED"), "hash_probe": hash("maze") % 1000}) + "\n")


def child_digests(cfgs, hashseeds=HASHSEEDS):
    """{hashseed: [digest per config]} computed by fresh interpreters started concurrently"""
    procs = {}
    for n, hs in enumerate(hashseeds):
        p = subprocess.Popen([sys.executable, "-W", "ignore", "-c", "from bounded import C04; C04._child_main()"],
                             stdin=subprocess.PIPE, stdout=subprocess.PIPE, stderr=subprocess.PIPE, env=_child_env(hs), text=True)
        procs[hs] = (p, json.dumps({"cfgs": cfgs, "reverse": n % 2 == 1}))
    # feed and collect (communicate sequentially; the children already run concurrently, inputs are small)
    out = {}
    try:
        for hs, (p, payload) in procs.items():
            so, se = p.communicate(payload, timeout=CHILD_SECONDS)
            line = [ln for ln in so.splitlines() if ln.startswith(_MARK)]
            if p.returncode != 0 or not line:
                raise RuntimeError(f"child interpreter (PYTHONHASHSEED={hs}) failed rc={p.returncode}: {se[-1500:]}")
            out[hs] = json.loads(line[-1][len(_MARK):])
    finally:
        for p, _ in procs.values():
            if p.poll() is None:
                p.kill()
                try:
                    p.communicate(timeout=10)
                except Exception:  # noqa: BLE001
                    pass
    return out


def check_hashseed(res, cfgs, hashseeds=HASHSEEDS):
    cfgs = [{**norm_cfg(d), "filters": []} for d in cfgs]
    here = []
    for d in cfgs:
        o = gen_outcome(make_cfg(d))
        _stop_if_hung(res, o, d, "serial generation")
        here.append(digest(o))
    kids = child_digests(cfgs, hashseeds)
    probes = {hs: kids[hs]["hash_probe"] for hs in kids}
    ok = True
    for k, d in enumerate(cfgs):
        for hs in hashseeds:
            got = kids[hs]["digests"][k]
            res.seen((repr(sorted(d.items())), hs, got), nontrivial=not got.startswith("raises"), sample={"cfg": d, "hashseed": hs, "digest": got})
            if got != here[k]:
                ok = False
                res.fail("C04:hashseed", f"digest of the dataset generated in a fresh interpreter with PYTHONHASHSEED={hs} differs from the in-process digest "
                         f"[{d['gen']} {d['kwargs']} grid {d['grid_n']} n {d['n_mazes']} seed {d['seed']} endpoint {d['endpoint']}]",
                         {"cfg": rec_cfg(d), "hashseed": hs}, {"in_process": here[k], "child": got, "all_children": {h: kids[h]["digests"][k] for h in kids}})
    if len(set(probes.values())) < 2 and len(hashseeds) > 1:
        res.errors.append(f"PYTHONHASHSEED had no effect on str hashing in the child interpreters ({probes}); the comparison is vacuous")
    return ok


def _expected_after(mazes, filters):
    """the documented meaning of the three filters, applied in order, on (conn, solution) pairs"""
    cur = list(mazes)
    for name, kw in filters:
        if name == "path_length":
            cur = [m for m in cur if len(m[1]) >= kw["min_length"]]
        elif name == "start_end_distance":
            cur = [m for m in cur if abs(int(m[1][0][0]) - int(m[1][-1][0])) + abs(int(m[1][0][1]) - int(m[1][-1][1])) >= kw["min_distance"]]
        elif name == "truncate_count":
            cur = cur[: kw["max_count"]]
        else:
            raise KeyError(name)
    return cur


def _ser(cfg):
    return json.dumps(cfg.serialize(), sort_keys=True, default=repr)


def check_from_config(res, d, rng):
    from maze_dataset import MazeDataset

    d = norm_cfg(d)
    ckey = repr(sorted(d.items()))
    inp = {"cfg": rec_cfg(d)}
    tag = f"[{d['gen']} {d['kwargs']} grid {d['grid_n']} n {d['n_mazes']} seed {d['seed']} filters {d['filters']}]"
    ok = True
    cfg = make_cfg(d)
    ser0 = _ser(cfg)
    filters0 = copy.deepcopy(cfg.applied_filters)
    n0 = cfg.n_mazes
    perturb("draw-only", rng)
    got = outcome_of(lambda: MazeDataset.from_config(cfg, load_local=False, save_local=False, do_download=False))
    _stop_if_hung(res, got, d, "from_config")
    ser1 = _ser(cfg)
    res.seen((ckey, "from_config", digest(got)), nontrivial=(got[0] == "ok"), sample={"cfg": d, "digest": digest(got)})
    if ser1 != ser0 or cfg.n_mazes != n0:
        ok = False
        res.fail("C04:from_config:cfg-modified", f"from_config changed the configuration object it was given (serialize() before != after) {tag}", inp, {"before": ser0[:600], "after": ser1[:600]})
    f1 = cfg.applied_filters
    if not (isinstance(f1, list) and len(f1) == len(filters0) and all(a.get("name") == b.get("name") and dict(a.get("kwargs", {})) == dict(b.get("kwargs", {})) and tuple(a.get("args", ())) == tuple(b.get("args", ())) for a, b in zip(f1, filters0))):
        ok = False
        res.fail("C04:from_config:cfg-modified", f"from_config changed cfg.applied_filters of the configuration it was given: {filters0} -> {f1} {tag}", inp, repr(f1)[:600])
    # reference: generate(cfg), then the same filters by hand through the public filter namespace, in list order
    perturb("reseed-and-draw", rng)
    base_ds = None
    try:
        with deadline(CALL_SECONDS):
            base_ds = MazeDataset.generate(make_cfg(d), gen_parallel=False)
        base = ("ok", [(np.array(m.connection_list), np.array(m.solution)) for m in base_ds.mazes])
    except Timeout:
        base = ("raises", "no-termination", "")
        _stop_if_hung(res, base, d, "serial generation")
    except Exception as ex:  # noqa: BLE001
        base = ("raises", type(ex).__name__, str(ex)[:200])
    if base[0] == "raises":
        if got[0] != "raises" or got[1] != base[1]:
            ok = False
            res.fail("C04:from_config:filters", f"generate raises {base[1]} but from_config gave {got[0]} {got[1] if got[0]=='raises' else ''} {tag}", inp, [list(base)[:2], got[0]])
        elif base[1] != "ValueError":
            ok = False
            res.fail("C04:generate-raises", f"serial generation raised {base[1]}: {base[2]} {tag}", inp, list(base))
        return ok
    if got[0] == "raises":
        res.fail("C04:from_config:raises", f"from_config raised {got[1]}: {got[2]} although generate succeeds {tag}", inp, list(got))
        return False
    hand = base_ds
    for name, kw in d["filters"]:
        hand = getattr(hand.filter_by, name)(**kw)
    hand_o = ("ok", [(np.array(m.connection_list), np.array(m.solution)) for m in hand.mazes])
    df = diff_outcomes(hand_o, got)
    if df is not None:
        ok = False
        res.fail("C04:from_config:filters", f"from_config != generate(cfg) followed by the configured filters in order via filter_by: {df} {tag}", inp, df)
    exp = ("ok", _expected_after(base[1], d["filters"]))
    df = diff_outcomes(exp, got)
    if df is not None:
        ok = False
        res.fail("C04:from_config:filter-meaning", f"from_config != generate(cfg) filtered by the documented meaning of the filters in order: {df} {tag}", inp, df)
    return ok


# ---------------------------------------------------------------------------------------------- enumeration
def _configs(tier, rng):
    thorough = tier == "thorough"
    grids = (2, 3, 4, 5, 6) if thorough else (3, 5)
    nms = (1, 3, 8) if thorough else (1, 5)
    eps = ENDPOINTS if thorough else ENDPOINTS[:3]
    k = 0
    for (gen, kw), grid_n, ep in itertools.product(GEN_KWARGS, grids, eps):
        n_mazes = nms[k % len(nms)]
        # seeds: the library default, small ones, a large one, and seeded random ones
        seeds = [(42, 0, 1, 2 ** 31 - 1, 12345)[k % 5], int(rng.integers(0, 2 ** 20))]
        if thorough:
            seeds += [int(rng.integers(0, 2 ** 31 - 1)), (7, 43)[k % 2]]
        k += 1
        for seed in seeds:
            yield {"name": "c04", "grid_n": grid_n, "n_mazes": n_mazes, "gen": gen, "kwargs": kw, "endpoint": ep, "seed": seed}


def _from_config_configs(tier, rng):
    thorough = tier == "thorough"
    k = 0
    for (gen, kw), fl in itertools.product(GEN_KWARGS, FILTER_LISTS):
        for rep in range(3 if thorough else 1):
            yield {"name": "c04fc", "grid_n": (4, 5, 3, 6)[k % 4], "n_mazes": (8, 12, 5)[k % 3], "gen": gen, "kwargs": kw, "endpoint": ENDPOINTS[(k // 2) % 2] if k % 4 else {},
                   "seed": (42, 3, int(rng.integers(0, 2 ** 20)))[k % 3], "filters": fl}
            k += 1


def run(tier, seed):
    warnings.simplefilter("ignore")
    rng = np.random.default_rng(seed)
    thorough = tier == "thorough"
    fns = ["MazeDataset.generate", "GPTDatasetConfig.__post_init__", "_maze_gen_init_worker", "GPTDataset.from_config", "GPTDataset._apply_filters_from_config"]
    res_a = BoundedResult(
        "C04.same-process",
        rule="generators x constructor kwargs (10) x grid_n " + ("2..6" if thorough else "{3,5}") + " x endpoint options x seeds (42, 0, 1, 2^31-1, 12345 rotating + seeded random): "
        "generate serially once, then again after each of the perturbations " + "/".join(PERTURBATIONS) + " (python random, numpy global RNG, torch RNG reseeded and/or advanced; other datasets generated; "
        "other configs constructed; other from_config call; a freshly constructed equal config) and compare per maze with np.array_equal (+shape, dtype); one evaluation per (config, perturbation); "
        "non-trivial = generation returned a dataset (a ValueError must repeat as a ValueError)",
        exhaustive=False,
        functions=fns,
    )
    res_b = BoundedResult(
        "C04.hashseed",
        rule="the same configurations (every " + ("2nd" if thorough else "3rd") + ") generated in three fresh interpreters with PYTHONHASHSEED in {0,1,12345} (one of them in reverse order): sha256 over shapes, dtypes and bytes of "
        "all connection lists and solutions must equal the in-process digest; one evaluation per (config, hashseed)",
        exhaustive=False,
        functions=fns,
    )
    res_c = BoundedResult(
        "C04.from_config",
        rule="generators x kwargs (10) x 5 filter lists over path_length(min_length=3), start_end_distance(min_distance=2), truncate_count in different orders (incl. empty): "
        "from_config(cfg, load_local=False, save_local=False, do_download=False) must equal generate(cfg) + filters by hand via filter_by in order, and + the documented filter meaning; "
        "cfg.serialize() and cfg.applied_filters unchanged",
        exhaustive=False,
        functions=fns,
    )
    cfgs = []
    t0 = time.time()
    try:
        import maze_dataset  # noqa: F401

        cfgs = list(_configs(tier, rng))
        for d in cfgs:
            check_same_process(res_a, d, rng)
            if len(res_a.failures) >= 50:
                break
    except Abort:
        pass
    except Exception as ex:  # noqa: BLE001
        res_a.errors.append(f"{type(ex).__name__}: {ex}\n{traceback.format_exc(limit=6)}")
    res_a.seconds = time.time() - t0
    t0 = time.time()
    try:
        step = 2 if thorough else 3
        check_hashseed(res_b, cfgs[::step])
    except Abort:
        pass
    except Exception as ex:  # noqa: BLE001
        res_b.errors.append(f"{type(ex).__name__}: {ex}\n{traceback.format_exc(limit=6)}")
    res_b.seconds = time.time() - t0
    t0 = time.time()
    try:
        for d in _from_config_configs(tier, rng):
            check_from_config(res_c, d, rng)
            if len(res_c.failures) >= 50:
                break
    except Abort:
        pass
    except Exception as ex:  # noqa: BLE001
        res_c.errors.append(f"{type(ex).__name__}: {ex}\n{traceback.format_exc(limit=6)}")
    res_c.seconds = time.time() - t0
    return [res_a, res_b, res_c]


def replay(check, inp):
    """re-run one recorded configuration through the check that reported it (all three when unknown)"""
    warnings.simplefilter("ignore")
    res = BoundedResult("replay", "replay")
    d = norm_cfg(inp["cfg"])
    rng = np.random.default_rng(0)
    name = str(check or "")
    try:
        if "hashseed" in name or "hashseed" in inp:
            check_hashseed(res, [d], HASHSEEDS)
        elif "from_config" in name or d["filters"]:
            check_from_config(res, d, rng)
        else:
            check_same_process(res, d, rng)
            if not name:
                check_hashseed(res, [d], HASHSEEDS)
    except Abort:
        pass
    for e in res.errors:
        print("  harness error:", e[:300])
    for f in res.failures[:10]:
        print("  still failing:", f["key"], f["what"][:300])
    return not res.failures and not res.errors
