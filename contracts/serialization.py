"""Sidecar contracts for the minimal storage formats of MazeDataset (C05)."""
from pyvc.contracts import contract, Loop, REGISTRY
from pyvc import tys as T

MD = "maze_dataset/dataset/maze_dataset.py"
LM = "maze_dataset/maze/lattice_maze.py"
REGISTRY.class_files.update({"MazeDataset": MD, "SolvedMaze": LM, "LatticeMaze": LM, "TargetedLatticeMaze": LM})
REGISTRY.inlinable.update({(MD, "MazeDataset.__len__"), (MD, "MazeDataset.__getitem__")})

SOLVED = T.RecT(
    "SolvedMaze",
    connection_list=T.GridT("bool", [2, None, None]),
    solution=T.GridT("int", [None, 2], min_dim=1),
    start_pos=T.Coord,
    end_pos=T.Coord,
)
# n_mazes is deliberately unconstrained: the configured count may be stale (it is not compared, and datasets are built from sub-lists)
CFG = T.RecT("MazeDatasetConfig", grid_n=T.Nat, n_mazes=T.Int)
# generation metadata already collected (or none to collect): the branch that calls the filter machinery is outside the subset
DATASET = T.RecT("MazeDataset", cfg=CFG, mazes=T.ListT(SOLVED), generation_metadata_collected=T.Const({"collected": True}))


@contract(LM, "SolvedMaze.__init__")
class solved_maze_init:
    """verified against the real body; the dataclass-generated initialiser of the base class is the trusted part (stores the fields, runs
    TargetedLatticeMaze.__post_init__, which is itself under contract)"""
    params = dict(self=T.RecT("SolvedMaze"), connection_list=T.GridT("bool", [2, None, None]), solution=T.GridT("int", [None, 2]), generation_meta=T.Const(None))
    ensures = {
        "fields": "same_grid(result.connection_list, connection_list) and same_grid(result.solution, solution)",
        "start": "result.start_pos[0] == solution[0][0] and result.start_pos[1] == solution[0][1]",
        "end": "result.end_pos[0] == solution[solution.shape[0] - 1][0] and result.end_pos[1] == solution[solution.shape[0] - 1][1]",
        "nonempty": "solution.shape[0] >= 1",
        "C09.ends-in-grid": "in_grid(result, result.start_pos) and in_grid(result, result.end_pos)",
    }
    raises = {"ValueError": "solution.shape[0] == 0 or not in_grid(maze_of(connection_list), solution[0]) or not in_grid(maze_of(connection_list), solution[solution.shape[0] - 1])"}
    result = SOLVED
    props = ["C05", "C03", "C09"]


@contract(MD, "MazeDataset.__init__", notes="verified against its body; trusted: super().__init__() of torch Dataset has no effect")
class maze_dataset_init:
    params = dict(self=T.RecT("MazeDataset"), cfg=CFG, mazes=T.ListT(SOLVED), generation_metadata_collected=T.Const(None))
    ensures = {
        "cfg": "same_value(result.cfg, cfg)",
        "mazes.len": "len(result.mazes) == len(mazes)",
        "mazes": "forall(lambda k: same_grid(result.mazes[k].connection_list, mazes[k].connection_list) and same_grid(result.mazes[k].solution, mazes[k].solution)"
        " and result.mazes[k].start_pos[0] == mazes[k].start_pos[0] and result.mazes[k].start_pos[1] == mazes[k].start_pos[1]"
        " and result.mazes[k].end_pos[0] == mazes[k].end_pos[0] and result.mazes[k].end_pos[1] == mazes[k].end_pos[1], (0, len(mazes)))",
    }
    result = T.RecT("MazeDataset", cfg=CFG, mazes=T.ListT(SOLVED), generation_metadata_collected=T.Const(None))
    props = ["C05"]


_N = "len(self.mazes)"


@contract(MD, "MazeDataset._serialize_minimal")
class serialize_minimal:
    params = dict(self=DATASET)
    lets = dict(g="self.cfg.grid_n")
    requires = [
        f"{_N} >= 1",  # max() of an empty sequence raises; `serialize` selects this format only for len >= threshold
        f"{_N} < 2 ** 31",
        # every maze has the configured grid size and int8 coordinates (Coord = Int8[...]; the vocabulary only reaches 50)
        f"forall(lambda k: self.mazes[k].connection_list.shape == (2, g, g), (0, {_N}))",
        f"forall(lambda k: self.mazes[k].solution.shape[0] < 2 ** 31, (0, {_N}))",
        f"forall(lambda k, t, c: implies(t < self.mazes[k].solution.shape[0], -128 <= self.mazes[k].solution[t, c] and self.mazes[k].solution[t, c] <= 127), (0, {_N}), (0, 2 ** 31), (0, 2))",
    ]
    ensures = {
        "C05.min.format": "result['__format__'] == 'MazeDataset:minimal'",
        "C05.min.shapes": f"result['maze_connection_lists'].shape == ({_N}, 2, g, g) and result['maze_solution_lengths'].shape == ({_N},)"
        f" and result['maze_solutions'].shape[0] == {_N} and result['maze_solutions'].shape[2] == 2",
        "C05.min.connection_lists": f"forall(lambda k, d, i, j: result['maze_connection_lists'][k, d, i, j] == self.mazes[k].connection_list[d, i, j], (0, {_N}), (0, 2), (0, g), (0, g))",
        "C05.min.lengths": f"forall(lambda k: result['maze_solution_lengths'][k] == self.mazes[k].solution.shape[0], (0, {_N}))",
        "C05.min.solutions": f"forall(lambda k: self.mazes[k].solution.shape[0] <= result['maze_solutions'].shape[1]"
        f" and forall(lambda t, c: result['maze_solutions'][k, t, c] == self.mazes[k].solution[t, c], (0, self.mazes[k].solution.shape[0]), (0, 2)), (0, {_N}))",
    }
    loops = {
        0: Loop(
            head="for idx, maze in enumerate(filtered_meta.mazes)",
            havoc=dict(
                maze_connection_lists=T.GridT("bool", [None, 2, None, None]),
                maze_solution_lengths=T.GridT("int", [None], dtype="int32"),
                maze_solutions=T.GridT("int", [None, None, 2], dtype="int8"),
            ),
            inv={
                "shapes": f"maze_connection_lists.shape == ({_N}, 2, g, g) and maze_solution_lengths.shape == ({_N},) and maze_solutions.shape == ({_N}, max_solution_len, 2)",
                "connection_lists": "forall(lambda k, d, i, j: maze_connection_lists[k, d, i, j] == self.mazes[k].connection_list[d, i, j], (0, _k), (0, 2), (0, g), (0, g))",
                "lengths": "forall(lambda k: maze_solution_lengths[k] == self.mazes[k].solution.shape[0], (0, _k))",
                "solutions": "forall(lambda k: forall(lambda t, c: maze_solutions[k, t, c] == self.mazes[k].solution[t, c], (0, self.mazes[k].solution.shape[0]), (0, 2)), (0, _k))",
            },
        )
    }
    props = ["C05"]


def _cfg_load_identity(interp, st, args, kwargs, node):
    """MazeDatasetConfig.load(serialized cfg): muutils rebuilds the configuration (trusted; C18's bounded check covers it)"""
    from pyvc.npmodel4 import _trust

    _trust("MazeDatasetConfig.load(cfg.serialize()) is cfg (muutils field walk; checked by C18's bounded stand-in)")
    return args[0]


REGISTRY.assumed_methods[("MazeDatasetConfig", "load")] = _cfg_load_identity

MINIMAL = T.PyDictT(
    __format__=T.Const("MazeDataset:minimal"),
    cfg=CFG,
    generation_metadata_collected=T.Const(None),
    maze_connection_lists=T.GridT("bool", [None, 2, None, None]),
    maze_solution_lengths=T.GridT("int", [None]),
    maze_solutions=T.GridT("int", [None, None, 2]),
)
_NM = "data['maze_connection_lists'].shape[0]"


@contract(MD, "MazeDataset._load_minimal")
class load_minimal:
    params = dict(cls=T.ClassT(MD, "MazeDataset"), data=MINIMAL)
    requires = [
        f"data['maze_solution_lengths'].shape[0] == {_NM} and data['maze_solutions'].shape[0] == {_NM}",
        # what _serialize_minimal writes: every stored length is at least 1 and fits the padded solutions array; endpoints inside the grid
        f"forall(lambda k: 1 <= data['maze_solution_lengths'][k] and data['maze_solution_lengths'][k] <= data['maze_solutions'].shape[1], (0, {_NM}))",
        f"forall(lambda k: in_grid(maze_of(data['maze_connection_lists'][k]), data['maze_solutions'][k, 0])"
        f" and in_grid(maze_of(data['maze_connection_lists'][k]), data['maze_solutions'][k, data['maze_solution_lengths'][k] - 1]), (0, {_NM}))",
    ]
    ensures = {
        "C05.load.count": f"len(result.mazes) == {_NM}",
        "C05.load.connection_lists": f"forall(lambda k: same_grid(result.mazes[k].connection_list, data['maze_connection_lists'][k]), (0, {_NM}))",
        "C05.load.solutions": f"forall(lambda k: result.mazes[k].solution.shape == (data['maze_solution_lengths'][k], 2)"
        f" and forall(lambda t, c: result.mazes[k].solution[t, c] == data['maze_solutions'][k, t, c], (0, data['maze_solution_lengths'][k]), (0, 2)), (0, {_NM}))",
        "C05.load.ends": f"forall(lambda k: result.mazes[k].start_pos[0] == data['maze_solutions'][k, 0, 0] and result.mazes[k].start_pos[1] == data['maze_solutions'][k, 0, 1]"
        f" and result.mazes[k].end_pos[0] == data['maze_solutions'][k, data['maze_solution_lengths'][k] - 1, 0]"
        f" and result.mazes[k].end_pos[1] == data['maze_solutions'][k, data['maze_solution_lengths'][k] - 1, 1], (0, {_NM}))",
    }
    result = T.RecT("MazeDataset", cfg=CFG, mazes=T.ListT(SOLVED), generation_metadata_collected=T.Const(None))
    props = ["C05"]


serialize_minimal.result = lambda env: T.PyDictT(
    __format__=T.Const("MazeDataset:minimal"),
    cfg=CFG,
    generation_metadata_collected=T.Const(None),
    maze_connection_lists=T.GridT("bool", [None, 2, None, None]),
    maze_solution_lengths=T.GridT("int", [None]),
    maze_solutions=T.GridT("int", [None, None, 2]),
)
_ND = "len(ds.mazes)"


@contract("/verif/contracts/lemmas_src.py", "minimal_roundtrip")
class minimal_roundtrip:
    """Lemma C05.min: load_minimal(serialize_minimal(ds)) has the same number of mazes in the same order with identical
    connection structure, solution, start and end - a pure consequence of the two contracts."""
    params = dict(ds=DATASET)
    lets = dict(g="ds.cfg.grid_n")
    requires = [r.replace("self.", "ds.") for r in serialize_minimal.requires] + [
        # invariants of SolvedMaze objects: start/end are the solution's ends and lie in the grid
        f"forall(lambda k: ds.mazes[k].start_pos[0] == ds.mazes[k].solution[0][0] and ds.mazes[k].start_pos[1] == ds.mazes[k].solution[0][1]"
        f" and ds.mazes[k].end_pos[0] == ds.mazes[k].solution[ds.mazes[k].solution.shape[0] - 1][0]"
        f" and ds.mazes[k].end_pos[1] == ds.mazes[k].solution[ds.mazes[k].solution.shape[0] - 1][1]"
        f" and in_grid(ds.mazes[k], ds.mazes[k].start_pos) and in_grid(ds.mazes[k], ds.mazes[k].end_pos), (0, {_ND}))",
    ]
    ensures = {
        "C05.roundtrip.count": f"len(result.mazes) == {_ND}",
        "C05.roundtrip.connection_lists": f"forall(lambda k: same_grid(result.mazes[k].connection_list, ds.mazes[k].connection_list), (0, {_ND}))",
        "C05.roundtrip.solutions": f"forall(lambda k: same_grid(result.mazes[k].solution, ds.mazes[k].solution), (0, {_ND}))",
        "C05.roundtrip.ends": f"forall(lambda k: result.mazes[k].start_pos[0] == ds.mazes[k].start_pos[0] and result.mazes[k].start_pos[1] == ds.mazes[k].start_pos[1]"
        f" and result.mazes[k].end_pos[0] == ds.mazes[k].end_pos[0] and result.mazes[k].end_pos[1] == ds.mazes[k].end_pos[1], (0, {_ND}))",
    }
    props = ["C05"]


# ------------------------------------------------------------------------------ minimal format with concatenated solutions
_LENS = "[m.solution.shape[0] for m in self.mazes]"


@contract(MD, "MazeDataset._serialize_minimal_soln_cat")
class serialize_minimal_soln_cat:
    params = dict(self=DATASET)
    lets = dict(g="self.cfg.grid_n")
    requires = [r for r in serialize_minimal.requires if not r.startswith(f"{_N} >= 1")] + [
        f"forall(lambda k: self.mazes[k].solution.shape[0] >= 1, (0, {_N}))",
        f"psum({_LENS}, {_N}) < 2 ** 31",
        # endpoints are int8 coordinates too
        f"forall(lambda k, c: -128 <= self.mazes[k].start_pos[c] and self.mazes[k].start_pos[c] <= 127 and -128 <= self.mazes[k].end_pos[c] and self.mazes[k].end_pos[c] <= 127, (0, {_N}), (0, 2))",
    ]
    entry_lemmas = [f"psum_monotone({_LENS})"]
    ensures = {
        "C05.cat.format": "result['__format__'] == 'MazeDataset:minimal_soln_cat'",
        "C05.cat.shapes": f"result['maze_connection_lists'].shape == ({_N}, 2, g, g) and result['maze_solution_lengths'].shape == ({_N},)"
        f" and result['maze_solutions_concat'].shape == (psum({_LENS}, {_N}), 2)",
        "C05.cat.connection_lists": f"forall(lambda k, d, i, j: result['maze_connection_lists'][k, d, i, j] == self.mazes[k].connection_list[d, i, j], (0, {_N}), (0, 2), (0, g), (0, g))",
        "C05.cat.lengths": f"forall(lambda k: result['maze_solution_lengths'][k] == self.mazes[k].solution.shape[0], (0, {_N}))",
        # the k-th solution sits at offset (sum of the earlier lengths) of the concatenation
        "C05.cat.solutions": f"forall(lambda k, t, c: implies(t < self.mazes[k].solution.shape[0],"
        f" result['maze_solutions_concat'][psum({_LENS}, k) + t, c] == self.mazes[k].solution[t, c]), (0, {_N}), (0, 2 ** 31), (0, 2))",
    }
    loops = {
        0: Loop(
            head="for idx, maze in enumerate(filtered_meta.mazes)",
            havoc=dict(
                maze_connection_lists=T.GridT("bool", [None, 2, None, None]),
                maze_endpoints=T.GridT("int", [None, 2, 2], dtype="int8"),
                maze_solution_lengths=T.GridT("int", [None], dtype="int32"),
                maze_solutions_concat=T.GridT("int", [None, 2], dtype="int8"),
                solutions_running_idx=T.Int,
            ),
            inv={
                "shapes": f"maze_connection_lists.shape == ({_N}, 2, g, g) and maze_solution_lengths.shape == ({_N},) and maze_solutions_concat.shape == (psum({_LENS}, {_N}), 2)"
                f" and maze_endpoints.shape == ({_N}, 2, 2)",
                "running": f"solutions_running_idx == psum({_LENS}, _k)",
                "connection_lists": "forall(lambda k, d, i, j: maze_connection_lists[k, d, i, j] == self.mazes[k].connection_list[d, i, j], (0, _k), (0, 2), (0, g), (0, g))",
                "lengths": f"forall(lambda k: maze_solution_lengths[k] == self.mazes[k].solution.shape[0], (0, {_N}))",
                "solutions": f"forall(lambda k, t, c: implies(t < self.mazes[k].solution.shape[0],"
                f" maze_solutions_concat[psum({_LENS}, k) + t, c] == self.mazes[k].solution[t, c]), (0, _k), (0, 2 ** 31), (0, 2))",
            },
            lemmas=[f"psum_monotone({_LENS})"],
        )
    }
    result = lambda env: T.PyDictT(
        __format__=T.Const("MazeDataset:minimal_soln_cat"),
        cfg=CFG,
        generation_metadata_collected=T.Const(None),
        maze_connection_lists=T.GridT("bool", [None, 2, None, None]),
        maze_endpoints=T.GridT("int", [None, 2, 2]),
        maze_solution_lengths=T.GridT("int", [None]),
        maze_solutions_concat=T.GridT("int", [None, 2]),
    )
    props = ["C05"]


CAT = T.PyDictT(
    __format__=T.Const("MazeDataset:minimal_soln_cat"),
    cfg=CFG,
    generation_metadata_collected=T.Const(None),
    maze_connection_lists=T.GridT("bool", [None, 2, None, None]),
    maze_solution_lengths=T.GridT("int", [None]),
    maze_solutions_concat=T.GridT("int", [None, 2]),
)
_NC = "data['maze_connection_lists'].shape[0]"
_OFF = "psum(data['maze_solution_lengths'], k)"


@contract(MD, "MazeDataset._load_minimal_soln_cat")
class load_minimal_soln_cat:
    params = dict(cls=T.ClassT(MD, "MazeDataset"), data=CAT)
    requires = [
        f"data['maze_solution_lengths'].shape[0] == {_NC}",
        # what _serialize_minimal_soln_cat writes: every stored length at least 1, the concatenation exactly as long as their sum, endpoints in the grid
        f"forall(lambda k: 1 <= data['maze_solution_lengths'][k], (0, {_NC}))",
        f"data['maze_solutions_concat'].shape[0] == psum(data['maze_solution_lengths'], {_NC})",
        f"forall(lambda k: in_grid(maze_of(data['maze_connection_lists'][k]), data['maze_solutions_concat'][{_OFF}])"
        f" and in_grid(maze_of(data['maze_connection_lists'][k]), data['maze_solutions_concat'][{_OFF} + data['maze_solution_lengths'][k] - 1]), (0, {_NC}))",
    ]
    entry_lemmas = ["psum_monotone(data['maze_solution_lengths'])"]
    ensures = {
        "C05.catload.count": f"len(result.mazes) == {_NC}",
        "C05.catload.connection_lists": f"forall(lambda k: same_grid(result.mazes[k].connection_list, data['maze_connection_lists'][k]), (0, {_NC}))",
        "C05.catload.solutions": f"forall(lambda k: result.mazes[k].solution.shape == (data['maze_solution_lengths'][k], 2)"
        f" and forall(lambda t, c: result.mazes[k].solution[t, c] == data['maze_solutions_concat'][{_OFF} + t, c], (0, data['maze_solution_lengths'][k]), (0, 2)), (0, {_NC}))",
        "C05.catload.starts": f"forall(lambda k: result.mazes[k].start_pos[0] == data['maze_solutions_concat'][{_OFF}, 0] and result.mazes[k].start_pos[1] == data['maze_solutions_concat'][{_OFF}, 1], (0, {_NC}))",
        "C05.catload.ends": f"forall(lambda k: result.mazes[k].end_pos[0] == data['maze_solutions_concat'][{_OFF} + data['maze_solution_lengths'][k] - 1, 0]"
        f" and result.mazes[k].end_pos[1] == data['maze_solutions_concat'][{_OFF} + data['maze_solution_lengths'][k] - 1, 1], (0, {_NC}))",
    }
    result = T.RecT("MazeDataset", cfg=CFG, mazes=T.ListT(SOLVED), generation_metadata_collected=T.Const(None))
    props = ["C05"]


_NDS = "len(ds.mazes)"


@contract("/verif/contracts/lemmas_src.py", "soln_cat_roundtrip")
class soln_cat_roundtrip:
    """Lemma C05.cat: load_minimal_soln_cat(serialize_minimal_soln_cat(ds)) has the same number of mazes in the same order with identical
    connection structure, solution, start and end - a pure consequence of the two contracts."""
    params = dict(ds=DATASET)
    lets = dict(g="ds.cfg.grid_n")
    # the stored lengths agree entry by entry with the solution lengths, hence so do their prefix sums (the offsets)
    lemma_after = {"d = ds._serialize_minimal_soln_cat()": ["psum_congruence(d['maze_solution_lengths'], [m.solution.shape[0] for m in ds.mazes], len(ds.mazes))",
                                                             "psum_monotone([m.solution.shape[0] for m in ds.mazes])"]}
    requires = [r.replace("self.", "ds.") for r in serialize_minimal_soln_cat.requires] + [
        f"forall(lambda k: ds.mazes[k].start_pos[0] == ds.mazes[k].solution[0][0] and ds.mazes[k].start_pos[1] == ds.mazes[k].solution[0][1]"
        f" and ds.mazes[k].end_pos[0] == ds.mazes[k].solution[ds.mazes[k].solution.shape[0] - 1][0]"
        f" and ds.mazes[k].end_pos[1] == ds.mazes[k].solution[ds.mazes[k].solution.shape[0] - 1][1]"
        f" and in_grid(ds.mazes[k], ds.mazes[k].start_pos) and in_grid(ds.mazes[k], ds.mazes[k].end_pos), (0, {_NDS}))",
    ]
    ensures = {
        "C05.cat-roundtrip.count": f"len(result.mazes) == {_NDS}",
        "C05.cat-roundtrip.connection_lists": f"forall(lambda k: same_grid(result.mazes[k].connection_list, ds.mazes[k].connection_list), (0, {_NDS}))",
        "C05.cat-roundtrip.solutions": f"forall(lambda k: same_grid(result.mazes[k].solution, ds.mazes[k].solution), (0, {_NDS}))",
        "C05.cat-roundtrip.ends": f"forall(lambda k: result.mazes[k].start_pos[0] == ds.mazes[k].start_pos[0] and result.mazes[k].start_pos[1] == ds.mazes[k].start_pos[1]"
        f" and result.mazes[k].end_pos[0] == ds.mazes[k].end_pos[0] and result.mazes[k].end_pos[1] == ds.mazes[k].end_pos[1], (0, {_NDS}))",
    }
    props = ["C05"]


# ------------------------------------------------------------------------------ format selection and dispatch
@contract(MD, "MazeDataset._serialize_full", assumed=True, notes="trusted: muutils json_serialize walks the dataclass fields (reflection); the full format is decided by the bounded stand-in")
class serialize_full:
    params = dict(self=DATASET)
    ensures = {"format": "result['__format__'] == 'MazeDataset'"}
    result = T.PyDictT(__format__=T.Const("MazeDataset"))
    props = ["C05"]


@contract(MD, "MazeDataset.serialize")
class serialize:
    """which storage format the size threshold selects (SERIALIZE_MINIMAL_THRESHOLD is a module global: any value)"""
    params = dict(self=DATASET, SERIALIZE_MINIMAL_THRESHOLD=T.OneOf(T.NoneT(), T.Int))
    lets = dict(g="self.cfg.grid_n")
    requires = [r for r in serialize_minimal.requires if not r.startswith(f"{_N} >= 1")]
    ensures = {
        # minimal exactly when a threshold is set and the dataset is at least that long (an empty dataset is always written in full)
        "C05.format-selection": f"(result['__format__'] == 'MazeDataset:minimal') == (SERIALIZE_MINIMAL_THRESHOLD is not None and {_N} >= SERIALIZE_MINIMAL_THRESHOLD and {_N} > 0)",
        "C05.format-selection.else-full": f"result['__format__'] == 'MazeDataset:minimal' or result['__format__'] == 'MazeDataset'",
    }
    options = dict(no_concrete=True)
    props = ["C05"]


@contract(MD, "MazeDataset.load")
class load:
    """dispatch on the stored format: both minimal formats reach their own loader (whose contracts carry the content)"""
    params = dict(cls=T.ClassT(MD, "MazeDataset"), data=T.OneOf(MINIMAL, CAT), SERIALIZE_MINIMAL_THRESHOLD=T.OneOf(T.NoneT(), T.Int))
    # the respective loader's preconditions (what the respective serializer writes)
    requires = ["((" + ") and (".join(load_minimal.requires) + ")) if has_key(data, 'maze_solutions') else ((" + ") and (".join(load_minimal_soln_cat.requires) + "))"]
    entry_lemmas = ["True if has_key(data, 'maze_solutions') else psum_monotone(data['maze_solution_lengths'])"]
    ensures = {
        "C05.load-dispatch.count": "len(result.mazes) == data['maze_connection_lists'].shape[0]",
        "C05.load-dispatch.connection_lists": "forall(lambda k: same_grid(result.mazes[k].connection_list, data['maze_connection_lists'][k]), (0, data['maze_connection_lists'].shape[0]))",
        "C05.load-dispatch.solution-lengths": "forall(lambda k: result.mazes[k].solution.shape[0] == data['maze_solution_lengths'][k], (0, data['maze_connection_lists'].shape[0]))",
    }
    result = T.RecT("MazeDataset", cfg=CFG, mazes=T.ListT(SOLVED), generation_metadata_collected=T.Const(None))
    options = dict(no_concrete=True)
    props = ["C05"]
