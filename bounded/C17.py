"""Bounded stand-in for C17: the rasterized input/target images of a solved maze.

The real `process_maze_rasterized_input_target`, `_remove_isolated_cells`, `_extend_pixels`, `RasterizedMazeDataset.__getitem__` and
`get_batch` (imported from the tree under check) are compared, pixel by pixel, with images recomputed here from the statement,
starting from `P = maze.as_pixels()` (whose faithfulness is C10's business):
  input  = P with PATH pixels shown OPEN (START/END kept);
  target = WALL everywhere except PATH pixels shown OPEN and START/END kept coloured (OPEN when endpoints_as_open);
  remove_isolated_cells: a non-wall pixel all of whose 4-neighbours are wall (outside the image counts as wall) becomes WALL, every
  other pixel is unchanged;   extend_pixels: every pixel doubled in both directions plus a one-pixel WALL frame, shape (2H+2, 2W+2, 3);
  order: isolated-cell removal first, then extension;  get_batch(idxs)[0][k] / [1][k] = input / target of item idxs[k].
Labelled bounded, never counted as proved.

Stable failure keys:
  C17:raises  C17:shape                 the call raises / is not a [2, H, W, 3] tensor of the stated size
  C17:input   C17:target  C17:target-endpoints   (no post-processing) wrong input image / target image / only START,END pixels of the target wrong
  C17:isolated  C17:extend  C17:postprocess-order   the option (alone / both) changes the images differently from the statement
  C17:isolated-fn  C17:extend-fn        `_remove_isolated_cells` / `_extend_pixels` called directly on seeded colour images
  C17:getitem-flags                     dataset[i] differs from the statement for the dataset's three config flags
  C17:batch-shape  C17:batch-order  C17:batch-raises
"""
from __future__ import annotations

import itertools
import random
import time
import traceback
import warnings

import numpy as np

from vlib import pyspec as S
from vlib.runner import BoundedResult

WALL, OPEN, START, END, PATH = 0, 1, 2, 3, 4
NAMES = ("WALL", "OPEN", "START", "END", "PATH")
FLAG_NAMES = ("remove_isolated_cells", "extend_pixels", "endpoints_as_open")
ALL_FLAGS = list(itertools.product((False, True), repeat=3))
PER_KEY = 2


# ------------------------------------------------------------------------------------------------ plumbing
class Rep:
    def __init__(self, res):
        self.res = res
        self.counts = {}

    def fail(self, key, what, inp, observed=None):
        n = self.counts.get(key, 0)
        self.counts[key] = n + 1
        if n < PER_KEY:
            self.res.fail(key, what, {**inp, "key": key}, observed)

    def finish(self, t0):
        first = set()
        for f in self.res.failures:
            if f["key"] not in first:
                first.add(f["key"])
                f["what"] = f"{f['what']}   [{self.counts[f['key']]} occurrence(s) of this key in this check]"
        self.res.seconds = time.time() - t0


def colours():
    from maze_dataset.maze import PixelColors as PC

    return [np.array(getattr(PC, n), dtype=np.uint8) for n in NAMES]


def classify(img):
    out = np.full(img.shape[:2], -1, dtype=np.int8)
    for k, col in enumerate(colours()):
        out[(img == col).all(axis=-1)] = k
    return out


def paint(cls_img):
    cols = colours()
    out = np.zeros((*cls_img.shape, 3), dtype=np.uint8)
    for k, col in enumerate(cols):
        out[cls_img == k] = col
    return out


def flags_dict(flags):
    return dict(zip(FLAG_NAMES, (bool(f) for f in flags)))


def maze_json(m):
    return {"conn": np.asarray(m.connection_list).astype(np.bool_), "solution": [[int(x) for x in c] for c in np.asarray(m.solution)]}


def maze_from_json(j):
    from maze_dataset.maze import SolvedMaze

    return SolvedMaze(connection_list=np.array(j["conn"], dtype=np.bool_), solution=np.array(j["solution"], dtype=int))


# ------------------------------------------------------------------------------------------------ the statement, executable
def spec_remove_isolated(cls_img):
    H, W = cls_img.shape
    out = cls_img.copy()
    for p in range(H):
        for q in range(W):
            if cls_img[p, q] == WALL:
                continue
            has_open_neighbour = False
            for dp, dq in ((1, 0), (-1, 0), (0, 1), (0, -1)):
                pp, qq = p + dp, q + dq
                if 0 <= pp < H and 0 <= qq < W and cls_img[pp, qq] != WALL:
                    has_open_neighbour = True
            if not has_open_neighbour:
                out[p, q] = WALL
    return out


def spec_extend(cls_img):
    H, W = cls_img.shape
    out = np.full((2 * H + 2, 2 * W + 2), WALL, dtype=cls_img.dtype)
    for p in range(H):
        for q in range(W):
            for dp in (0, 1):
                for dq in (0, 1):
                    out[1 + 2 * p + dp, 1 + 2 * q + dq] = cls_img[p, q]
    return out


def spec_pair(pcls, rm, ext, eao, order="remove-then-extend"):
    """(input, target) class images for the class image `pcls` of maze.as_pixels()"""
    inp = pcls.copy()
    inp[pcls == PATH] = OPEN
    tgt = np.full(pcls.shape, WALL, dtype=pcls.dtype)
    tgt[pcls == PATH] = OPEN
    tgt[pcls == START] = OPEN if eao else START
    tgt[pcls == END] = OPEN if eao else END
    out = []
    for img in (inp, tgt):
        if order == "remove-then-extend":
            if rm:
                img = spec_remove_isolated(img)
            if ext:
                img = spec_extend(img)
        else:
            if ext:
                img = spec_extend(img)
            if rm:
                img = spec_remove_isolated(img)
        out.append(img)
    return out


class SpecCache:
    """spec images of one maze for all flag combinations (the class image of as_pixels() is computed once)"""

    def __init__(self, maze):
        self.P = np.asarray(maze.as_pixels())
        self.pcls = classify(self.P)
        self.cache = {}

    def get(self, flags):
        flags = tuple(bool(f) for f in flags)
        if flags not in self.cache:
            self.cache[flags] = [paint(x) for x in spec_pair(self.pcls, *flags)]
        return self.cache[flags]


def to_np(t):
    return t.detach().cpu().numpy() if hasattr(t, "detach") else np.asarray(t)


def first_diff(got, want):
    bad = np.argwhere((got != want).any(axis=-1))
    p, q = (int(x) for x in bad[0])
    return {"pixel": [p, q], "got": got[p, q].tolist(), "expected": want[p, q].tolist(), "n_wrong": int(len(bad))}


# ------------------------------------------------------------------------------------------------ one maze
def check_process(rep, maze, spec=None, tag="hand"):
    from maze_dataset.dataset.rasterized import process_maze_rasterized_input_target

    spec = spec or SpecCache(maze)
    mj = maze_json(maze)
    ok = {}
    H, W = spec.pcls.shape
    if (spec.pcls == -1).any():
        rep.fail("C17:input", "maze.as_pixels() contains a colour outside the five pixel colours", {**mj, "stage": "process"}, None)
        return
    for flags in sorted(ALL_FLAGS, key=lambda f: (f[0] + f[1], f)):  # no post-processing first, then one option, then both
        rm, ext, eao = flags
        inp = {**mj, "flags": flags_dict(flags), "stage": "process"}
        rep.res.seen((mj["conn"].shape, mj["conn"].tobytes(), tuple(map(tuple, mj["solution"])), flags), nontrivial=len(mj["solution"]) > 1,
                     sample={"shape": list(mj["conn"].shape[1:]), "solution": mj["solution"], "flags": flags_dict(flags), "source": tag})
        try:
            out = process_maze_rasterized_input_target(maze, remove_isolated_cells=rm, extend_pixels=ext, endpoints_as_open=eao)
        except Exception as e:  # noqa: BLE001
            rep.fail("C17:raises", f"process_maze_rasterized_input_target raises {type(e).__name__}: {str(e)[:80]}", inp, f"{type(e).__name__}: {e}")
            ok[flags] = False
            continue
        arr = to_np(out)
        want_in, want_tg = spec.get(flags)
        eshape = (2, 2 * H + 2, 2 * W + 2, 3) if ext else (2, H, W, 3)
        if type(out).__name__ != "Tensor" or arr.shape != eshape:
            ok[flags] = False
            # a wrong size that only shows with extend_pixels is the extension's fault
            key = "C17:extend" if ext and ok.get((False, False, eao), True) and ok.get((rm, False, eao), True) else "C17:shape"
            rep.fail(key, f"result is a {type(out).__name__} of shape {tuple(arr.shape)}, expected a tensor of shape {eshape}", inp, list(arr.shape))
            continue
        good_in, good_tg = np.array_equal(arr[0], want_in), np.array_equal(arr[1], want_tg)
        ok[flags] = good_in and good_tg
        if ok[flags]:
            continue
        base_ok = ok.get((False, False, eao), True)
        if not rm and not ext:
            if not good_in:
                rep.fail("C17:input", "input image is not the maze's pixel image with the solution shown as open", inp, first_diff(arr[0], want_in))
            if not good_tg:
                bad = (arr[1] != want_tg).any(axis=-1)
                only_ends = bool(np.isin(spec.pcls[bad], (START, END)).all())
                rep.fail("C17:target-endpoints" if only_ends else "C17:target", "target image is not wall + solution pixels open + endpoints " + ("open" if eao else "coloured"), inp, first_diff(arr[1], want_tg))
            continue
        if not base_ok:
            continue  # already reported without post-processing
        which = "input" if not good_in else "target"
        d = first_diff(arr[0], want_in) if not good_in else first_diff(arr[1], want_tg)
        if rm and not ext:
            rep.fail("C17:isolated", f"remove_isolated_cells: {which} image differs from `non-wall pixels with four wall neighbours become wall, nothing else changes`", inp, d)
        elif ext and not rm:
            rep.fail("C17:extend", f"extend_pixels: {which} image is not the doubled image in a one-pixel wall frame", inp, d)
        elif ok.get((True, False, eao), True) and ok.get((False, True, eao), True):
            rep.fail("C17:postprocess-order", f"both options: {which} image differs from isolated-cell removal followed by extension", inp, d)


def check_functions(rep, rng, n):
    """_remove_isolated_cells and _extend_pixels directly, on seeded colour images with many isolated pixels"""
    for _k in range(n):
        H, W = int(rng.integers(1, 9)), int(rng.integers(1, 9))
        pw = float(rng.choice([0.5, 0.7, 0.85]))
        cls_img = rng.choice(5, size=(H, W), p=[pw] + [(1 - pw) / 4] * 4).astype(np.int8)
        check_functions_on(rep, cls_img)


def check_functions_on(rep, cls_img):
    from maze_dataset.dataset.rasterized import _extend_pixels
    from maze_dataset.maze.lattice_maze import _remove_isolated_cells

    img = paint(cls_img)
    inp = {"stage": "functions", "image_classes": cls_img}
    rep.res.seen(("fn", cls_img.shape, cls_img.tobytes()), nontrivial=bool((cls_img != WALL).any()), sample=None)
    for name, fn, spec_fn, key in (("_remove_isolated_cells", _remove_isolated_cells, spec_remove_isolated, "C17:isolated-fn"), ("_extend_pixels", _extend_pixels, spec_extend, "C17:extend-fn")):
        before = img.copy()
        try:
            got = np.asarray(fn(img))
        except Exception as e:  # noqa: BLE001
            rep.fail(key, f"{name} raises {type(e).__name__}: {str(e)[:80]}", inp, f"{type(e).__name__}: {e}")
            continue
        want = paint(spec_fn(cls_img))
        if got.shape != want.shape:
            rep.fail(key, f"{name} of a {cls_img.shape} image has shape {got.shape}, expected {want.shape}", inp, list(got.shape))
        elif not np.array_equal(got, want):
            rep.fail(key, f"{name} differs from the statement on a seeded colour image", inp, first_diff(got, want))
        if not np.array_equal(img, before):
            rep.fail(key, f"{name} modifies its argument", inp, None)


# ------------------------------------------------------------------------------------------------ datasets
def make_dataset(mazes, grid_n, flags):
    from maze_dataset import MazeDataset, MazeDatasetConfig
    from maze_dataset.dataset.rasterized import RasterizedMazeDataset

    base = MazeDataset(cfg=MazeDatasetConfig(name="c17", grid_n=grid_n, n_mazes=len(mazes)), mazes=mazes)
    return RasterizedMazeDataset.from_base_MazeDataset(base, added_params=flags_dict(flags))


def index_lists(n, rng):
    out = [None, [0], [n - 1], list(range(n)), list(range(n))[::-1]]
    if n >= 2:
        out += [[n - 1, 0, n - 1, n - 1], [1, 1], [int(x) for x in rng.integers(0, n, size=n + 2)], [int(x) for x in rng.permutation(n)]]
    return out


def check_dataset(rep, mazes, grid_n, flags, idx_lists, specs=None):
    specs = specs or [SpecCache(m) for m in mazes]
    mjs = [maze_json(m) for m in mazes]
    base_inp = {"stage": "dataset", "mazes": mjs, "grid_n": grid_n, "flags": flags_dict(flags)}
    try:
        ds = make_dataset(mazes, grid_n, flags)
    except Exception as e:  # noqa: BLE001
        rep.fail("C17:getitem-flags", f"RasterizedMazeDataset.from_base_MazeDataset raises {type(e).__name__}: {str(e)[:80]}", base_inp, f"{type(e).__name__}: {e}")
        return
    want = [specs[i].get(flags) for i in range(len(mazes))]
    # C17.input-target-images checks the image function on these very mazes and flags; where it already disagrees with the statement
    # the items are compared with its own output, so that the keys below only speak about flag passing and stacking order
    from maze_dataset.dataset.rasterized import process_maze_rasterized_input_target

    for i, m in enumerate(mazes):
        try:
            ref = to_np(process_maze_rasterized_input_target(m, **flags_dict(flags)))
        except Exception:  # noqa: BLE001
            continue
        if ref.shape[0] == 2 and not (ref[0].shape == want[i][0].shape and np.array_equal(ref[0], want[i][0]) and np.array_equal(ref[1], want[i][1])):
            want[i] = [ref[0], ref[1]]
    for i in range(len(mazes)):
        rep.res.seen(("item", mjs[i]["conn"].tobytes(), tuple(map(tuple, mjs[i]["solution"])), flags), nontrivial=True)
        try:
            item = to_np(ds[i])
        except Exception as e:  # noqa: BLE001
            rep.fail("C17:getitem-flags", f"dataset[{i}] raises {type(e).__name__}: {str(e)[:80]}", {**base_inp, "i": i}, f"{type(e).__name__}: {e}")
            continue
        if item.shape != (2, *want[i][0].shape) or not np.array_equal(item[0], want[i][0]) or not np.array_equal(item[1], want[i][1]):
            rep.fail("C17:getitem-flags", f"dataset[{i}] is not the input/target pair for the dataset's flags {flags_dict(flags)}", {**base_inp, "i": i}, list(item.shape))
            if item.shape[0] == 2:
                want[i] = [item[0], item[1]]  # reported; the batch check below is about stacking order only
    for idxs in idx_lists:
        eff = list(range(len(mazes))) if idxs is None else list(idxs)
        inp = {**base_inp, "idxs": idxs}
        rep.res.seen(("batch", len(mazes), tuple(m["conn"].tobytes() for m in mjs), flags, None if idxs is None else tuple(idxs)), nontrivial=len(set(eff)) > 1 or len(eff) != len(mazes),
                     sample={"n_mazes": len(mazes), "grid_n": grid_n, "flags": flags_dict(flags), "idxs": idxs})
        try:
            b = to_np(ds.get_batch(idxs))
        except Exception as e:  # noqa: BLE001
            rep.fail("C17:batch-raises", f"get_batch({idxs}) raises {type(e).__name__}: {str(e)[:80]}", inp, f"{type(e).__name__}: {e}")
            continue
        eshape = (2, len(eff), *want[eff[0]][0].shape)
        if b.shape != eshape:
            rep.fail("C17:batch-shape", f"get_batch({idxs}) has shape {b.shape}, expected {eshape}", inp, list(b.shape))
            continue
        for k, i in enumerate(eff):
            if not np.array_equal(b[0][k], want[i][0]) or not np.array_equal(b[1][k], want[i][1]):
                holds = [j for j in range(len(mazes)) if np.array_equal(b[0][k], want[j][0]) and np.array_equal(b[1][k], want[j][1])]
                rep.fail("C17:batch-order", f"get_batch({idxs}): position {k} is not the input/target pair of item {i}" + (f" (it is item {holds[0]})" if holds else ""), inp, {"position": k, "expected_item": i, "holds_item": holds})
                break


# ------------------------------------------------------------------------------------------------ maze sources
def generator_configs(n):
    half = max(2, (n * n) // 2)
    return [
        ("gen_dfs", {}),
        ("gen_dfs", {"do_forks": False}),
        ("gen_dfs", {"accessible_cells": half}),
        ("gen_dfs", {"max_tree_depth": max(2, n)}),
        ("gen_wilson", {}),
        ("gen_prim", {}),
        ("gen_percolation", {"p": 0.2}),
        ("gen_percolation", {"p": 0.45}),
        ("gen_percolation", {"p": 0.7}),
        ("gen_dfs_percolation", {"p": 0.1}),
        ("gen_dfs_percolation", {"p": 0.4}),
    ]


def generate(gen_name, kwargs, n, count, seed):
    """`count` solved mazes from a real generator + the real random-path picker; draws the generator declines (e.g. a
    one-cell component has no two endpoints) are skipped - they are not C17's subject"""
    from maze_dataset.generation.generators import get_maze_with_solution

    np.random.seed(seed % (2**32))
    random.seed(seed)
    out, tries = [], 0
    while len(out) < count and tries < count * 25:
        tries += 1
        try:
            m = get_maze_with_solution(gen_name, np.array([n, n]), dict(kwargs))
        except Exception:  # noqa: BLE001
            continue
        out.append(m)
    return out


def hand_built(rng, R, C):
    """SolvedMaze built directly on an independent random structure: oblong grids, shortest and one-cell solutions"""
    from maze_dataset.maze import SolvedMaze

    conn = S.random_conn(rng, R, C, float(rng.choice([0.25, 0.5, 0.75])))
    cells = S.cells((R, C))
    s = cells[int(rng.integers(len(cells)))]
    comp = sorted(S.component(conn, s))
    e = comp[int(rng.integers(len(comp)))]
    paths = S.all_shortest_paths(conn, s, e) if R * C <= 16 else S.all_shortest_paths(conn, s, e)[:3]
    sol = paths[int(rng.integers(len(paths)))]
    return SolvedMaze(connection_list=conn, solution=np.array(sol))


def has_isolated(spec):
    c = spec.pcls.copy()
    c[c == PATH] = OPEN
    return bool((spec_remove_isolated(c) != c).any())


# ------------------------------------------------------------------------------------------------ entry points
def run(tier, seed):
    warnings.simplefilter("ignore")
    rng = np.random.default_rng(seed)
    sizes = list(range(2, 7)) if tier == "quick" else list(range(2, 11))
    per_cfg = 6 if tier == "quick" else 24
    out = []

    t0 = time.time()
    r1 = Rep(BoundedResult(
        "C17.input-target-images",
        rule=f"solved mazes from every generator configuration (dfs, dfs without forks, dfs with limited accessible cells / depth, wilson, prim, "
        f"percolation p=0.2/0.45/0.7, dfs_percolation p=0.1/0.4) x grid sizes {sizes[0]}..{sizes[-1]} x {per_cfg} seeded mazes, plus hand-built "
        "oblong mazes (shortest and one-cell solutions) and seeded colour images for the two post-processing functions; all 8 combinations of "
        "remove_isolated_cells / extend_pixels / endpoints_as_open; every pixel of both images compared with the statement; one evaluation = "
        "one (maze, flag combination); distinct by (bits, solution, flags); non-trivial = solution of at least two cells",
        exhaustive=False,
        functions=["process_maze_rasterized_input_target", "_remove_isolated_cells", "_extend_pixels"],
    ))
    pools = {}
    n_iso = 0
    try:
        for n in sizes:
            for ci, (g, kw) in enumerate(generator_configs(n)):
                ms = generate(g, kw, n, per_cfg, seed * 1000003 + n * 101 + ci)
                for m in ms:
                    sp = SpecCache(m)
                    n_iso += has_isolated(sp)
                    check_process(r1, m, sp, tag=f"{g}{kw}")
                    pools.setdefault(n, []).append((m, sp))
        for R, C in [(1, 2), (2, 1), (1, 5), (2, 5), (5, 3), (3, 7), (6, 4)] + ([(9, 2), (4, 10), (10, 7)] if tier == "thorough" else []):
            for _ in range(per_cfg):
                m = hand_built(rng, R, C)
                sp = SpecCache(m)
                n_iso += has_isolated(sp)
                check_process(r1, m, sp, tag="hand-built")
        check_functions(r1, rng, 120 if tier == "quick" else 800)
        r1.res.rule += f"; {n_iso} of the mazes have at least one isolated non-wall pixel in their input image"
        if n_iso == 0:
            r1.res.errors.append("no maze with an isolated cell was generated: remove_isolated_cells not exercised")
    except Exception as e:  # noqa: BLE001
        r1.res.errors.append(f"{type(e).__name__}: {e}\n{traceback.format_exc(limit=6)}")
    r1.finish(t0)
    out.append(r1.res)

    t0 = time.time()
    r2 = Rep(BoundedResult(
        "C17.dataset-items-and-batches",
        rule="RasterizedMazeDataset.from_base_MazeDataset(base, added_params=flags) for all 8 flag combinations on datasets of 1..6 mazes drawn from "
        "the generated mazes of each grid size (mixed generators): dataset[i] against the statement for the dataset's flags; get_batch(idxs) for "
        "None, single first/last, identity, reversed, repeats, seeded with-replacement and permutation index lists: position k holds item idxs[k]",
        exhaustive=False,
        functions=["RasterizedMazeDataset.__getitem__", "RasterizedMazeDataset.get_batch", "RasterizedMazeDataset.from_base_MazeDataset"],
    ))
    try:
        for n in sizes:
            pool, have = [], set()
            for m, sp in pools.get(n, []):  # distinct mazes only, otherwise the order inside a batch is unobservable
                k = (np.asarray(m.connection_list).tobytes(), np.asarray(m.solution).astype(np.int64).tobytes())
                if k not in have:
                    have.add(k)
                    pool.append((m, sp))
            if not pool:
                continue
            for rep_i in range(3 if tier == "quick" else 8):
                k = min(len(pool), [4, 1, 6, 2][rep_i % 4])
                pick = [pool[int(i)] for i in rng.choice(len(pool), size=k, replace=False)]
                mazes, specs = [p[0] for p in pick], [p[1] for p in pick]
                for flags in ALL_FLAGS:
                    check_dataset(r2, mazes, n, flags, index_lists(len(mazes), rng), specs)
    except Exception as e:  # noqa: BLE001
        r2.res.errors.append(f"{type(e).__name__}: {e}\n{traceback.format_exc(limit=6)}")
    r2.finish(t0)
    out.append(r2.res)
    return out


def replay(check, inp):
    """re-run one recorded input; True iff the recorded key no longer fires on it"""
    warnings.simplefilter("ignore")
    rep = Rep(BoundedResult("replay", "replay"))
    stage = inp.get("stage")
    if stage == "process":
        check_process(rep, maze_from_json(inp))
    elif stage == "functions":
        check_functions_on(rep, np.array(inp["image_classes"], dtype=np.int8))
    elif stage == "dataset":
        mazes = [maze_from_json(j) for j in inp["mazes"]]
        flags = tuple(bool(inp["flags"][n]) for n in FLAG_NAMES)
        lists = [None if inp["idxs"] is None else [int(i) for i in inp["idxs"]]] if "idxs" in inp else []
        check_dataset(rep, mazes, int(inp["grid_n"]), flags, lists)
    else:
        print("  unknown replay stage", stage)
        return False
    fails = rep.res.failures
    if inp.get("key"):
        fails = [f for f in fails if f["key"] == inp["key"]]
    for f in fails:
        print("  still failing:", f["key"], f["what"])
    return not fails
