"""Bounded stand-in for C10: the pixel image and the ASCII drawing of a maze are faithful and invertible.

The real `as_pixels`, `as_ascii`, `from_pixels`, `from_ascii`, `_as_pixels_bw`, `_from_pixel_grid_bw` (imported from the tree
under check) are compared with an image computed here from the statement and the independent lattice spec `vlib.pyspec`:
size (2R+1)x(2C+1), all-wall border, a non-wall pixel on every cell, the pixel between two lattice-adjacent cells open exactly
when `S.edge`, all other pixels wall; START/END on the start/end cells whenever endpoints are requested and the kind has them;
PATH on the solution's cells and the pixels between consecutive solution cells whenever the solution is requested; nothing else
coloured.  The ASCII text must be that picture character for character ('#',' ','S','E','X'); reading either back must return
the same kind with the identical connection_list, start_pos, end_pos and solution in order (start != end, shortest solutions).
Mazes are never compared with `==`.  Labelled bounded, never counted as proved.

Stable failure keys (input class / pixel class, never the values):
  C10:colours                                 the five colours are not pairwise distinct
  C10:pixels:raises  C10:pixels:shape         as_pixels raises on an accepted flag combination / wrong shape or dtype
  C10:pixels:border  C10:pixels:cell  C10:pixels:wall-between  C10:pixels:corner  C10:pixels:unknown-colour
  C10:pixels:start   C10:pixels:end   C10:pixels:path          (missing where required, or present where not allowed)
  C10:pixels:solved-endpoints-without-solution                 SolvedMaze, show_endpoints=True, show_solution=False: START/END cells
  C10:pixels:flags-accepted  C10:pixels:flags-wrong-exception  (show_endpoints=False, show_solution=True) must raise ValueError
  C10:ascii  C10:ascii:raises  C10:ascii:flags-accepted
  C10:from_pixels:raises|kind|connection_list|start|end|solution|solution-order      (same for C10:from_ascii:...)
  C10:from_pixels:lattice-of-solved  C10:from_pixels:lattice-of-targeted
  C10:bw:image  C10:bw:inverse  C10:bw:from_pixels
"""
from __future__ import annotations

import multiprocessing
import os
import time
import traceback
import warnings

import numpy as np

from vlib import pyspec as S
from vlib.runner import BoundedResult

KINDS = ("lattice", "targeted", "solved")
FLAGS = ((True, True), (True, False), (False, False))
WALL, OPEN, START, END, PATH = 0, 1, 2, 3, 4
NAMES = ("WALL", "OPEN", "START", "END", "PATH")
CHARS = {WALL: "#", OPEN: " ", START: "S", END: "E", PATH: "X", -1: "?"}  # the mapping given in the statement of the check
PER_KEY = 2


# ------------------------------------------------------------------------------------------------ plumbing
class Rep:
    """BoundedResult with a per-key cap; exportable from worker processes"""

    def __init__(self, res):
        self.res = res
        self.counts = {}

    def fail(self, key, what, inp, observed=None):
        n = self.counts.get(key, 0)
        self.counts[key] = n + 1
        if n < PER_KEY:
            self.res.fail(key, what, {**inp, "key": key}, observed)

    def export(self):
        r = self.res
        return {"evaluations": r.evaluations, "distinct": r.distinct, "samples": r.samples, "failures": r.failures, "errors": r.errors, "counts": self.counts}

    def merge(self, ex):
        r = self.res
        r.evaluations += ex["evaluations"]
        r.distinct |= ex["distinct"]
        r.samples = (r.samples + ex["samples"])[:3]
        r.errors.extend(ex["errors"])
        got = {}
        for f in r.failures:
            got[f["key"]] = got.get(f["key"], 0) + 1
        for f in ex["failures"]:
            if got.get(f["key"], 0) < PER_KEY:
                got[f["key"]] = got.get(f["key"], 0) + 1
                r.fail(f["key"], f["what"], f["input"], f["observed"])
        for k, v in ex["counts"].items():
            self.counts[k] = self.counts.get(k, 0) + v

    def finish(self, t0):
        first = set()
        for f in self.res.failures:
            if f["key"] not in first:
                first.add(f["key"])
                f["what"] = f"{f['what']}   [{self.counts[f['key']]} occurrence(s) of this key in this check]"
        self.res.seconds = time.time() - t0


def _lib():
    from maze_dataset.maze import LatticeMaze, PixelColors, SolvedMaze, TargetedLatticeMaze

    return {"lattice": LatticeMaze, "targeted": TargetedLatticeMaze, "solved": SolvedMaze}, PixelColors


def colours():
    _, PC = _lib()
    return [tuple(int(x) for x in getattr(PC, n)) for n in NAMES]


def classify(img):
    """RGB image -> class image (index into NAMES, -1 for any other colour)"""
    out = np.full(img.shape[:2], -1, dtype=np.int8)
    for k, col in enumerate(colours()):
        out[(img == np.array(col, dtype=img.dtype)).all(axis=-1)] = k
    return out


def build(kind, conn, start, end, sol):
    K, _ = _lib()
    if kind == "lattice":
        return K[kind](connection_list=conn.copy())
    if kind == "targeted":
        return K[kind](connection_list=conn.copy(), start_pos=np.array(start), end_pos=np.array(end))
    return K[kind](connection_list=conn.copy(), solution=np.array(sol))


# ------------------------------------------------------------------------------------------------ the picture, from the statement
def between(a, b):
    """the pixel between two lattice-adjacent cells: the midpoint of (2a+1) and (2b+1)"""
    return (a[0] + b[0] + 1, a[1] + b[1] + 1)


def spec_base(conn):
    R, C = conn.shape[1:]
    img = np.full((2 * R + 1, 2 * C + 1), WALL, dtype=np.int8)
    for c in S.cells((R, C)):
        img[2 * c[0] + 1, 2 * c[1] + 1] = OPEN
        for n in ((c[0] + 1, c[1]), (c[0], c[1] + 1)):
            if S.edge(conn, c, n):
                img[between(c, n)] = OPEN
    return img


def spec_image(base, kind, start, end, sol, se, ss):
    img = base.copy()
    if kind == "solved" and ss:
        for c in sol:
            img[2 * c[0] + 1, 2 * c[1] + 1] = PATH
        for a, b in zip(sol, sol[1:]):
            img[between(a, b)] = PATH
    if kind in ("targeted", "solved") and se:
        img[2 * start[0] + 1, 2 * start[1] + 1] = START
        img[2 * end[0] + 1, 2 * end[1] + 1] = END
    return img


def pixel_key(p, q, shape, exp, got, kind, flags, start, end):
    H, W = shape
    if got == -1:
        return "C10:pixels:unknown-colour"
    if kind == "solved" and flags == (True, False) and (p, q) in ((2 * start[0] + 1, 2 * start[1] + 1), (2 * end[0] + 1, 2 * end[1] + 1)):
        return "C10:pixels:solved-endpoints-without-solution"
    for cls, name in ((START, "start"), (END, "end"), (PATH, "path")):
        if exp == cls or got == cls:
            return f"C10:pixels:{name}"
    # only WALL/OPEN confusion left
    if p in (0, H - 1) or q in (0, W - 1):
        return "C10:pixels:border"
    if p % 2 == 1 and q % 2 == 1:
        return "C10:pixels:cell"
    if p % 2 == 0 and q % 2 == 0:
        return "C10:pixels:corner"
    return "C10:pixels:wall-between"


# ------------------------------------------------------------------------------------------------ one maze
def check_maze(rep, kind, conn, start=None, end=None, sol=None, base=None):
    K, PC = _lib()
    R, C = conn.shape[1:]
    if kind == "solved":
        start, end = sol[0], sol[-1]
    inp = {
        "kind": kind,
        "conn": conn,
        "start": None if start is None else list(start),
        "end": None if end is None else list(end),
        "solution": None if sol is None else [list(c) for c in sol],
    }
    rep.res.seen(
        (kind, R, C, conn.tobytes(), start, end, None if sol is None else tuple(sol)),
        nontrivial=bool(conn.any()) or kind == "lattice",
        sample={"kind": kind, "shape": [R, C], "conn": conn.astype(int).tolist(), "start": inp["start"], "end": inp["end"], "solution": inp["solution"]},
    )
    if base is None:
        base = spec_base(conn)
    m = build(kind, conn, start, end, sol)
    H, W = 2 * R + 1, 2 * C + 1
    default_img = None
    for flags in FLAGS:
        se, ss = flags
        finp = {**inp, "flags": list(flags)}
        try:
            img = m.as_pixels(show_endpoints=se, show_solution=ss)
        except Exception as e:  # noqa: BLE001
            rep.fail("C10:pixels:raises", f"as_pixels{flags} of a {kind} maze raises {type(e).__name__}: {str(e)[:80]}", finp, f"{type(e).__name__}: {e}")
            continue
        if not isinstance(img, np.ndarray) or img.shape != (H, W, 3) or img.dtype.kind not in "ui":
            rep.fail("C10:pixels:shape", f"as_pixels of a {R}x{C} maze has shape {getattr(img, 'shape', None)}, expected {(H, W, 3)}", finp, str(getattr(img, "shape", None)))
            continue
        if flags == (True, True):
            default_img = img
        got = classify(img)
        exp = spec_image(base, kind, start, end, sol, se, ss)
        bad = np.argwhere(got != exp)
        done = set()
        for p, q in bad:
            p, q = int(p), int(q)
            key = pixel_key(p, q, (H, W), int(exp[p, q]), int(got[p, q]), kind, flags, start, end)
            if key in done:
                continue
            done.add(key)
            g = NAMES[got[p, q]] if got[p, q] >= 0 else f"colour {img[p, q].tolist()}"
            rep.fail(key, f"pixel ({p},{q}) of as_pixels{flags} of a {kind} {R}x{C} maze is {g}, statement says {NAMES[exp[p, q]]}", finp, {"pixel": [p, q], "got": g, "expected": NAMES[exp[p, q]]})
        # the ASCII drawing is the same picture, character for character
        try:
            txt = m.as_ascii(show_endpoints=se, show_solution=ss)
        except Exception as e:  # noqa: BLE001
            rep.fail("C10:ascii:raises", f"as_ascii{flags} of a {kind} maze raises {type(e).__name__}: {str(e)[:80]}", finp, f"{type(e).__name__}: {e}")
        else:
            want = "\n".join("".join(CHARS[int(v)] for v in row) for row in got)
            if txt != want:
                rep.fail("C10:ascii", f"as_ascii{flags} of a {kind} {R}x{C} maze differs from its pixel image mapped to characters", finp, {"ascii": txt, "image_as_text": want})
    # the combination that is not accepted
    finp = {**inp, "flags": [False, True]}
    for name, fn, kacc in (("as_pixels", m.as_pixels, "C10:pixels:flags-accepted"), ("as_ascii", m.as_ascii, "C10:ascii:flags-accepted")):
        try:
            fn(show_endpoints=False, show_solution=True)
        except ValueError:
            pass
        except Exception as e:  # noqa: BLE001
            rep.fail("C10:pixels:flags-wrong-exception", f"{name}(show_endpoints=False, show_solution=True) raises {type(e).__name__}, not ValueError", finp, f"{type(e).__name__}: {e}")
        else:
            rep.fail(kacc, f"{name}(show_endpoints=False, show_solution=True) of a {kind} maze is accepted", finp, "no exception")
    # black-and-white image and its inverse
    try:
        bw = m._as_pixels_bw()
        if bw.shape != (H, W) or bw.dtype != np.bool_ or not np.array_equal(bw, base != WALL):
            rep.fail("C10:bw:image", f"_as_pixels_bw of a {R}x{C} maze is not the open/wall picture of its connection structure", inp, bw.astype(int).tolist())
        else:
            c2, shp = K["lattice"]._from_pixel_grid_bw(bw)
            if tuple(int(x) for x in shp) != (R, C) or c2.shape != conn.shape or not np.array_equal(c2, conn):
                rep.fail("C10:bw:inverse", "_from_pixel_grid_bw(_as_pixels_bw(m)) is not m.connection_list", inp, np.asarray(c2).astype(int).tolist())
            if kind == "lattice":
                lm = K["lattice"].from_pixels(bw)
                if type(lm) is not K["lattice"] or lm.connection_list.shape != conn.shape or not np.array_equal(lm.connection_list, conn):
                    rep.fail("C10:bw:from_pixels", "LatticeMaze.from_pixels(2-D boolean image) does not return the connection structure", inp, lm.connection_list.astype(int).tolist())
    except Exception as e:  # noqa: BLE001
        rep.fail("C10:bw:image", f"_as_pixels_bw/_from_pixel_grid_bw raises {type(e).__name__}: {str(e)[:80]}", inp, f"{type(e).__name__}: {e}")
    # reading back
    if kind != "lattice" and tuple(start) == tuple(end):
        return
    if default_img is not None:
        check_back(rep, "from_pixels", lambda cls: cls.from_pixels(default_img.copy()), K, kind, conn, start, end, sol, inp)
    try:
        txt = m.as_ascii()
    except Exception:  # noqa: BLE001
        txt = None  # reported above
    if txt is not None:
        check_back(rep, "from_ascii", lambda cls: cls.from_ascii(txt), K, kind, conn, start, end, sol, inp)


def check_back(rep, name, read, K, kind, conn, start, end, sol, inp):
    pre = f"C10:{name}:"
    try:
        back = read(K[kind])
    except Exception as e:  # noqa: BLE001
        msg = " ".join(str(e).split())
        rep.fail(pre + "raises", f"{K[kind].__name__}.{name} of the maze's own rendering raises {type(e).__name__}: {msg[:100]}", inp, f"{type(e).__name__}: {msg[:300]}")
        back = None
    if back is not None:
        if type(back) is not K[kind]:
            rep.fail(pre + "kind", f"{K[kind].__name__}.{name} returned a {type(back).__name__}", inp, type(back).__name__)
        cl = np.asarray(back.connection_list)
        if cl.shape != conn.shape or cl.dtype != np.bool_ or not np.array_equal(cl, conn):
            rep.fail(pre + "connection_list", f"{name} does not give back the connection structure", inp, cl.astype(int).tolist())
        if kind != "lattice":
            for f, want in (("start", start), ("end", end)):
                got = getattr(back, f + "_pos", None)
                if got is None or not np.array_equal(np.asarray(got), np.array(want)):
                    rep.fail(pre + f, f"{name} gives {f}_pos {None if got is None else np.asarray(got).tolist()}, maze has {list(want)}", inp, None if got is None else np.asarray(got).tolist())
        if kind == "solved":
            got = getattr(back, "solution", None)
            gl = None if got is None else [tuple(int(x) for x in c) for c in np.asarray(got).reshape(-1, 2)]
            if gl != [tuple(c) for c in sol]:
                key = pre + ("solution-order" if gl is not None and sorted(gl) == sorted(tuple(c) for c in sol) else "solution")
                rep.fail(key, f"{name} gives solution {gl}, maze has {[tuple(c) for c in sol]}", inp, gl)
    # the image of a targeted / solved maze read as a plain LatticeMaze is just the connection structure
    if kind != "lattice" and name == "from_pixels":
        key = f"C10:from_pixels:lattice-of-{kind}"
        try:
            lm = read(K["lattice"])
            if type(lm) is not K["lattice"] or lm.connection_list.shape != conn.shape or not np.array_equal(lm.connection_list, conn):
                rep.fail(key, f"LatticeMaze.from_pixels of a {kind} maze's image is not a plain LatticeMaze with the same connection structure", inp, type(lm).__name__)
        except Exception as e:  # noqa: BLE001
            rep.fail(key, f"LatticeMaze.from_pixels of a {kind} maze's image raises {type(e).__name__}: {str(e)[:80]}", inp, f"{type(e).__name__}: {e}")


# ------------------------------------------------------------------------------------------------ enumeration
def check_conn_all(rep, conn):
    """all three kinds, all ordered start != end pairs, all shortest solutions"""
    base = spec_base(conn)
    cells = S.cells(conn.shape[1:])
    check_maze(rep, "lattice", conn, base=base)
    for s in cells:
        for e in cells:
            if s == e:
                continue
            check_maze(rep, "targeted", conn, s, e, base=base)
            for sol in S.all_shortest_paths(conn, s, e):
                check_maze(rep, "solved", conn, sol=sol, base=base)


def count_shortest(conn, s, e):
    dist = S.bfs_dist(conn, s)
    if e not in dist:
        return 0, dist
    cnt = {s: 1}
    for u in sorted(dist, key=dist.get):
        if u == s:
            continue
        cnt[u] = sum(cnt[v] for v in S.neighbors(conn, u) if dist.get(v, -1) == dist[u] - 1)
    return cnt[e], dist


def some_shortest_paths(conn, s, e, rng, cap):
    """all shortest paths when there are at most `cap`, otherwise `cap` distinct random ones"""
    n, dist = count_shortest(conn, s, e)
    if n == 0:
        return []
    if n <= cap:
        return S.all_shortest_paths(conn, s, e)
    out = set()
    for _ in range(cap * 4):
        path = [e]
        while path[-1] != s:
            prev = [v for v in S.neighbors(conn, path[-1]) if dist.get(v, -1) == dist[path[-1]] - 1]
            path.append(prev[int(rng.integers(len(prev)))])
        out.add(tuple(path[::-1]))
        if len(out) >= cap:
            break
    return [list(p) for p in sorted(out)]


def random_tree(rng, R, C):
    """spanning tree by randomized depth-first search (long winding solutions)"""
    conn = np.zeros((2, R, C), dtype=np.bool_)
    start = (int(rng.integers(R)), int(rng.integers(C)))
    seen, stack = {start}, [start]
    while stack:
        u = stack[-1]
        nb = [v for v in S.lattice_neighbors((R, C), u) if v not in seen]
        if not nb:
            stack.pop()
            continue
        v = nb[int(rng.integers(len(nb)))]
        d = 0 if u[0] != v[0] else 1
        conn[d, min(u[0], v[0]), min(u[1], v[1])] = True
        seen.add(v)
        stack.append(v)
    return conn


def check_conn_sampled(rep, conn, rng, n_pairs, cap):
    base = spec_base(conn)
    R, C = conn.shape[1:]
    cells = S.cells((R, C))
    check_maze(rep, "lattice", conn, base=base)
    if len(cells) < 2:
        return
    for k in range(n_pairs):
        s = cells[int(rng.integers(len(cells)))]
        if k == 0 and max(R, C) >= 128:
            s = (R - 1, C - 1)  # a coordinate beyond the int8 range (coordinates are annotated Int8; nothing may narrow them silently)
        if k % 3 == 2:
            e = cells[int(rng.integers(len(cells)))]  # any cell (targeted mazes need no path)
        else:
            comp = sorted(S.component(conn, s))
            e = comp[int(rng.integers(len(comp)))]
        if e == s:
            continue
        check_maze(rep, "targeted", conn, s, e, base=base)
        for sol in some_shortest_paths(conn, s, e, rng, cap):
            check_maze(rep, "solved", conn, sol=sol, base=base)


def _worker(task):
    warnings.simplefilter("ignore")
    rep = Rep(BoundedResult("w", "w"))
    try:
        if task[0] == "exh":
            _, R, C, idxs = task
            for i in idxs:
                check_conn_all(rep, S.conn_from_index(R, C, i))
        else:
            _, R, C, seed, mode, n_pairs, cap = task
            rng = np.random.default_rng(seed)
            if mode == "tree":
                conn = random_tree(rng, R, C)
            elif mode == "tree+":
                conn = random_tree(rng, R, C) | S.random_conn(rng, R, C, 0.15)
            else:
                conn = S.random_conn(rng, R, C, float(mode))
            check_conn_sampled(rep, conn, rng, n_pairs, cap)
    except Exception as e:  # noqa: BLE001
        rep.res.errors.append(f"task {task[:3]}: {type(e).__name__}: {e}\n{traceback.format_exc(limit=6)}")
    return rep.export()


def tasks_for(tier, rng):
    exh = [(1, 1), (1, 2), (2, 1), (1, 3), (3, 1), (2, 2), (2, 3), (3, 2)]
    tasks = []
    for R, C in exh:
        n = 2 ** len(S.lattice_edge_slots(R, C))
        for lo in range(0, n, 8):
            tasks.append(("exh", R, C, list(range(lo, min(n, lo + 8)))))
    n33 = 2 ** 12
    idx33 = list(range(n33)) if tier == "thorough" else sorted(set(int(x) for x in rng.integers(0, n33, size=150)) | {0, n33 - 1})
    for lo in range(0, len(idx33), 4):
        tasks.append(("exh", 3, 3, idx33[lo : lo + 4]))
    if tier == "quick":
        big = [(4, 4), (5, 5), (3, 6), (6, 2), (1, 6), (5, 1), (7, 7), (4, 9), (12, 12), (10, 3)]
        reps, n_pairs, cap = 2, 8, 6
    else:
        big = [(4, 4), (5, 5), (3, 6), (6, 2), (1, 6), (5, 1), (7, 7), (4, 9), (12, 12), (10, 3), (8, 8), (12, 5), (2, 12), (9, 9), (11, 11), (3, 4), (4, 3)]
        reps, n_pairs, cap = 4, 16, 10
    for R, C in big:
        for mode in ("0.3", "0.5", "0.7", "0.9", "tree", "tree+"):
            for _ in range(reps):
                tasks.append(("smp", R, C, int(rng.integers(2**31)), mode, n_pairs, cap))
    # a dimension above 127: row / column indices that do not fit a signed byte
    for R, C in ((130, 2), (2, 131)):
        tasks.append(("smp", R, C, int(rng.integers(2**31)), "tree", 3, 1))
    tasks.sort(key=lambda t: -(t[1] * t[2]))  # large grids first, so the pool does not finish on a long task
    return tasks


def run(tier, seed):
    warnings.simplefilter("ignore")
    t0 = time.time()
    rng = np.random.default_rng(seed)
    res = BoundedResult(
        "C10.render-and-read-back",
        rule="all connection structures on 1x1,1x2,2x1,1x3,3x1,2x2,2x3,3x2 and "
        + ("all 4096 on 3x3" if tier == "thorough" else "a seeded sample of ~150 of the 4096 on 3x3")
        + "; seeded structures (bond probability 0.3/0.5/0.7/0.9, random spanning trees, trees plus extra bonds) on grids up to 12x12, square and "
        "oblong; per structure: LatticeMaze, TargetedLatticeMaze for every ordered start != end pair, SolvedMaze for every shortest path of every "
        "connected pair (larger grids: seeded pairs; two spanning trees on 130x2 and 2x131 with an endpoint at index > 127, all shortest paths up to a cap, else a random subset); per maze the three accepted "
        "show_endpoints/show_solution combinations, the rejected one, as_ascii, from_pixels, from_ascii, bw image and inverse; one evaluation = "
        "one maze; distinct by (kind, shape, bits, start, end, solution); non-trivial = at least one connection",
        exhaustive=False,
        functions=["LatticeMaze.as_pixels", "LatticeMaze.as_ascii", "LatticeMaze.from_pixels", "LatticeMaze.from_ascii", "LatticeMaze._as_pixels_bw",
                   "LatticeMaze._from_pixel_grid_bw", "LatticeMaze._from_pixel_grid_with_positions", "detect_pixels_type", "color_in_pixel_grid"],
    )
    rep = Rep(res)
    try:
        cols = colours()
        if len(set(cols)) != 5:
            rep.fail("C10:colours", "the five pixel colours are not pairwise distinct", {"colours": [list(c) for c in cols]}, cols)
        tasks = tasks_for(tier, rng)
        nproc = max(1, min(16, os.cpu_count() or 1))
        if nproc > 1:
            with multiprocessing.get_context("fork").Pool(nproc) as pool:
                for ex in pool.imap_unordered(_worker, tasks, chunksize=1):
                    rep.merge(ex)
        else:
            for t in tasks:
                rep.merge(_worker(t))
    except Exception as e:  # noqa: BLE001
        res.errors.append(f"{type(e).__name__}: {e}\n{traceback.format_exc(limit=6)}")
    res.failures.sort(key=lambda f: f["key"])
    rep.finish(t0)
    return [res]


def replay(check, inp):
    """re-run one recorded maze; True iff the recorded key no longer fires on it"""
    warnings.simplefilter("ignore")
    rep = Rep(BoundedResult("replay", "replay"))
    if "colours" in inp:
        return len(set(colours())) == 5
    conn = np.array(inp["conn"], dtype=np.bool_)
    tup = lambda c: None if c is None else tuple(int(x) for x in c)  # noqa: E731
    sol = None if inp.get("solution") is None else [tup(c) for c in inp["solution"]]
    check_maze(rep, inp["kind"], conn, tup(inp.get("start")), tup(inp.get("end")), sol)
    fails = rep.res.failures
    if inp.get("key"):
        fails = [f for f in fails if f["key"] == inp["key"]]
    for f in fails:
        print("  still failing:", f["key"], f["what"])
    return not fails
