"""C17 - rasterized input/target images show the problem and only the solution."""
ID = "C17"
LEVEL = "exploration"
LEVEL_TEXT = 'Bounded: input/target images recomputed independently from as_pixels for all 8 option combinations on solved mazes incl. percolation mazes with isolated cells; isolated-cell removal and pixel extension pointwise; item flags and batch order.'
LEVEL_NOTE = 'Trusted: torch stacking; as_pixels is covered by C10.'
TECHNIQUE = "bounded stand-in of the contract-based verifier: run-time checking of the real code against an independent executable statement over an enumerated scope (no function of this property is in the verified subset yet)"
CONTRACT_MODULES = []
PROVE = []
ASSUMPTIONS = []
EXPLANATION = "see DESIGN.md C17"


def run(run):
    from props._std import run_bounded

    if PROVE:
        run.prove(PROVE)
    run_bounded(run, "C17")
