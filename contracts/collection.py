"""Sidecar contracts for maze_dataset/dataset/collected_dataset.py (C16)."""
from pyvc.contracts import contract, Loop, REGISTRY
from pyvc import tys as T

F = "maze_dataset/dataset/collected_dataset.py"
MD = "maze_dataset/dataset/maze_dataset.py"
REGISTRY.class_files.update({"MazeDatasetCollection": F, "MazeDataset": MD})
REGISTRY.inlinable.update({(MD, "MazeDataset.__len__"), (MD, "MazeDataset.__getitem__")})

# a maze is identified by an opaque identity `uid` ("the very maze at position i")
MAZE = T.RecT("SolvedMaze", uid=T.Int)
DATASET = T.RecT("MazeDataset", mazes=T.ListT(MAZE))
COLLECTION = T.RecT("MazeDatasetCollection", maze_datasets=T.ListT(DATASET))

_LENS = "[len(d.mazes) for d in self.maze_datasets]"


@contract(F, "MazeDatasetCollection.dataset_lengths")
class dataset_lengths:
    params = dict(self=COLLECTION)
    ensures = {
        "C16.lengths.len": "len(result) == len(self.maze_datasets)",
        "C16.lengths": "forall(lambda d: result[d] == len(self.maze_datasets[d].mazes), (0, len(self.maze_datasets)))",
    }
    inline = True
    props = ["C16"]


_MONO = f"psum_monotone({_LENS})"


@contract(F, "MazeDatasetCollection.__len__")
class coll_len:
    params = dict(self=COLLECTION)
    entry_lemmas = [_MONO]
    ensures = {"C16.len=sum": f"result == psum({_LENS}, len(self.maze_datasets))", "C16.len>=0": "result >= 0"}
    result = T.Nat
    inline = True  # callers inline it (the body is its own specification)
    props = ["C16"]


@contract(F, "MazeDatasetCollection.dataset_cum_lengths")
class dataset_cum_lengths:
    params = dict(self=COLLECTION)
    ensures = {
        "C16.cum.shape": "result.shape == (len(self.maze_datasets),)",
        "C16.cum": f"forall(lambda d: result[d] == psum({_LENS}, d + 1), (0, len(self.maze_datasets)))",
    }
    inline = True
    props = ["C16"]


@contract(F, "MazeDatasetCollection.__getitem__")
class coll_getitem:
    params = dict(self=COLLECTION, index=T.Int)
    requires = ["0 <= index", f"index < psum({_LENS}, len(self.maze_datasets))"]
    entry_lemmas = [_MONO]
    ensures = {
        # the i-th item is the very maze at position i of the concatenation of the members in order
        "C16.getitem": "exists(lambda d, k: 0 <= k and k < len(self.maze_datasets[d].mazes)"
        f" and index == psum({_LENS}, d) + k and result.uid == self.maze_datasets[d].mazes[k].uid, (0, len(self.maze_datasets)), None)",
    }
    props = ["C16"]


@contract(F, "MazeDatasetCollection.mazes")
class coll_mazes:
    params = dict(self=COLLECTION)
    ensures = {
        "C16.mazes.len": f"len(result) == psum({_LENS}, len(self.maze_datasets))",
        "C16.mazes": "forall(lambda d, k: implies(0 <= k and k < len(self.maze_datasets[d].mazes),"
        f" result[psum({_LENS}, d) + k].uid == self.maze_datasets[d].mazes[k].uid), (0, len(self.maze_datasets)), None)",
    }
    inline = True
    props = ["C16"]
