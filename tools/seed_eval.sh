#!/bin/bash
# usage: seed_eval.sh <PID> <mN> [checks...]   e.g. seed_eval.sh C02 m1 C02 C03
# Confirms a seeded change delivered under /tmp/mut/<PID>/<mN>/ in a scratch worktree (demo passes clean / fails patched,
# full test suite passes patched), then runs the given checks (default: <PID>) against the patched tree via VERIF_REPO.
# Results: /tmp/mut/results/<PID>-<mN>.txt ; worktree removed afterwards.
PID=$1; M=$2; shift 2; CHECKS=${@:-$PID}
SRC=/tmp/mut/$PID/$M; WT=/tmp/wt/ev-$PID-$M; OUT=/tmp/mut/results/$PID-$M.txt
NTEST=${NTEST:-8}
KEEP=""
if [ -n "$SKIPTESTS" ] && [ -f $OUT ]; then KEEP=$(grep -E "^(tests_exit|retest_exit)=" $OUT | sed 's/^tests_exit=\([0-9]*\) \(.*\)$/tests_exit=\1 \2/' ); fi
: > $OUT
git -C /repo worktree remove --force $WT >/dev/null 2>&1; rm -rf $WT
git -C /repo worktree add -q --detach $WT HEAD || { echo "worktree failed" >> $OUT; exit 1; }
cd $WT
PYTHONPATH=$WT /venv/bin/python $SRC/demo.py > /tmp/mut/results/$PID-$M.demo_clean.log 2>&1; echo "demo_clean_exit=$?" >> $OUT
git apply $SRC/patch.diff || { echo "patch does not apply" >> $OUT; }
git diff --stat | tail -1 >> $OUT
PYTHONPATH=$WT /venv/bin/python $SRC/demo.py > /tmp/mut/results/$PID-$M.demo_patched.log 2>&1; echo "demo_patched_exit=$?" >> $OUT
if [ -z "$SKIPTESTS" ]; then
  PYTHONPATH=$WT /venv/bin/python -m pytest -q -p no:cacheprovider --timeout=900 --continue-on-collection-errors -n $NTEST tests > /tmp/mut/results/$PID-$M.tests.log 2>&1
  echo "tests_exit=$? $(tail -1 /tmp/mut/results/$PID-$M.tests.log)" >> $OUT
fi
for c in $CHECKS; do
  ( cd /verif && VERIF_EVIDENCE_DIR=/tmp/mut/results/ev-$PID-$M VERIF_REPLAY_DIR=/tmp/mut/results/rp-$PID-$M VERIF_REPO=$WT timeout 3000 ./check $c --tier quick > /tmp/mut/results/$PID-$M.check_$c.log 2>&1; echo "check_$c exit=$? $(grep -c '^VIOLATION' /tmp/mut/results/$PID-$M.check_$c.log) violation lines; $(grep -m1 '^VIOLATION' /tmp/mut/results/$PID-$M.check_$c.log)" >> $OUT )
done
[ -n "$KEEP" ] && echo "$KEEP" >> $OUT
cd /; git -C /repo worktree remove --force $WT; rm -rf $WT
cat $OUT
