"""shared shape of a property module: prove the closure of contracts, then run the bounded stand-ins"""
import importlib
import time
import traceback


def run_bounded(run, pid, module=None):
    from vlib.runner import BoundedResult

    try:
        mod = importlib.import_module(module or f"bounded.{pid}")
        t0 = time.time()
        res = mod.run(run.tier, run.seed)
        run.bounded.extend(res)
    except Exception as e:  # noqa: BLE001
        b = BoundedResult(f"{pid}.bounded", "bounded stand-in crashed")
        b.errors.append(f"{type(e).__name__}: {e}\n{traceback.format_exc(limit=6)}")
        run.bounded.append(b)


LEAN_CHECKED = ["reach_induction", "reach_trans", "reach_sym", "reach_common", "reach_mono", "psum_monotone", "psum_congruence", "count_lemma", "lattice_connected_lemma", "astar_cut", "unravel", "nd3", "psum_room"]
LEAN_FILES = ["Lemmas.lean", "Lattice.lean", "AstarCut.lean", "Unravel.lean"]


def run_lean(run):
    """thorough tier: machine-check the code-independent lemmas of /verif/lemmas/Lemmas.lean with Lean 4 + Mathlib (the hand transcription
    between the Lean statements and the SMT axioms stays trusted).  A Lean error is a checker error (exit 3), never a violation."""
    import os
    import shutil
    import subprocess

    from vlib.runner import VERIF

    if run.tier != "thorough":
        run.notes.append("lemmas of lemmas/Lemmas.lean are machine-checked by Lean in the thorough tier only")
        return
    lean = shutil.which("lean")
    if lean is None:
        run.notes.append("lean not on PATH: lemmas not machine-checked in this run")
        return
    t0 = time.time()
    out = ""
    bad = False
    for fname in LEAN_FILES:
        try:
            p = subprocess.run([lean, os.path.join(VERIF, "lemmas", fname)], capture_output=True, text=True, timeout=1500)
        except subprocess.TimeoutExpired:
            run.notes.append(f"lean timed out on {fname}: lemmas not machine-checked in this run")
            return
        if p.returncode != 0 or "error" in (p.stdout + p.stderr):
            bad = True
            out += f"[{fname}] " + (p.stdout + p.stderr)[:400]
    if bad:
        run.crashes.append("Lean rejected the lemma files: " + out)
    else:
        run.notes.append(f"Lean 4 + Mathlib accepted lemmas/{' and lemmas/'.join(LEAN_FILES)} ({', '.join(LEAN_CHECKED)}) in {time.time() - t0:.0f}s")
    run.lean_checked = list(LEAN_CHECKED) if not run.crashes else []
