"""Sidecar contracts for the dataset filters (C08)."""
from pyvc.contracts import contract, Loop, REGISTRY
from pyvc import tys as T
from contracts.serialization import SOLVED, CFG

MD = "maze_dataset/dataset/maze_dataset.py"
REGISTRY.inlinable.update({(MD, "MazeDataset.__len__"), (MD, "MazeDataset.__getitem__")})


@contract(MD, "MazeDatasetFilters.path_length")
class path_length:
    params = dict(maze=SOLVED, min_length=T.Int)
    ensures = {"C08.path_length": "result == (maze.solution.shape[0] >= min_length)"}
    result = T.Bool
    props = ["C08"]


@contract(MD, "MazeDatasetFilters.start_end_distance")
class start_end_distance:
    params = dict(maze=SOLVED, min_distance=T.Int)
    ensures = {"C08.start_end_distance": "result == (abs(maze.start_pos[0] - maze.end_pos[0]) + abs(maze.start_pos[1] - maze.end_pos[1]) >= min_distance)"}
    result = T.Bool
    props = ["C08"]

DS = T.RecT("MazeDataset", cfg=CFG, mazes=T.ListT(SOLVED), generation_metadata_collected=T.Const(None))
_CLOSE = ("((minimum_difference_connection_list is not None and same_shape(dataset.mazes[{a}].connection_list, dataset.mazes[{b}].connection_list)"
          " and n_diff(dataset.mazes[{a}].connection_list, dataset.mazes[{b}].connection_list) <= minimum_difference_connection_list)"
          " or (minimum_difference_solution is not None and same_shape(dataset.mazes[{a}].solution, dataset.mazes[{b}].solution)"
          " and n_diff(dataset.mazes[{a}].solution, dataset.mazes[{b}].solution) <= minimum_difference_solution))")


@contract(MD, "MazeDatasetFilters.remove_duplicates")
class remove_duplicates:
    params = dict(dataset=DS, minimum_difference_connection_list=T.OneOf(T.NoneT(), T.Int), minimum_difference_solution=T.OneOf(T.NoneT(), T.Int), _max_dataset_len_threshold=T.Int)
    ensures = {}
    raises = {"ValueError": "len(dataset.mazes) > _max_dataset_len_threshold"}
    result = DS
    props = ["C08"]
