/-
Code-independent lemmas that the contract proofs of /verif use as trusted facts (DESIGN.md section 4.3), machine-checked here.
The SMT side states them over an uninterpreted `reach` / `psum`; the hand transcription between the two statements is trusted.
`reach m s v` is the reflexive-transitive closure of the edge relation (on in-grid cells), `psum xs n = xs 0 + ... + xs (n-1)`.
-/
import Mathlib

open Relation

section Reach
variable {α : Type*} (edge : α → α → Prop)

/-- reach_induction: reach(s,.) is the LEAST set containing s and closed under edge -/
theorem reach_induction (s : α) (S : α → Prop) (base : S s)
    (step : ∀ u v, S u → edge u v → S v) : ∀ v, ReflTransGen edge s v → S v := by
  intro v h
  induction h with
  | refl => exact base
  | tail _ huv ih => exact step _ _ ih huv

/-- reach_trans -/
theorem reach_trans {s u v : α} (h1 : ReflTransGen edge s u) (h2 : ReflTransGen edge u v) :
    ReflTransGen edge s v := h1.trans h2

/-- reach_sym: edges are undirected, hence reach is symmetric -/
theorem reach_sym (hsymm : ∀ a b, edge a b → edge b a) {s v : α} (h : ReflTransGen edge s v) :
    ReflTransGen edge v s := by
  induction h with
  | refl => exact ReflTransGen.refl
  | tail _ huv ih => exact (ReflTransGen.single (hsymm _ _ huv)).trans ih

/-- reach_common: cells reachable from one cell are mutually reachable -/
theorem reach_common (hsymm : ∀ a b, edge a b → edge b a) {c u v : α}
    (hu : ReflTransGen edge c u) (hv : ReflTransGen edge c v) : ReflTransGen edge u v :=
  (reach_sym edge hsymm hu).trans hv

/-- reach_mono: reachability is monotone in the edge set -/
theorem reach_mono (edge' : α → α → Prop) (hsub : ∀ a b, edge a b → edge' a b) {s v : α}
    (h : ReflTransGen edge s v) : ReflTransGen edge' s v := by
  induction h with
  | refl => exact ReflTransGen.refl
  | tail _ huv ih => exact ih.tail (hsub _ _ huv)
end Reach

section Psum
/-- prefix sums -/
def psum (xs : ℕ → ℤ) (n : ℕ) : ℤ := (Finset.range n).sum xs

/-- psum_monotone: prefix sums of non-negative numbers are nondecreasing -/
theorem psum_monotone (xs : ℕ → ℤ) (n : ℕ) (hnn : ∀ k, k < n → 0 ≤ xs k) :
    ∀ a b, a ≤ b → b ≤ n → psum xs a ≤ psum xs b := by
  intro a b hab hbn
  unfold psum
  have hsub : Finset.range a ⊆ Finset.range b := by
    intro i hi
    exact Finset.mem_range.mpr (lt_of_lt_of_le (Finset.mem_range.mp hi) hab)
  apply Finset.sum_le_sum_of_subset_of_nonneg hsub
  intro i hi _
  exact hnn i (lt_of_lt_of_le (Finset.mem_range.mp hi) hbn)

/-- psum_congruence: sequences that agree on [0,n) have equal prefix sums up to n -/
theorem psum_congruence (xs ys : ℕ → ℤ) (n : ℕ) (h : ∀ k, k < n → xs k = ys k) :
    ∀ j, j ≤ n → psum xs j = psum ys j := by
  intro j hj
  unfold psum
  apply Finset.sum_congr rfl
  intro i hi
  exact h i (lt_of_lt_of_le (Finset.mem_range.mp hi) hj)
end Psum

section Count
/-- count_lemma: a set of cells of the R x C grid has at most R*C elements, with equality iff it is the whole grid -/
theorem count_lemma (R C : ℕ) (S : Finset (Fin R × Fin C)) :
    S.card ≤ R * C ∧ (S.card = R * C ↔ S = Finset.univ) := by
  have hcard : (Finset.univ : Finset (Fin R × Fin C)).card = R * C := by simp
  constructor
  · calc S.card ≤ (Finset.univ : Finset (Fin R × Fin C)).card := Finset.card_le_card (Finset.subset_univ S)
      _ = R * C := hcard
  · constructor
    · intro h
      exact Finset.eq_univ_of_card S (by simpa using h)
    · intro h
      rw [h, hcard]
end Count
