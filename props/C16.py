"""C16 - a dataset collection is exactly the concatenation of its member datasets."""
ID = "C16"
LEVEL = "proof"
LEVEL_TEXT = (
    "Unbounded proof for all numbers of members, all member lengths (zeros anywhere) and all valid indices: __len__ is the sum of the member "
    "lengths, the cumulative lengths are its prefix sums, __getitem__(i) returns the very maze at position i of the concatenation (the unique "
    "(member d, offset k) with i = len_0+...+len_{d-1}+k, 0 <= k < len_d), no IndexError, and the flattened maze list is that concatenation. "
    "update_self_config is proved too (both loops of the real body, the member's own update_self_config inlined): afterwards the reported maze count cfg.n_mazes is len(collection), every member's own configuration "
    "and every member configuration held by the collection report that member's length, and no maze moved - in value semantics (the collection's member configurations and the members' own configurations as separate "
    "objects; shared objects and the cached flattened list are decided by the bounded stand-in, which runs four config-sharing variants and multi-step member replacement)."
)
LEVEL_NOTE = (
    "Trusted library contracts: itertools.accumulate (running sums), np.searchsorted (local characterisation on a nondecreasing array), "
    "itertools.chain.from_iterable (positional concatenation); lemmas psum_monotone (prefix sums of non-negative ints are nondecreasing) and psum_congruence; python's loop variable IS the list element "
    "(an element mutated through the loop variable is written back; refused when the body rebinds the variable); a class property shadows a same-named entry of the instance __dict__; "
    "@cached_property is not modelled (every read recomputes)."
)
TECHNIQUE = "contract-based deductive verification of the real functions (AST-derived VCs, z3) + exhaustive small-scope run-time check"
CONTRACT_MODULES = ["contracts.collection"]
F = "maze_dataset/dataset/collected_dataset.py"
PROVE = [
    (F, "MazeDatasetCollection.dataset_lengths"),
    (F, "MazeDatasetCollection.__len__"),
    (F, "MazeDatasetCollection.dataset_cum_lengths"),
    (F, "MazeDatasetCollection.__getitem__"),
    (F, "MazeDatasetCollection.mazes"),
    (F, "MazeDatasetCollection.update_self_config"),
]
ASSUMPTIONS = ["a maze is identified by an opaque identity field; member datasets are lists of such mazes"]
EXPLANATION = "see DESIGN.md C16"


def run(run):
    from props._std import run_bounded

    run.prove(PROVE)
    run_bounded(run, "C16")
