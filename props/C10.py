"""C10 - pixel and ASCII renderings are faithful and invertible."""
ID = "C10"
LEVEL = "proof"
LEVEL_TEXT = "PROVED (unbounded, z3): the black/white image builder (shape (2r+1,2c+1), cell pixels open, the pixel between two adjacent cells open exactly when connected, everything else wall - four loop invariants) and its reader (_from_pixel_grid_bw recovers exactly those bits for every odd-sized image); the lemma from_bw(as_bw(m)) == m over those two contracts; and as_pixels for all three kinds and all flag combinations (START/END on their cells whenever endpoints are requested, PATH on exactly the solution's cells and in-between pixels, everything else the black/white picture; ValueError exactly for show_solution without show_endpoints; two loop invariants); color_in_pixel_grid (a colour is present iff some pixel has it) and detect_pixels_type (solved iff endpoints and path pixels are present, targeted iff only endpoints, else plain). The reordering walk of from_pixels and the ASCII text assembly/parsing are decided by the bounded stand-in only. Bounded: image geometry, border, cell/edge pixels, endpoint and path colours, the ASCII text, and both read-back directions for all connection structures up to 2x3/3x2 (sampled or all 4096 on 3x3), all three kinds, all start != end pairs with all their shortest paths and all accepted flag combinations."
LEVEL_NOTE = 'Trusted: numpy.'
TECHNIQUE = "contracts on the leaf functions discharged by z3 (pyvc) + bounded stand-in of the contract-based verifier: run-time checking of the real code against an independent executable statement over an enumerated scope (the proved leaf functions are listed in evidence; the property as a whole is decided by the bounded stand-in)"
CONTRACT_MODULES = ['contracts.pixels']
PROVE = [('maze_dataset/maze/lattice_maze.py', 'LatticeMaze._as_pixels_bw'), ('maze_dataset/maze/lattice_maze.py', 'LatticeMaze._from_pixel_grid_bw'), ('maze_dataset/maze/lattice_maze.py', 'LatticeMaze.as_pixels'), ('/verif/contracts/lemmas_src.py', 'bw_roundtrip'), ('maze_dataset/maze/lattice_maze.py', 'color_in_pixel_grid'), ('maze_dataset/maze/lattice_maze.py', 'detect_pixels_type')]
ASSUMPTIONS = []
EXPLANATION = "see DESIGN.md C10"


def run(run):
    from props._std import run_bounded

    if PROVE:
        run.prove(PROVE)
    run_bounded(run, "C10")
