"""C18 - configurations round-trip exactly and have stable, discriminating identities."""
ID = "C18"
LEVEL = "exploration"
LEVEL_TEXT = 'Bounded: serialize/load (also through JSON text) over a cross product of generators, kwargs, endpoint options, seeds and filter lists; hashes pairwise distinct for single-field differences, equal across 3 hash seeds; file name against the documented format.'
LEVEL_NOTE = 'Trusted: muutils field walk, sha256 collision freedom.'
TECHNIQUE = "bounded stand-in of the contract-based verifier: run-time checking of the real code against an independent executable statement over an enumerated scope (no function of this property is in the verified subset yet)"
CONTRACT_MODULES = []
PROVE = []
ASSUMPTIONS = []
EXPLANATION = "see DESIGN.md C18"


def run(run):
    from props._std import run_bounded

    if PROVE:
        run.prove(PROVE)
    run_bounded(run, "C18")
