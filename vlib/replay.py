"""Counterexample replay: solver model -> real arguments -> the real function -> contract clauses."""
from __future__ import annotations

import hashlib
import json
import os
import time
import traceback

import z3

from pyvc import rtcheck
from pyvc.lift import concretize
from pyvc.values import Arr, CSet, Grid, Outside, Rec, SymList, to_z3

VERIF = os.path.dirname(os.path.dirname(os.path.abspath(__file__)))


def _small_bias(inputs):
    """soft constraints asking for small dimensions / values so the replayed input is readable"""
    cons = []

    def walk(v):
        if isinstance(v, Grid):
            for d in v.dims:
                if z3.is_expr(d):
                    cons.append(d <= 5)
        elif isinstance(v, SymList):
            if z3.is_expr(v.length):
                cons.append(v.length <= 6)
        elif isinstance(v, Rec):
            for x in v.fields.values():
                walk(x)
        elif isinstance(v, Arr):
            for x in v.flat:
                if z3.is_expr(x) and x.sort() == z3.IntSort():
                    cons.append(z3.And(x >= -3, x <= 8))
        elif isinstance(v, tuple):
            for x in v:
                walk(x)
        elif z3.is_expr(v) and v.sort() == z3.IntSort():
            cons.append(z3.And(v >= -3, v <= 40))

    for v in inputs.values():
        walk(v)
    return cons


def model_for(ob, inputs):
    for bias in (True, False):
        s = z3.Tactic("default").solver()
        s.set("timeout", 30000)
        for h in ob.hyps:
            s.add(h)
        s.add(z3.Not(to_z3(ob.goal)))
        if bias:
            for c in _small_bias(inputs):
                s.add(c)
        if s.check() == z3.sat:
            return s.model()
    return None


def write_replay(run, **payload):
    from vlib.runner import jsonable

    os.makedirs(run.replay_dir, exist_ok=True)
    payload = dict(payload)
    payload["property"] = run.pid
    payload["tier"] = run.tier
    payload["seed"] = run.seed
    payload["repo_root"] = os.environ.get("VERIF_REPO", "/repo")
    payload["how_to_replay"] = f"./check {run.pid} --replay <this file>"
    blob = json.dumps(jsonable(payload), indent=1, sort_keys=True)
    h = hashlib.sha256(blob.encode()).hexdigest()[:10]
    safe = "".join(ch if ch.isalnum() or ch in "-_." else "_" for ch in str(payload.get("key", "x")))[:80]
    path = os.path.join(run.replay_dir, f"{safe}-{h}.json")
    with open(path, "w") as f:
        f.write(blob)
    return path


def replay_obligation(run, rep, ob, searched=None, undecided=False):
    """try to turn the failed obligation into a failing input of the real function"""
    contract = rep.contract
    info = {
        "kind": "obligation",
        "key": ob.label,
        "obligation": ob.label,
        "obligation_kind": ob.kind,
        "function": f"{rep.file}:{rep.label}",
        "line": ob.line,
        "clause": ob.meta.get("clause") if ob.meta else None,
        "path_trace": ob.trace,
        "solver": ob.result,
    }
    inputs = getattr(rep, "input_symbols", None) or {}
    found = False
    try:
        model = None if undecided else model_for(ob, inputs)
        if model is not None:
            args = {}
            for name in contract.params:
                args[name] = concretize(model, inputs[name], None)
            info["inputs"] = args
            res = rtcheck.check_call(contract, args, repo=run.repo)
            info["native_run"] = {"status": res.status, "clause": res.clause, "detail": res.detail, "result": res.result_repr, "exception": res.exception}
            if res.status == "violated":
                found = True
    except Outside as e:
        info["replay_note"] = f"model could not be turned into real arguments: {e.msg}"
    except Exception as e:  # noqa: BLE001
        info["replay_note"] = f"native replay crashed: {type(e).__name__}: {e}"
    if not found:
        # bounded search on the real function for a concrete failing input
        try:
            from vlib import gen

            skey = (contract.file, contract.qualname)
            if searched is not None and skey in searched:
                hit = searched[skey]
            else:
                hit = gen.search_failing_input(contract, run.repo, seconds=float(os.environ.get("VERIF_SEARCH_SECONDS", "40")), seed=run.seed)
                if searched is not None:
                    searched[skey] = hit
            if hit is not None:
                info["inputs"] = hit["args"]
                info["native_run"] = hit["result"]
                info["found_by"] = "bounded search over small inputs after the solver's model did not replay"
                found = True
            else:
                info["search"] = "no failing input found by the bounded search"
        except Exception as e:  # noqa: BLE001
            info["search"] = f"search crashed: {type(e).__name__}: {e}\n{traceback.format_exc(limit=4)}"
    info["found_input"] = found
    if undecided and not found:
        return {"path": None, "found_input": False}
    if not found:
        info["note"] = "no-failing-input-found: the obligation was discharged on the unchanged tree and fails now; solver output attached"
    path = write_replay(run, **info)
    return {"path": path, "found_input": found}


def run_replay_file(pid, path):
    """./check <ID> --replay <file>: re-run a recorded failing input against the current tree"""
    import importlib

    from vlib.runner import unjson
    from pyvc.contracts import REGISTRY

    data = json.load(open(path))
    prop = importlib.import_module(f"props.{pid}")
    for m in getattr(prop, "CONTRACT_MODULES", []):
        importlib.import_module(m)
    if data.get("kind") == "obligation":
        if "inputs" not in data:
            print(f"replay {path}: obligation {data.get('obligation')} has no concrete input (no-failing-input-found); solver output:")
            print(json.dumps(data.get("solver"), indent=1))
            return 1
        file, q = data["function"].split(":", 1)
        contract = REGISTRY.contracts[(file, q.split("|")[0])]
        args = unjson(data["inputs"])
        res = rtcheck.check_call(contract, args)
        print(f"replay {path}: native run of {q}: status={res.status} clause={res.clause} result={res.result_repr} exception={res.exception}")
        return 1 if res.status == "violated" else 0
    if data.get("kind") == "bounded":
        mod = importlib.import_module(f"bounded.{pid}")
        fn = getattr(mod, "replay", None)
        if fn is None:
            print(f"replay {path}: bounded check {data.get('check')} input: {json.dumps(data.get('input'))[:2000]}")
            print(f"observed: {data.get('observed')}")
            return 1
        ok = fn(data.get("check"), unjson(data.get("input")))
        print(f"replay {path}: bounded check {data.get('check')}: {'still fails' if not ok else 'passes now'}")
        return 0 if ok else 1
    print("unknown replay file kind")
    return 3
