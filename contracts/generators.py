"""Sidecar contracts for maze_dataset/generation/generators.py (C01, C12, C19 premises)."""
from pyvc.contracts import contract, Loop
from pyvc import tys as T
import contracts.lattice_maze  # noqa: F401  (callee contracts)

G = "maze_dataset/generation/generators.py"
LM = "maze_dataset/maze/lattice_maze.py"

GRID_SHAPE = T.ArrT((2,), "int", lo=1)  # r, c >= 1  (property C01: "all grid shapes r x c with r,c >= 1")


@contract(G, "_random_start_coord")
class random_start_coord:
    params = dict(grid_shape=GRID_SHAPE, start_coord=T.OneOf(T.NoneT(), T.Coord))
    requires = ["is_none(start_coord) or in_grid(grid_shape, start_coord)"]
    ensures = {
        "C01.start-in-grid": "in_grid(grid_shape, result)",
        "given-start-kept": "is_none(start_coord) or (result[0] == start_coord[0] and result[1] == start_coord[1])",
    }
    result = T.Coord
    props = ["C01", "C12"]


@contract(G, "get_neighbors_in_bounds")
class get_neighbors_in_bounds:
    params = dict(coord=T.Coord, grid_shape=GRID_SHAPE)
    ensures = {
        # C19 premise P2: every in-grid lattice neighbour exactly once, nothing else
        "C19.P2.members": "forall(lambda i, j: ((i, j) in result) == (in_grid(grid_shape, (i, j)) and lat_adj(coord, (i, j))), None, None)",
        "C19.P2.once": "distinct_rows(result)",
        # "one always exists on a lattice" (needed so that the uniform draw in the walk cannot fail)
        "nonempty": "implies(in_grid(grid_shape, coord) and (grid_shape[0] >= 2 or grid_shape[1] >= 2), nrows(result) >= 1)",
    }
    result = T.GuardedRowsT(4, 2)
    props = ["C19", "C01"]


@contract(LM, "_fill_edges_with_walls")
class fill_edges_with_walls:
    params = dict(connection_list=T.GridT("bool", [None, None, None], min_dim=1))
    lets = dict(D="connection_list.shape[0]", R="connection_list.shape[1]", C="connection_list.shape[2]")
    modifies = ["connection_list"]
    ensures = {
        "C01.last-row-cleared": "D < 1 or forall(lambda j: not connection_list[0, R - 1, j], (0, C))",
        "C01.last-col-cleared": "D < 2 or forall(lambda i: not connection_list[1, i, C - 1], (0, R))",
        "frame": "forall(lambda d, i, j: (d == 0 and i == R - 1) or (d == 1 and j == C - 1)"
        " or connection_list[d, i, j] == old(connection_list)[d, i, j], (0, D), (0, R), (0, C))",
        "returns-argument": "same_grid(result, connection_list)",
    }
    raises = {"NotImplementedError": "D > 2"}
    loops = {
        0: Loop(
            head="for dim in range(connection_list.shape[0])",
            havoc=dict(connection_list=T.GridT("bool", [None, None, None])),
            inv={
                "dim<=2": "_k <= 2",
                "row": "_k < 1 or forall(lambda j: not connection_list[0, R - 1, j], (0, C))",
                "col": "_k < 2 or forall(lambda i: not connection_list[1, i, C - 1], (0, R))",
                "frame": "forall(lambda d, i, j: (d == 0 and i == R - 1 and _k >= 1) or (d == 1 and j == C - 1 and _k >= 2)"
                " or connection_list[d, i, j] == old(connection_list)[d, i, j], (0, D), (0, R), (0, C))",
            },
        )
    }
    result = lambda env: T.GridT("bool", [env["D"], env["R"], env["C"]])
    props = ["C01"]


ACCESSIBLE = T.OneOf(T.NoneT(), T.Int, T._Scalar("float", hi=1))
MAXDEPTH = T.OneOf(T.NoneT(), T.Int, T._Scalar("float", hi=1))

_M = "maze_of(connection_list)"
DFS_INV = {
    # I1: only real lattice edges are ever set (no connection leaves the grid)          [C01, from statement]
    "I1.wf": "forall(lambda d, i, j: implies(connection_list[d, i, j], 0 <= d and d < 2 and 0 <= i and 0 <= j"
    " and i < grid_shape[0] and j < grid_shape[1] and (d != 0 or i + 1 < grid_shape[0]) and (d != 1 or j + 1 < grid_shape[1])), None, None, None)",
    # I2: every connection joins two visited cells
    "I2.down": "forall(lambda i, j: implies(connection_list[0, i, j], (i, j) in visited_cells and (i + 1, j) in visited_cells), None, None)",
    "I2.right": "forall(lambda i, j: implies(connection_list[1, i, j], (i, j) in visited_cells and (i, j + 1) in visited_cells), None, None)",
    # I3: a tree over the visited cells has |V|-1 edges
    "I3.count": "count(connection_list) == card(visited_cells) - 1",
    # I4: bookkeeping
    "I4.visited-in-grid": "forall(lambda i, j: implies((i, j) in visited_cells, in_grid(grid_shape, (i, j))), None, None)",
    "I4.start-visited": "(start_coord[0], start_coord[1]) in visited_cells",
    "I4.stack": "forall(lambda k: in_grid(grid_shape, stack[k]) and (stack[k][0], stack[k][1]) in visited_cells, (0, len(stack)))",
    "I4.shape": "connection_list.shape == (2, grid_shape[0], grid_shape[1])",
    # I5: never more cells than requested (beyond the start cell)                         [C12]
    "I5.card": "card(visited_cells) >= 1 and (card(visited_cells) <= n_accessible_cells or card(visited_cells) == 1)",
    # I6: every visited cell is reachable from the start cell                             [C12, via reach closure + monotonicity]
    # I7: the depth counter never exceeds the number of visited cells (so the default depth limit 2*R*C never binds)
    "I7.depth": "current_tree_depth <= card(visited_cells)",
    # I8: when forks are allowed and the depth limit cannot bind, every visited cell that still has an
    #     unvisited in-grid lattice neighbour is on the stack
    "I8.frontier": "implies(do_forks and max_tree_depth >= 2 * n_total_cells, forall(lambda i, j, a, b:"
    " implies((i, j) in visited_cells and in_grid(grid_shape, (a, b)) and lat_adj((i, j), (a, b)) and (a, b) not in visited_cells,"
    " exists(lambda k: stack[k][0] == i and stack[k][1] == j, (0, len(stack)))), None, None, None, None))",
    "I6.reach": f"forall(lambda i, j: implies((i, j) in visited_cells, reach({_M}, start_coord, (i, j))), None, None)",
}


@contract(G, "LatticeMazeGenerators.gen_dfs")
class gen_dfs:
    params = dict(
        grid_shape=GRID_SHAPE,
        lattice_dim=T.Const(2),
        accessible_cells=ACCESSIBLE,
        max_tree_depth=MAXDEPTH,
        do_forks=T.Bool,
        randomized_stack=T.Bool,
        start_coord=T.OneOf(T.NoneT(), T.Coord),
    )
    requires = ["is_none(start_coord) or in_grid(grid_shape, start_coord)"]
    lets = dict(R="grid_shape[0]", C="grid_shape[1]")
    ensures = {
        "C01.shape": "result.connection_list.shape == (2, R, C)",
        "C01.wf": "wf(result)",
        "C12.start": "in_grid(grid_shape, result.generation_meta['start_coord'])"
        " and (is_none(start_coord) or (result.generation_meta['start_coord'][0] == start_coord[0] and result.generation_meta['start_coord'][1] == start_coord[1]))",
        "C12.visited=component": "forall(lambda i, j: ((i, j) in result.generation_meta['visited_cells'])"
        " == reach(result, result.generation_meta['start_coord'], (i, j)), None, None)",
        "C12.tree-count": "count(result) == card(result.generation_meta['visited_cells']) - 1",
        "C12.flag": "result.generation_meta['fully_connected'] == (card(result.generation_meta['visited_cells']) == R * C)",
        "C12.at-most-requested": "card(result.generation_meta['visited_cells']) == 1"
        " or card(result.generation_meta['visited_cells']) <= result.generation_meta['n_accessible_cells']",
    }
    loops = {
        0: Loop(
            head="while stack and (len(visited_cells) < n_accessible_cells)",
            havoc=dict(
                connection_list=T.GridT("bool", [2, None, None], count=True),
                visited_cells=T.SetT(2),
                stack=T.ListT(T.Coord),
                current_tree_depth=T.Int,
            ),
            inv=DFS_INV,
            lemmas=[
                "reach_mono(maze_of(prev(connection_list)), maze_of(connection_list))",
                "count_lemma(prev(visited_cells), grid_shape[0], grid_shape[1])",
            ],
            focus={"I8.frontier": ["inv:I8.frontier", "inv:I7.depth", "inv:I4.*", "lemma:1"]},
        )
    }
    ensures["C01.default-args-spanning-tree"] = (
        "implies(is_none(accessible_cells) and is_none(max_tree_depth) and do_forks,"
        " result.generation_meta['fully_connected'] and count(result) == R * C - 1"
        " and forall(lambda i, j: reach(result, result.generation_meta['start_coord'], (i, j)), (0, R), (0, C)))"
    )
    exit_lemmas = [
        "reach_induction(result, result.generation_meta['start_coord'], lambda v: v in result.generation_meta['visited_cells'])",
        "count_lemma(result.generation_meta['visited_cells'], R, C)",
        "lattice_connected_lemma(lambda v: v in result.generation_meta['visited_cells'], R, C)",
    ]
    ensures["C12.flag-means-connected"] = (
        "implies(result.generation_meta['fully_connected'],"
        " forall(lambda i, j: reach(result, result.generation_meta['start_coord'], (i, j)), (0, R), (0, C)))"
    )
    result = T.RecT(
        "LatticeMaze",
        connection_list=T.GridT("bool", [2, None, None], count=True),
        generation_meta=T.PyDictT(
            func_name=T.Const("gen_dfs"),
            start_coord=T.Coord,
            n_accessible_cells=T.Int,
            max_tree_depth=T.Int,
            fully_connected=T.Bool,
            visited_cells=T.SetT(2),
        ),
    )
    props = ["C01", "C12"]


_DFS_ENSURES = dict(gen_dfs.ensures)


@contract(G, "LatticeMazeGenerators.gen_prim")
class gen_prim:
    params = dict(
        grid_shape=GRID_SHAPE,
        lattice_dim=T.Const(2),
        accessible_cells=ACCESSIBLE,
        max_tree_depth=MAXDEPTH,
        do_forks=T.Bool,
        start_coord=T.OneOf(T.NoneT(), T.Coord),
    )
    requires = gen_dfs.requires
    lets = gen_dfs.lets
    ensures = _DFS_ENSURES
    exit_lemmas = []
    result = gen_dfs.result
    props = ["C01", "C12"]


_LATTICE_FULL = (
    "forall(lambda i, j: result.connection_list[0, i, j], (0, R - 1), (0, C))"
    " and forall(lambda i, j: result.connection_list[1, i, j], (0, R), (0, C - 1))"
)
_VISITED_IS_COMPONENT = (
    "forall(lambda i, j: ((i, j) in result.generation_meta['visited_cells'])"
    " == reach(result, result.generation_meta['start_coord'], (i, j)), None, None)"
)


@contract(G, "LatticeMazeGenerators.gen_percolation")
class gen_percolation:
    params = dict(grid_shape=GRID_SHAPE, p=T._Scalar("float", lo=0, hi=1), lattice_dim=T.Const(2), start_coord=T.OneOf(T.NoneT(), T.Coord))
    requires = ["is_none(start_coord) or in_grid(grid_shape, start_coord)"]
    lets = dict(R="grid_shape[0]", C="grid_shape[1]")
    ensures = {
        "C01.shape": "result.connection_list.shape == (2, R, C)",
        "C01.wf": "wf(result)",
        "C01.p=0-empty": "implies(p == 0, forall(lambda d, i, j: not result.connection_list[d, i, j], (0, 2), (0, R), (0, C)))",
        "C01.p=1-full": f"implies(p == 1, {_LATTICE_FULL})",
        "C12.start": "in_grid(grid_shape, result.generation_meta['start_coord'])",
        "C12.visited=component": _VISITED_IS_COMPONENT,
        "C12.visited-once": "distinct_rows(result.generation_meta['visited_cells'])",
        "C12.not-flagged": "'fully_connected' not in result.generation_meta",
    }
    result = T.RecT(
        "LatticeMaze",
        connection_list=T.GridT("bool", [2, None, None]),
        generation_meta=T.PyDictT(func_name=T.Const("gen_percolation"), start_coord=T.Coord, visited_cells=T.ListT(T.CoordTup)),
    )
    props = ["C01", "C12"]


@contract(G, "LatticeMazeGenerators.gen_dfs_percolation")
class gen_dfs_percolation:
    params = dict(
        grid_shape=GRID_SHAPE,
        p=T._Scalar("float", lo=0, hi=1),
        lattice_dim=T.Const(2),
        accessible_cells=T.OneOf(T.NoneT(), T.Int),
        max_tree_depth=T.OneOf(T.NoneT(), T.Int),
        start_coord=T.OneOf(T.NoneT(), T.Coord),
    )
    requires = ["is_none(start_coord) or in_grid(grid_shape, start_coord)"]
    lets = dict(R="grid_shape[0]", C="grid_shape[1]")
    ghost_after = {"maze: LatticeMaze = LatticeMazeGenerators.gen_dfs(": {"g_dfs_maze": "maze"}}
    ensures = {
        "C01.shape": "result.connection_list.shape == (2, R, C)",
        "C01.wf": "wf(result)",
        "C12.start": "in_grid(grid_shape, result.generation_meta['start_coord'])",
        "C12.visited=component": _VISITED_IS_COMPONENT,
        # the flag is inherited from the depth-first stage; adding edges keeps a connected maze connected
        "C12.flag-means-connected": "implies(result.generation_meta['fully_connected'],"
        " forall(lambda i, j: reach(result, result.generation_meta['start_coord'], (i, j)), (0, R), (0, C)))",
        "C01.default-args-connected": "implies(is_none(accessible_cells) and is_none(max_tree_depth),"
        " forall(lambda i, j: reach(result, result.generation_meta['start_coord'], (i, j)), (0, R), (0, C)))",
        "contains-dfs-tree": "forall(lambda d, i, j: implies(final(g_dfs_maze).connection_list[d, i, j], result.connection_list[d, i, j]), None, None, None)",
    }
    exit_lemmas = ["reach_mono(final(g_dfs_maze), result)"]
    ensures["C12.visited-once"] = "distinct_rows(result.generation_meta['visited_cells'])"
    result = T.RecT(
        "LatticeMaze",
        connection_list=T.GridT("bool", [2, None, None]),
        generation_meta=T.PyDictT(func_name=T.Const("gen_dfs_percolation"), start_coord=T.Coord, fully_connected=T.Bool, visited_cells=T.ListT(T.CoordTup)),
    )
    props = ["C01", "C12"]


# ----------------------------------------------------------------------------- Wilson
_MW = "maze_of(connection_list)"
# every set bit is a real lattice edge (I1) joining two visited cells
_W_WF = DFS_INV["I1.wf"]
_W_TREE_OUTER = {
    "W.shape": "connection_list.shape == (2, grid_shape[0], grid_shape[1]) and visited.shape == (grid_shape[0], grid_shape[1])",
    "W1.wf": _W_WF,
    "W2.down": "forall(lambda i, j: implies(connection_list[0, i, j], visited[i, j] and visited[i + 1, j]), None, None)",
    "W2.right": "forall(lambda i, j: implies(connection_list[1, i, j], visited[i, j] and visited[i, j + 1]), None, None)",
    "W3.count": "count(connection_list) == count(visited) - 1",
    "W4.root": "in_grid(grid_shape, g_root) and visited[g_root[0], g_root[1]]",
    "W4.reach": f"forall(lambda i, j: implies(visited[i, j], reach({_MW}, g_root, (i, j))), (0, grid_shape[0]), (0, grid_shape[1]))",
    "W5.visited-in-grid": "forall(lambda i, j: implies(visited[i, j], in_grid(grid_shape, (i, j))), None, None)",
}
_W_PATH = {
    "P.nonempty": "len(path) >= 1 and current[0] == path[len(path) - 1][0] and current[1] == path[len(path) - 1][1]",
    "P.in-grid": "forall(lambda t: in_grid(grid_shape, path[t]), (0, len(path)))",
    "P.adjacent": "forall(lambda t: lat_adj(path[t], path[t + 1]), (0, len(path) - 1))",
    "P.simple": "forall(lambda s, t: implies(s < t, path[s][0] != path[t][0] or path[s][1] != path[t][1]), (0, len(path)), (0, len(path)))",
    "P.unvisited": "forall(lambda t: not visited[path[t][0], path[t][1]], (0, len(path) - 1))",
}


@contract(G, "LatticeMazeGenerators.gen_wilson")
class gen_wilson:
    params = dict(grid_shape=GRID_SHAPE)
    lets = dict(R="grid_shape[0]", C="grid_shape[1]")
    ghost_after = {"visited[start_coord[0], start_coord[1]] = True": {"g_root": "start_coord"}}
    ensures = {
        "C01.shape": "result.connection_list.shape == (2, R, C)",
        "C01.wf": "wf(result)",
        "C01.spanning.count": "count(result) == R * C - 1",
        "C01.spanning.connected": "forall(lambda i, j: reach(result, final(g_root), (i, j)), (0, R), (0, C))",
        "C12.flag": "result.generation_meta['fully_connected'] == True",
        # ... and the flag is true: every cell is reachable from every other
        "C12.flag-means-connected": "forall(lambda i, j, a, b: reach(result, (i, j), (a, b)), (0, R), (0, C), (0, R), (0, C))",
    }
    loops = {
        0: Loop(
            head="while not visited.all()",
            havoc=dict(connection_list=T.GridT("bool", [2, None, None], count=True), visited=T.GridT("bool", [None, None], count=True)),
            inv=_W_TREE_OUTER,
            lemmas=["reach_trans(maze_of(connection_list))"],
        ),
        1: Loop(
            head="while not visited[current[0], current[1]]",
            havoc=dict(path=T.ListT(T.Coord), current=T.Coord),
            inv=_W_PATH,
        ),
        2: Loop(
            head="for i, p in enumerate(path)",
            havoc=dict(loop_exit=T.NoneT()),
            inv={"E.not-found-yet": "forall(lambda t: path[t][0] != next_cell[0] or path[t][1] != next_cell[1], (0, _k))"},
        ),
        3: Loop(
            head="for i in range(len(path) - 1)",
            havoc=dict(connection_list=T.GridT("bool", [2, None, None], count=True), visited=T.GridT("bool", [None, None], count=True)),
            inv={
                "W.shape": _W_TREE_OUTER["W.shape"],
                "W1.wf": _W_WF,
                # bits join two visited cells, except the one edge whose far end path[_k] is still to be marked
                "T2.down": "forall(lambda i, j: implies(connection_list[0, i, j], (visited[i, j] and visited[i + 1, j])"
                " or (_k >= 1 and ((i == path[_k - 1][0] and j == path[_k - 1][1] and i + 1 == path[_k][0] and j == path[_k][1])"
                " or (i == path[_k][0] and j == path[_k][1] and i + 1 == path[_k - 1][0] and j == path[_k - 1][1])))), None, None)",
                "T2.right": "forall(lambda i, j: implies(connection_list[1, i, j], (visited[i, j] and visited[i, j + 1])"
                " or (_k >= 1 and ((i == path[_k - 1][0] and j == path[_k - 1][1] and i == path[_k][0] and j + 1 == path[_k][1])"
                " or (i == path[_k][0] and j == path[_k][1] and i == path[_k - 1][0] and j + 1 == path[_k - 1][1])))), None, None)",
                "T3.count": "count(connection_list) == count(visited) - 1",
                "T.marked": "forall(lambda t: visited[path[t][0], path[t][1]], (0, _k))",
                "T.unmarked": "forall(lambda t: not visited[path[t][0], path[t][1]], (_k, len(path) - 1))",
                "T.last-visited": "visited[path[len(path) - 1][0], path[len(path) - 1][1]]",
                "W4.root": _W_TREE_OUTER["W4.root"],
                "W5.visited-in-grid": _W_TREE_OUTER["W5.visited-in-grid"],
                # old tree cells still reach the root; freshly marked path cells reach the current tip path[_k]
                "T4.reach": f"forall(lambda i, j: implies(visited[i, j], reach({_MW}, g_root, (i, j))"
                f" or exists(lambda t: path[t][0] == i and path[t][1] == j and reach({_MW}, path[_k], (i, j)), (0, _k))), (0, grid_shape[0]), (0, grid_shape[1]))",
            },
            lemmas=[
                "reach_mono(maze_of(prev(connection_list)), maze_of(connection_list))",
                "reach_trans(maze_of(connection_list))",
                "reach_sym(maze_of(connection_list))",
            ],
        ),
    }
    exit_lemmas = ["count_lemma(final(visited), R, C)", "reach_common(result, final(g_root))"]
    result = T.RecT(
        "LatticeMaze",
        connection_list=T.GridT("bool", [2, None, None], count=True),
        generation_meta=T.PyDictT(func_name=T.Const("gen_wilson"), fully_connected=T.Const(True)),
    )
    props = ["C01", "C12", "C19"]
