"""Bounded stand-in for C20: maze plots draw the maze that was given.

The oracle is the property statement: one block per cell, one strip per lattice edge, a strip is passage exactly when the
two cells are connected; cell values in the blocks; paths through the centres of exactly the listed cells in order, rows
vertical and columns horizontal; ASCII export equal to the maze's own ASCII drawing.  The picture is read back from the
matplotlib Axes on the Agg backend (trusted: matplotlib draws what it is handed).  Bounded, never counted as proved."""
from __future__ import annotations

import time
import traceback
import warnings

import matplotlib

matplotlib.use("Agg")  # before pyplot is imported anywhere below

import numpy as np  # noqa: E402

from vlib import pyspec as S  # noqa: E402
from vlib.runner import BoundedResult  # noqa: E402

from bounded._common import Capped, pmap  # noqa: E402

KINDS = ("lattice", "targeted", "solved")
UNIT_LENGTHS = (3, 4, 14)


# ----------------------------------------------------------------------------- independent maze makers
def random_tree(rng, R, C):
    """uniformly shuffled Kruskal: a spanning tree of the R x C lattice"""
    slots = S.lattice_edge_slots(R, C)
    order = rng.permutation(len(slots))
    parent = {c: c for c in S.cells((R, C))}

    def find(x):
        while parent[x] != x:
            parent[x] = parent[parent[x]]
            x = parent[x]
        return x

    conn = np.zeros((2, R, C), dtype=np.bool_)
    for k in order:
        d, i, j = slots[int(k)]
        a, b = (i, j), ((i + 1, j) if d == 0 else (i, j + 1))
        ra, rb = find(a), find(b)
        if ra != rb:
            parent[ra] = rb
            conn[d, i, j] = True
    return conn


def random_cyclic(rng, R, C):
    """a spanning tree plus extra lattice edges (at least one when the lattice has a spare edge)"""
    conn = random_tree(rng, R, C)
    spare = [s for s in S.lattice_edge_slots(R, C) if not conn[s]]
    added = 0
    for s in spare:
        if rng.random() < 0.35:
            conn[s] = True
            added += 1
    if spare and not added:
        conn[spare[int(rng.integers(len(spare)))]] = True
    return conn


def a_shortest_path(conn, a, b):
    dist = S.bfs_dist(conn, a)
    if b not in dist:
        return None
    path = [b]
    while path[-1] != a:
        u = path[-1]
        path.append(next(v for v in S.neighbors(conn, u) if dist.get(v, -1) == dist[u] - 1))
    return path[::-1]


def a_random_simple_path(rng, conn, a, b):
    """some simple path from a to b along passages, found by a randomised depth-first search: on a maze with cycles usually NOT the path a solver
    would return (a SolvedMaze stores whatever solution it was given; the plot must draw that one)"""
    stack, seen = [(a, [a])], {a}
    while stack:
        u, path = stack.pop()
        if u == b:
            return path
        nb = [v for v in S.neighbors(conn, u) if v not in seen]
        for k in rng.permutation(len(nb)):
            v = nb[int(k)]
            seen.add(v)
            stack.append((v, path + [v]))
    return None


def random_cells_path(rng, R, C, n):
    """n cells, mostly a lattice walk (not necessarily through passages), sometimes jumping: the plot must draw what is listed"""
    cells = S.cells((R, C))
    path = [cells[int(rng.integers(len(cells)))]]
    while len(path) < n:
        nb = S.lattice_neighbors((R, C), path[-1])
        path.append(nb[int(rng.integers(len(nb)))] if rng.random() < 0.8 else cells[int(rng.integers(len(cells)))])
    return [list(c) for c in path]


def make_case(rng, kind, R, C, cyclic, ul, node_values, disconnected=False):
    if disconnected:
        conn = S.random_conn(rng, R, C, p=0.45)
    else:
        conn = random_cyclic(rng, R, C) if cyclic else random_tree(rng, R, C)
    case = {"kind": kind, "conn": conn, "ul": int(ul), "node_values": bool(node_values), "start": None, "end": None, "solution": None, "true_path": None, "pred": []}
    cells = S.cells((R, C))
    if kind in ("targeted", "solved"):
        a = cells[int(rng.integers(len(cells)))]
        comp = sorted(S.component(conn, a) - {a}) or [a]
        b = comp[int(rng.integers(len(comp)))]
        case["start"], case["end"] = list(a), list(b)
        if kind == "solved":
            sol = a_random_simple_path(rng, conn, a, b) if (cyclic or disconnected) and rng.random() < 0.6 else None
            case["solution"] = [list(c) for c in (sol or a_shortest_path(conn, a, b))]
    elif rng.random() < 0.5:
        case["true_path"] = random_cells_path(rng, R, C, int(rng.integers(1, 6)))
    for _ in range(int(rng.integers(0, 3))):
        # [cells, drawn as arrows (the default for predicted paths) or as a line, handed over as list or ndarray]
        case["pred"].append([random_cells_path(rng, R, C, int(rng.integers(2, 7))), bool(rng.random() < 0.5), bool(rng.random() < 0.5)])
    return case


def build_maze(case):
    from maze_dataset.maze import LatticeMaze, SolvedMaze, TargetedLatticeMaze

    conn = np.array(case["conn"], dtype=np.bool_)
    dt = np.int8 if case.get("coord_dtype") == "int8" else None  # int8 is the dtype of coordinates loaded back from the compact storage format
    if case["kind"] == "lattice":
        return LatticeMaze(connection_list=conn)
    if case["kind"] == "targeted":
        return TargetedLatticeMaze(connection_list=conn, start_pos=np.array(case["start"], dtype=dt), end_pos=np.array(case["end"], dtype=dt))
    return SolvedMaze(connection_list=conn, solution=np.array(case["solution"], dtype=dt))


# ----------------------------------------------------------------------------- the oracle
def _uniform(a, v):
    a = np.asarray(a, dtype=float)
    return a.size > 0 and bool(np.all(a == v))


def check_image(res, img, conn, ul, nv, inp):
    """the statement's reading of the picture; returns False if the shape is wrong (nothing else checkable)"""
    R, C = conn.shape[1:]
    img = np.asarray(img, dtype=float)
    if img.shape != (R * ul + 1, C * ul + 1):
        res.fail("C20:img:shape", f"image shape {img.shape}, expected {(R*ul+1, C*ul+1)} for a {R}x{C} maze with unit length {ul}", inp, list(img.shape))
        return False
    for r in range(R):
        for c in range(C):
            rows = slice(r * ul + 1, (r + 1) * ul)
            cols = slice(c * ul + 1, (c + 1) * ul)
            want = float(nv[r, c]) if nv is not None else 1.0
            if not _uniform(img[rows, cols], want):
                res.fail("C20:img:block", f"block of cell ({r},{c}) does not carry {want}", {**inp, "cell": [r, c]}, img[rows, cols])
            for d, strip, key in ((0, img[(r + 1) * ul, cols], "C20:img:strip-down"), (1, img[rows, (c + 1) * ul], "C20:img:strip-right")):
                connected = bool(conn[d, r, c])
                if nv is None:
                    is_wall = _uniform(strip, -1.0)
                    is_passage = bool(np.all(strip == strip[0]) and -1.0 < strip[0] <= 1.0)
                else:
                    is_wall = bool(np.all(np.isnan(strip)))
                    is_passage = _uniform(strip, want)
                ok = is_passage and not is_wall if connected else is_wall and not is_passage
                if not ok:
                    res.fail(key, f"strip {'below' if d == 0 else 'right of'} cell ({r},{c}) is drawn {'passage' if is_passage else 'wall' if is_wall else 'neither wall nor passage'} but the cells are {'connected' if connected else 'not connected'}", {**inp, "cell": [r, c]}, strip)
    for name, line in (("row 0", img[0, :]), ("column 0", img[:, 0])):
        wall = np.all(line == -1.0) if nv is None else np.all(np.isnan(line) | (line == -1.0))
        if not wall:
            res.fail("C20:img:frame", f"outer frame {name} is not drawn as wall", inp, line)
    return True


def centre(cell, ul):
    """rows vertical, columns horizontal"""
    return [ul * (cell[1] + 0.5), ul * (cell[0] + 0.5)]


def check_case(res, case):
    import matplotlib.pyplot as plt
    from matplotlib.quiver import Quiver
    from maze_dataset.plotting.plot_maze import MazePlot

    conn = np.array(case["conn"], dtype=np.bool_)
    R, C = conn.shape[1:]
    ul, kind = int(case["ul"]), case["kind"]
    inp = {k: case.get(k) for k in ("kind", "conn", "ul", "node_values", "start", "end", "solution", "true_path", "pred", "coord_dtype")}
    res.seen((kind, R, C, conn.tobytes(), ul, case["node_values"], repr(case["start"]), repr(case["end"]), repr(case["true_path"]), repr(case["pred"])), nontrivial=bool(conn.any()), sample={"kind": kind, "shape": [R, C], "ul": ul, "node_values": case["node_values"], "conn": conn.astype(int).tolist()})
    maze = build_maze(case)
    nv = (np.arange(R * C, dtype=float).reshape(R, C) + 1) if case["node_values"] else None
    fig = None
    try:
        mp = MazePlot(maze, unit_length=ul)
        # constructor: the true path of a solved maze is its solution, of a targeted maze a shortest start-end path
        expected_true = None
        if kind == "solved":
            expected_true = [list(c) for c in case["solution"]]
            got = None if mp.true_path is None else np.asarray(mp.true_path.path).tolist()
            if got != expected_true:
                res.fail("C20:true-path:solved", "the true path of a plotted SolvedMaze is not its solution (the stored one, shortest or not)", inp, got)
        elif kind == "targeted":
            got = None if mp.true_path is None else [tuple(int(x) for x in c) for c in np.asarray(mp.true_path.path)]
            a, b = tuple(case["start"]), tuple(case["end"])
            ok = got is not None and len(got) >= 1 and got[0] == a and got[-1] == b and all(S.edge(conn, got[k], got[k + 1]) for k in range(len(got) - 1)) and len(got) == S.bfs_dist(conn, a)[b] + 1
            if not ok:
                res.fail("C20:true-path:targeted", f"the true path of a plotted TargetedLatticeMaze is not a shortest path from {a} to {b}", inp, got)
            expected_true = None if got is None else [list(c) for c in got]
        if case["true_path"] is not None:
            mp.add_true_path(np.array(case["true_path"], dtype=np.int8 if case.get("coord_dtype") == "int8" else None))
            expected_true = [list(c) for c in case["true_path"]]
        for cells, arrows, as_list in case["pred"]:
            arg = [tuple(c) for c in cells] if as_list else np.array(cells, dtype=np.int8 if case.get("coord_dtype") == "int8" else None)
            if arrows:
                mp.add_predicted_path(arg)
            else:
                mp.add_predicted_path(arg, quiver_kwargs=None)
        if nv is not None:
            mp.add_node_values(nv)
        img = mp._lattice_maze_to_img()
        shape_ok = check_image(res, img, conn, ul, nv, inp)
        # the drawn figure
        mp.plot()
        fig, ax = mp.fig, mp.ax
        if len(ax.images) != 1:
            res.fail("C20:plot:image", f"{len(ax.images)} images on the axes, expected 1", inp, len(ax.images))
        else:
            drawn = np.ma.filled(np.ma.masked_invalid(ax.images[0].get_array()).astype(float), np.nan)
            if drawn.shape != np.asarray(img).shape or not np.array_equal(drawn, np.asarray(img, dtype=float), equal_nan=True):
                res.fail("C20:plot:image", "the image on the axes differs from the maze image", inp, drawn)
            elif shape_ok:
                check_image(res, drawn, conn, ul, nv, inp)
        lines = [np.asarray(l.get_xydata(), dtype=float).tolist() for l in ax.lines]
        quivers = [c for c in ax.collections if isinstance(c, Quiver)]
        todo = ([("C20:plot:true-path", expected_true, False)] if expected_true is not None else []) + [("C20:plot:predicted-path", cells, arrows) for cells, arrows, _ in case["pred"]]
        li = qi = 0
        for key, cells, arrows in todo:
            pts = [centre(c, ul) for c in cells]
            what = "true path" if key.endswith("true-path") else "predicted path"
            if arrows:
                if qi >= len(quivers):
                    res.fail(key, f"{what} {cells}: no arrow collection drawn for it", inp, None)
                    continue
                q = quivers[qi]
                qi += 1
                starts = np.asarray(q.get_offsets(), dtype=float).reshape(-1, 2)
                uv = np.stack([np.asarray(q.U, dtype=float).ravel(), np.asarray(q.V, dtype=float).ravel()], axis=1).reshape(-1, 2)
                drawn_pts = starts.tolist() + ([(starts[-1] + uv[-1]).tolist()] if len(starts) else [])
                chained = len(starts) == len(uv) and all(np.allclose(starts[k] + uv[k], starts[k + 1]) for k in range(len(starts) - 1))
                if not chained or len(drawn_pts) != len(pts) or not np.allclose(drawn_pts, pts):
                    res.fail(key, f"{what} {cells} (unit length {ul}) is drawn as arrows through {drawn_pts}, expected the cell centres {pts}", inp, drawn_pts)
            else:
                if li >= len(lines):
                    res.fail(key, f"{what} {cells}: no line drawn for it", inp, None)
                    continue
                got = lines[li]
                li += 1
                if len(got) != len(pts) or not np.allclose(got, pts):
                    res.fail(key, f"{what} {cells} (unit length {ul}) is drawn through {got}, expected the cell centres {pts}", inp, got)
            # end markers: first and last listed cell
            for which, want in (("start", pts[0]), ("end", pts[-1])):
                if li >= len(lines):
                    res.fail(key, f"{what} {cells}: {which} marker missing", inp, None)
                    continue
                got = lines[li]
                li += 1
                if len(got) != 1 or not np.allclose(got[0], want):
                    res.fail(key, f"{what} {cells}: {which} marker drawn at {got}, expected {want}", inp, got)
        if li != len(lines) or qi != len(quivers):
            res.fail("C20:plot:extra-path", f"{len(lines)} lines / {len(quivers)} arrow collections on the axes, the listed paths account for {li} / {qi}", inp, [len(lines), len(quivers)])
    except Exception as e:  # noqa: BLE001  the property does not allow plotting a valid maze to raise
        res.fail("C20:raised", f"plotting raised {type(e).__name__}: {e}", inp, traceback.format_exc(limit=4))
    finally:
        if fig is not None:
            plt.close(fig)
        plt.close("all")


def check_ascii(res, case):
    from maze_dataset.plotting.plot_maze import MazePlot

    conn = np.array(case["conn"], dtype=np.bool_)
    inp = {k: case[k] for k in ("kind", "conn", "start", "end", "solution")}
    inp["ascii_only"] = True
    res.seen(("ascii", case["kind"], conn.shape, conn.tobytes(), repr(case["start"]), repr(case["end"]), repr(case["solution"])), nontrivial=bool(conn.any()))
    maze = build_maze(case)
    key = "C20:to_ascii:targeted" if case["kind"] == "targeted" else "C20:to_ascii"
    try:
        got, want = MazePlot(maze).to_ascii(), maze.as_ascii()
    except Exception as e:  # noqa: BLE001
        res.fail(key, f"to_ascii/as_ascii raised {type(e).__name__}: {e}", inp, repr(e))
        return
    if got != want:
        res.fail(key, f"MazePlot(maze).to_ascii() differs from maze.as_ascii() for a {type(maze).__name__}", inp, {"plot": got, "maze": want})


def _work(rec, case):
    warnings.simplefilter("ignore")
    if case.get("ascii_only"):
        check_ascii(rec, case)
    else:
        check_case(rec, case)


# ----------------------------------------------------------------------------- enumeration
def cases_for(tier, seed):
    rng = np.random.default_rng(seed)
    sizes = [(n, n) for n in range(2, 6 if tier == "quick" else 9)]
    odd = [(2, 3), (3, 2)] if tier == "quick" else [(2, 3), (3, 2), (4, 7), (6, 3)]
    reps = 2 if tier == "quick" else 6
    cases = []
    for R, C in sizes + odd:
        for _rep in range(reps):
            for cyclic in (False, True):
                if cyclic and (R == 1 or C == 1):
                    continue
                for kind in KINDS:
                    # one maze per (size, kind, tree/cyclic, rep); all unit lengths, with and without cell values
                    base = make_case(rng, kind, R, C, cyclic, 3, False)
                    cases.append({**base, "ascii_only": True})
                    for ul in UNIT_LENGTHS:
                        for nvs in (False, True):
                            c = dict(base)
                            c["ul"], c["node_values"] = ul, nvs
                            cases.append(c)
        # not necessarily connected structures as well (plain lattice and, inside one component, targeted/solved)
        if R > 1 and C > 1:
            for kind in KINDS:
                base = make_case(rng, kind, R, C, True, int(rng.choice(UNIT_LENGTHS)), bool(rng.random() < 0.5), disconnected=True)
                cases.append(base)
                cases.append({**base, "ascii_only": True})
    # coordinates stored as int8 (what a dataset loaded from the compact format holds) on a grid whose pixel positions exceed 127
    for kind in KINDS:
        for R, C in ((12, 12), (11, 13)):
            base = make_case(rng, kind, R, C, False, 14, False)
            cases.append({**base, "coord_dtype": "int8"})
    return cases


def run(tier, seed):
    warnings.simplefilter("ignore")
    t0 = time.time()
    top = 5 if tier == "quick" else 8
    res = BoundedResult(
        "C20.plot-vs-maze",
        rule=f"seeded mazes of the three kinds (LatticeMaze / TargetedLatticeMaze / SolvedMaze), spanning trees (shuffled Kruskal) and trees plus extra edges (cyclic), "
        f"square grids 2..{top} plus a few non-square and not-connected ones, unit_length in {{3,4,14}}, with and without cell values, 0-2 predicted paths (arrows and lines) "
        "and an optional explicit true path; every cell block, every strip, the frame, every path vertex read back from the Agg Axes; "
        "non-trivial = at least one connection; distinct by (kind, bits, unit length, cell values, paths)",
        exhaustive=False,
        functions=["MazePlot._lattice_maze_to_img", "MazePlot._rowcol_to_coord", "MazePlot._plot_path", "MazePlot._plot_maze", "MazePlot.plot", "MazePlot.__init__", "MazePlot.to_ascii", "MazePlot.add_true_path", "MazePlot.add_predicted_path", "MazePlot.add_node_values"],
    )
    capped = Capped(res)
    try:
        pmap(capped, _work, cases_for(tier, seed), procs=1 if tier == "quick" else 6, chunksize=8)
    except Exception as e:  # noqa: BLE001
        res.errors.append(f"{type(e).__name__}: {e}\n{traceback.format_exc(limit=6)}")
    res.seconds = time.time() - t0
    return [res]


def replay(check_name, inp):
    """re-run one recorded input; True iff the plot now agrees with the statement on it"""
    warnings.simplefilter("ignore")
    res = BoundedResult("replay", "replay")
    case = dict(inp)
    case["conn"] = np.array(case["conn"], dtype=np.bool_)
    for k in ("start", "end", "solution", "true_path"):
        if case.get(k) is not None:
            case[k] = np.asarray(case[k]).astype(int).tolist()
        else:
            case[k] = None
    case["pred"] = [[np.asarray(p[0]).astype(int).tolist(), bool(p[1]), bool(p[2])] for p in (case.get("pred") or [])]
    case.pop("cell", None)
    if case.get("ascii_only"):
        check_ascii(res, case)
    else:
        case.setdefault("ul", 14)
        case.setdefault("node_values", False)
        check_case(res, case)
    for f in res.failures:
        print("  still failing:", f["key"], str(f["what"])[:200])
    return not res.failures
