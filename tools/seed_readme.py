"""Regenerate seeded/README.md from the meta.json files."""
import glob, json, os
V = os.path.dirname(os.path.dirname(os.path.abspath(__file__)))
HIST = {
    "C13c-m1": "undecided for the prover (the vectorised body leaves the subset) and missed by the bounded check at first (broken candidate paths only moved through walls or out of the grid); bounded C13 now also jumps between non-adjacent cells and repeats cells",
    "C05c-m1": "undecided for the prover and missed by the bounded check at first (the explicit minimal formats were read back with their own loaders, never through the dispatching MazeDataset.load); bounded C05 now sends both minimal formats through load() as well",
    "C15b-m1": "missed at first (no multi-step history involving the sampler; the quick tier only counts the enumeration): bounded C15 now uses the test sampler and looks at the enumerated set again - on a stubbed 300-element set in the quick tier, on the real 5.9-million set in the thorough tier",
    "C15b-m2": "missed by the quick tier at first (the 7 offenders are one-element neighbours of a legacy image and were not in the 20,000-configuration sample; the thorough tier evaluates is_legacy_equivalent on every tokenizer): the quick tier now adds the one-element neighbours of the legacy images",
    "C20b-m1": "missed at first (the bounded solved mazes stored BFS shortest paths, which the solver reproduces); bounded C20 now stores randomised simple paths on cyclic mazes - the plot must draw the stored solution",
    "C07b-m2": "the triggering mazes (last row or last column without any connection) are outside C07's own quantifier (`every row and column index occurs in some connection`), so C07's check says nothing; the change is in from_adj_list, whose clause belongs to C13, and C13 reports it",
    "C11b-m1": "the clause `saved-where` (the file is written under the very name the request is looked up by) was added to the from_config contract when this change was delivered; the bounded fault experiments report it independently (no cache file under the requested name after the request)",
    "C03b-m2": "the same change leaves C12's prover undecided (a list where a set was: outside the subset) and was missed by C12's bounded check at first (cells compared as sets); bounded C12 now rejects a visited_cells list that names a cell twice; C03 and C13 reported it from the start",
    "C16b-m1": "undecided for the prover at first (the collection's member type had no configuration field: the changed body left the subset), reported by the bounded stand-in; the member type now carries its own configuration and the obligation C16.lengths fails",
    "C16b-m2": "not in the bounded scope before this change was delivered (A-alias: not decided by proof); bounded C16 now lets the caller extend the list it handed to the constructor",
    "C06b-m2": "reported by the bounded decoder at first; CTT.to_tokens had been put under contract in the same session, its clauses now fail (they restate the length first, so a wrong length is a failed obligation instead of an out-of-range index)",
    "C09b-m2": "not in the bounded scope before this change was delivered (endpoints tried were -1, n, n+3, ...): bounded C09 now tries values congruent to in-grid ones modulo 2^8 / 2^16 / 2^32, and a narrowing np.array(..., dtype=int8) now carries a range obligation in the prover (SolvedMaze.__init__ is in C09's proof list)",
    "C05b-m1": "missed at first (no dataset in the bounded scope had been through a file before being written again); bounded C05 now includes second-generation datasets (read from a full / minimal file, then every format again)",
    "C05b-m2": "missed at first (no configuration with endpoint options in the bounded scope of C05; C18's check has them); bounded C05 now writes configurations recording coordinate lists, flags and None",
    "C08b-m1": "missed at first by C08 (its config-driven check bypassed the cache; C11's proof of from_config caught it: clause served-from-file); bounded C08 now makes the same request twice through a local cache directory",
    "C12b-m2": "missed at first by C12 (generate_random_path was proved under C03 only and drawn without options in the bounded check); C12 now proves get_connected_component / generate_random_path itself and draws endpoints with options naming every cell",
    "C12b-m1": "the same change as C13b-m2, found independently by a second agent",
    "C13b-m2": "the loop now writes a variable outside its declared frame: the function leaves the verified subset (undecided), the violation comes from the bounded stand-in",
    "C17-m2": "rewrites get_batch with tensor.new_empty (outside the verified subset: undecided); the violation comes from the bounded stand-in; get_batch as written is now under contract",
    "C14-m2": "missed at first (no multi-step history); bounded C14 now computes some cached views, changes max_grid_size, calls clear_cache() and compares with a fresh tokenizer",
    "C15-m2": "missed at first (identity only compared on unused tokenizers); bounded C15 now compares name / hash / equality before and after tokenizing mazes with the same object",
    "C18-m2": "missed at first (decorators are outside the prover's subset and a value cached in the instance __dict__ was read as known); the prover now treats attributes stored in __dict__ by earlier calls as unknown, and bounded C18 edits a configuration in place and asks again",
    "C20-m1": "missed at first (A-int64); bounded C20 now plots true and predicted paths given as int8 coordinates on 12x12 and 11x13",
    "C11-m1": "patch rebased by hand after fix 0a1bef4 touched the same lines (original kept by the author as patch.orig.diff, not stored)",
    "C16-m2": "patch rebased by hand after fixes 0018a5f / 87b1902 touched the same function",
    "C01-m2": "missed at first (the proof treats numpy integers as mathematical, A-int64); bounded C01 now runs every generator with an int8 grid_shape on 12x12 and 8x16",
    "C03-m2": "missed at first by the bounded stand-in (option combination not sampled); caught since generate_random_path is under contract (clause C03.allowed_end)",
    "C05-m1": "undecided at first (cfg.n_mazes was not a field of the configuration record); caught since the field is symbolic: the shape obligation of the first array fails",
    "C10-m2": "missed at first (no grid above 127 in the bounded scope); bounded C10 now renders and reads back spanning trees on 130x2 and 2x131 with an endpoint at index > 127",
    "C16-m1": "missed at first (decorators are not modelled by the prover and the bounded check had no multi-step history); bounded C16 now replaces a member, calls update_self_config() and re-checks everything",
}
rows = []
for f in sorted(glob.glob(os.path.join(V, "seeded", "*", "meta.json"))):
    m = json.load(open(f))
    caught = []
    for pid, c in m.get("checks_run_against_it", {}).items():
        if c["exit"] == 1 and c["violation_lines"]:
            first = c["first"]
            if "by" in c:
                how = " + ".join(c["by"])
            else:
                how = "proof obligation" if ("post_" in first or "loop" in first or "pre_" in first or "raises_" in first or "no-exception" in first or "range" in first or "nonneg" in first or "filter-" in first) else "bounded stand-in"
            caught.append(f"{pid} ({how})")
    rows.append((m["id"], m["breaks"], m["needs_to_manifest"], ", ".join(caught) or "NOT DETECTED", HIST.get(m["id"], "")))
with open(os.path.join(V, "seeded", "README.md"), "w") as out:
    out.write("# Seeded changes\n\nEach directory holds `patch.diff` (applies to /repo's HEAD with `git apply`), `demo.py` (exit 0 on the clean tree, non-zero with the change), "
              "the author's notes and `meta.json` (what it breaks, what it needs to manifest, what was run). None of these is ever committed to /repo. "
              "To re-run: `tools/seed_eval.sh <PID> <mN>` expects the change under /tmp/mut; or `git -C /repo apply seeded/<id>/patch.diff && ./check <PID>; git -C /repo checkout -- .`.\n\n")
    out.write("| id | breaks | needs | caught by (first violation reported) | history |\n|---|---|---|---|---|\n")
    for r in rows:
        out.write("| " + " | ".join(x.replace("|", "/") for x in r) + " |\n")
print(len(rows), "seeded changes;", sum(1 for r in rows if r[3] != "NOT DETECTED"), "detected")
