"""Bounded stand-in for C06: an independent decoder, configured only from the parameter values of a
MazeTokenizerModular, is run on `tokenizer.to_tokens(maze)` and must recover the region structure, the
selected edge set with its connection/wall marks, the origin, the target and the step sequence of the maze.

What is right is decided from the maze (connection array, start, end, solution) through vlib.pyspec; the code
under check is only used for `to_tokens`, for enumerating the element configurations (`utils.all_instances`),
for building mazes (constructors, gen_dfs / gen_dfs_percolation as maze sources) and for the VOCAB constants.
Labelled bounded, never counted as proved."""
from __future__ import annotations

import hashlib
import multiprocessing
import os
import random
import re
import time
import traceback
import warnings
from collections import Counter, deque

import numpy as np

from vlib import pyspec as S
from vlib.runner import BoundedResult

# --------------------------------------------------------------------------------------------------------------
# the drawing convention (from the statement): rows grow southwards, columns eastwards
COMPASS = ["NORTH", "EAST", "SOUTH", "WEST"]  # clockwise as seen on the drawn maze
DELTA = {"NORTH": (-1, 0), "EAST": (0, 1), "SOUTH": (1, 0), "WEST": (0, -1)}
# a relative word turns the heading by this many quarter turns clockwise
TURN = {"FORWARD": 0, "RIGHT": 1, "BACKWARD": 2, "LEFT": 3}


def rel_word(heading, move):
    """the relative word for making `move` (a compass name) while facing `heading` (a compass name)"""
    q = (COMPASS.index(move) - COMPASS.index(heading)) % 4
    return next(w for w, t in TURN.items() if t == q)


def _selftest():
    """hand-checked on the drawn maze (row 0 at the top, column 0 at the left): facing north the eastern cell is at the
    right hand; walking east, the southern cell (below on the page) is at the right hand; walking south (down the page)
    the eastern cell (right on the page) is at the walker's LEFT hand."""
    facts = [("NORTH", "EAST", "RIGHT"), ("NORTH", "WEST", "LEFT"), ("EAST", "SOUTH", "RIGHT"), ("SOUTH", "EAST", "LEFT"),
             ("WEST", "NORTH", "RIGHT"), ("WEST", "WEST", "FORWARD"), ("NORTH", "SOUTH", "BACKWARD"), ("EAST", "WEST", "BACKWARD")]
    for h, m, w in facts:
        if rel_word(h, m) != w:
            raise AssertionError(f"decoder self-test: facing {h} moving {m} gives {rel_word(h, m)}, hand-checked {w}")
    if DELTA["SOUTH"] != (1, 0) or DELTA["EAST"] != (0, 1):
        raise AssertionError("decoder self-test: rows grow southwards, columns eastwards")


class Violation(Exception):
    """the token stream does not have the layout / content the parameters promise"""

    def __init__(self, key, what):
        super().__init__(what)
        self.key = key
        self.what = what


def _vocab():
    from maze_dataset.constants import VOCAB, VOCAB_LIST

    return VOCAB, VOCAB_LIST


# --------------------------------------------------------------------------------------------------------------
# configuration: plain values read off the dataclass fields of the tokenizer's elements
def cfg_of(tok):
    ps = tok.prompt_sequencer
    seq = type(ps).__name__
    if seq not in ("AOTP", "AOP"):
        raise NotImplementedError(f"prompt sequencer {seq}")
    ct = ps.coord_tokenizer
    cn = type(ct).__name__
    if cn == "UT":
        coord = ("UT",)
    elif cn == "CTT":
        coord = ("CTT", bool(ct.pre), bool(ct.intra), bool(ct.post))
    else:
        raise NotImplementedError(f"coord tokenizer {cn}")
    al = ps.adj_list_tokenizer
    an = type(al).__name__
    if an not in ("AdjListCoord", "AdjListCardinal"):
        raise NotImplementedError(f"adjacency tokenizer {an}")
    g = al.edge_grouping
    if type(g).__name__ != "Ungrouped":
        raise NotImplementedError(f"edge grouping {type(g).__name__}")
    es = al.edge_subset
    esn = type(es).__name__
    if esn == "AllLatticeEdges":
        subset = "all"
    elif esn == "ConnectionEdges":
        subset = "walls" if es.walls else "conn"
    else:
        raise NotImplementedError(f"edge subset {esn}")
    epn = type(al.edge_permuter).__name__
    if epn not in ("SortedCoords", "RandomCoords", "BothCoords"):
        raise NotImplementedError(f"edge permuter {epn}")
    cfg = {
        "seq": seq,
        "coord": coord,
        "adj_kind": "coord" if an == "AdjListCoord" else "cardinal",
        "adj_pre": bool(al.pre),
        "adj_post": bool(al.post),
        "shuffle_d0": bool(al.shuffle_d0),
        "ordinal": int(g.connection_token_ordinal),
        "subset": subset,
        "permuter": epn,
        "target_post": None,
    }
    if seq == "AOTP":
        tt = ps.target_tokenizer
        if type(tt).__name__ != "Unlabeled":
            raise NotImplementedError(f"target tokenizer {type(tt).__name__}")
        cfg["target_post"] = bool(tt.post)
    pt = ps.path_tokenizer
    if type(pt).__name__ != "StepSequence":
        raise NotImplementedError(f"path tokenizer {type(pt).__name__}")
    ssn = type(pt.step_size).__name__
    if ssn not in ("Singles", "Forks"):
        raise NotImplementedError(f"step size {ssn}")
    steps = tuple(type(s).__name__ for s in pt.step_tokenizers)
    for s in steps:
        if s not in ("Coord", "Cardinal", "Relative", "Distance"):
            raise NotImplementedError(f"step tokenizer {s}")
    cfg.update({"step_size": ssn, "steps": steps, "path_pre": bool(pt.pre), "path_intra": bool(pt.intra), "path_post": bool(pt.post)})
    return cfg


# --------------------------------------------------------------------------------------------------------------
# the decoder
_UT_RE = re.compile(r"^\((\d+),(\d+)\)$")
_INT_RE = re.compile(r"^\d+$")
_DIST_RE = re.compile(r"^\+(\d+)$")


class Cursor:
    def __init__(self, toks, key):
        self.t = toks
        self.i = 0
        self.key = key

    def done(self):
        return self.i >= len(self.t)

    def take(self):
        if self.i >= len(self.t):
            raise Violation(self.key, f"region ends early at position {self.i}")
        x = self.t[self.i]
        self.i += 1
        return x

    def expect(self, lit):
        x = self.take()
        if x != lit:
            raise Violation(self.key, f"expected {lit!r} at position {self.i - 1}, found {x!r}")

    def one_of(self, options, what):
        x = self.take()
        if x not in options:
            raise Violation(self.key, f"expected {what} at position {self.i - 1}, found {x!r}")
        return x


def parse_coord(coord_cfg, cur):
    V, _ = _vocab()
    if coord_cfg[0] == "UT":
        x = cur.take()
        m = _UT_RE.match(x)
        if not m:
            raise Violation(cur.key, f"expected a '(r,c)' coordinate token at position {cur.i - 1}, found {x!r}")
        return (int(m.group(1)), int(m.group(2)))
    _, pre, intra, post = coord_cfg
    if pre:
        cur.expect(V.COORD_PRE)
    a = cur.take()
    if not _INT_RE.match(a):
        raise Violation(cur.key, f"expected a row index token at position {cur.i - 1}, found {a!r}")
    if intra:
        cur.expect(V.COORD_INTRA)
    b = cur.take()
    if not _INT_RE.match(b):
        raise Violation(cur.key, f"expected a column index token at position {cur.i - 1}, found {b!r}")
    if post:
        cur.expect(V.COORD_POST)
    return (int(a), int(b))


def split_regions(toks, kind):
    """-> dict region -> content tokens.  Regions present by maze kind; AOTP and AOP both delimit the target region
    (the AOP docstring: the delimiters are still included, with no representation of the target)."""
    V, _ = _vocab()
    names = [
        ("adj", V.ADJLIST_START, V.ADJLIST_END),
        ("origin", V.ORIGIN_START, V.ORIGIN_END),
        ("target", V.TARGET_START, V.TARGET_END),
        ("path", V.PATH_START, V.PATH_END),
    ]
    want = {"lattice": 1, "targeted": 3, "solved": 4}[kind]
    pos = {}
    for k, (name, s, e) in enumerate(names):
        for d in (s, e):
            n = sum(1 for t in toks if t == d)
            if n != (1 if k < want else 0):
                raise Violation("C06:regions:count", f"delimiter {d} occurs {n} times in the tokens of a {kind} maze, expected {1 if k < want else 0}")
            if n:
                pos[d] = toks.index(d)
    out = {}
    nxt = 0
    for name, s, e in names[:want]:
        if pos[s] != nxt:
            raise Violation("C06:regions:order", f"{s} is at position {pos[s]}, expected {nxt} (regions must be contiguous and in the order adjacency, origin, target, path)")
        if pos[e] < pos[s]:
            raise Violation("C06:regions:order", f"{e} precedes {s}")
        out[name] = list(toks[pos[s] + 1 : pos[e]])
        nxt = pos[e] + 1
    if nxt != len(toks):
        raise Violation("C06:regions:order", f"{len(toks) - nxt} tokens after the last region end")
    return out


def decode_adj(cfg, reg):
    """-> list of (lead, trail, marked_as_connection)"""
    V, _ = _vocab()
    cur = Cursor(reg, "C06:adjlist:layout")
    slots = ["lead", "trail"]
    slots.insert(cfg["ordinal"], "mark")
    edges = []
    while not cur.done():
        if cfg["adj_pre"]:
            cur.expect(V.ADJLIST_PRE)
        lead = trail = mark = None
        for s in slots:
            if s == "lead":
                lead = parse_coord(cfg["coord"], cur)
            elif s == "mark":
                mark = cur.one_of((V.CONNECTOR, V.ADJLIST_WALL), "a connection or wall marker")
            elif cfg["adj_kind"] == "coord":
                trail = parse_coord(cfg["coord"], cur)
            else:
                trail = cur.one_of(COMPASS, "a cardinal direction")
        if cfg["adj_post"]:
            cur.expect(V.ADJACENCY_ENDLINE)
        if cfg["adj_kind"] == "cardinal":
            d = DELTA[trail]
            trail = (lead[0] + d[0], lead[1] + d[1])
        edges.append((lead, trail, mark == V.CONNECTOR))
    return edges


def decode_path(cfg, reg):
    """-> (leading coordinate or None, list of dicts with the decoded step tokens)"""
    V, _ = _vocab()
    cur = Cursor(reg, "C06:path:layout")
    lead = None
    if "Coord" in cfg["steps"]:
        if cfg["path_pre"]:
            cur.expect(V.PATH_PRE)
        lead = parse_coord(cfg["coord"], cur)
        if cfg["path_intra"]:
            cur.expect(V.PATH_INTRA)
    steps = []
    while not cur.done():
        st = {}
        if cfg["path_pre"]:
            cur.expect(V.PATH_PRE)
        for s in cfg["steps"]:
            if s == "Coord":
                st["Coord"] = parse_coord(cfg["coord"], cur)
            elif s == "Cardinal":
                st["Cardinal"] = cur.one_of(COMPASS, "a cardinal direction")
            elif s == "Relative":
                st["Relative"] = cur.one_of(("FORWARD", "LEFT", "RIGHT", "BACKWARD", "STAY"), "a relative direction")
            else:
                x = cur.take()
                m = _DIST_RE.match(x)
                if not m:
                    raise Violation("C06:path:layout", f"expected a '+k' distance token at position {cur.i - 1}, found {x!r}")
                st["Distance"] = int(m.group(1))
            if cfg["path_intra"]:
                cur.expect(V.PATH_INTRA)
        if cfg["path_post"]:
            cur.expect(V.PATH_POST)
        steps.append(st)
    return lead, steps


# --------------------------------------------------------------------------------------------------------------
# what the maze says
def lattice_edges(shape):
    out = set()
    for c in S.cells(shape):
        for n in S.lattice_neighbors(shape, c):
            out.add(frozenset({c, n}))
    return out


def selected_edges(conn, subset):
    shape = conn.shape[1:]
    out = set()
    for e in lattice_edges(shape):
        a, b = tuple(e)
        is_c = S.edge(conn, a, b)
        if subset == "all" or (subset == "conn" and is_c) or (subset == "walls" and not is_c):
            out.add(e)
    return out


def step_indices(conn, sol, step_size):
    if step_size == "Singles":
        return list(range(len(sol)))
    out = []
    for k, c in enumerate(sol):
        endp = k == 0 or k == len(sol) - 1
        if endp or len(S.neighbors(conn, c)) > 2:  # endpoints always included
            out.append(k)
    return out


# --------------------------------------------------------------------------------------------------------------
def build_maze(mc):
    from maze_dataset.maze import LatticeMaze, SolvedMaze, TargetedLatticeMaze

    conn = np.array(mc["conn"], dtype=np.bool_).copy()
    if mc["kind"] == "lattice":
        return LatticeMaze(connection_list=conn)
    if mc["kind"] == "targeted":
        return TargetedLatticeMaze(connection_list=conn, start_pos=np.array(mc["start"]), end_pos=np.array(mc["end"]))
    return SolvedMaze(connection_list=conn, solution=np.array([list(c) for c in mc["solution"]]))


def seed_all(s):
    """the shuffles draw from python's random, numpy's global state and the package's module-level generator"""
    s = int(s) % (2**32)
    random.seed(s)
    np.random.seed(s)
    try:
        import maze_dataset.tokenization.maze_tokenizer as MT

        MT.numpy_rng.bit_generator.state = np.random.default_rng(s).bit_generator.state
    except AttributeError:
        pass


def _short(toks, n=400):
    toks = list(toks)
    return toks if len(toks) <= n else toks[:n] + [f"...({len(toks) - n} more)"]


def check_one(tok, mc, rng_seed, maze=None, raises_key="C06:raises"):
    """run the decoder on one (tokenizer, maze); -> list of failure dicts (key, what, input, observed)"""
    V, VOCAB_LIST = _vocab()
    fails = []
    name = tok.name
    inp = {
        "tokenizer": name,
        "kind": mc["kind"],
        "conn": np.array(mc["conn"], dtype=np.bool_),
        "start": mc.get("start"),
        "end": mc.get("end"),
        "solution": mc.get("solution"),
        "rng_seed": int(rng_seed),
    }
    cfg = cfg_of(tok)
    conn = np.array(mc["conn"], dtype=np.bool_)
    shape = conn.shape[1:]
    if maze is None:
        maze = build_maze(mc)
    seed_all(rng_seed)
    try:
        toks = tok.to_tokens(maze)
        toks2 = tok.to_tokens(maze) if not cfg["shuffle_d0"] else None
    except Exception as e:  # noqa: BLE001  the property promises a token sequence for every supported tokenizer and maze
        fails.append({"key": raises_key, "what": f"to_tokens raised {type(e).__name__}: {e}"[:300], "input": inp, "observed": None})
        return fails
    toks = list(toks)

    def fail(key, what):
        fails.append({"key": key, "what": what[:400], "input": inp, "observed": _short(toks)})

    # every token in the fixed vocabulary
    vs = _VOCAB_SET(VOCAB_LIST)
    bad = [t for t in toks if not isinstance(t, str) or t not in vs]
    if bad:
        fail("C06:vocab", f"tokens outside VOCAB_LIST: {bad[:5]}")
    # region structure
    try:
        regs = split_regions(toks, mc["kind"])
    except Violation as v:
        fail(v.key, v.what)
        return fails
    # ---- adjacency
    try:
        edges = decode_adj(cfg, regs["adj"])
    except Violation as v:
        fail(v.key, v.what)
        edges = None
    if edges is not None:
        want = selected_edges(conn, cfg["subset"])
        ok_lattice = True
        for lead, trail, mark in edges:
            if not (S.in_grid(shape, lead) and S.in_grid(shape, trail) and abs(lead[0] - trail[0]) + abs(lead[1] - trail[1]) == 1):
                fail("C06:adjlist:edge-set", f"decoded pair {lead}-{trail} is not an edge of the {shape[0]}x{shape[1]} lattice")
                ok_lattice = False
                break
        if ok_lattice:
            for lead, trail, mark in edges:
                if mark != S.edge(conn, lead, trail):
                    fail("C06:adjlist:wall-mark", f"edge {lead}-{trail} is marked {'connection' if mark else 'wall'} but the maze has {'a connection' if S.edge(conn, lead, trail) else 'a wall'} there")
                    break
            if cfg["permuter"] == "BothCoords":
                got = Counter((lead, trail) for lead, trail, _ in edges)
                exp = Counter()
                for e in want:
                    a, b = tuple(e)
                    exp[(a, b)] += 1
                    exp[(b, a)] += 1
            else:
                got = Counter(frozenset({lead, trail}) for lead, trail, _ in edges)
                exp = Counter(want)
            if got != exp:
                missing = list((exp - got).items())[:3]
                extra = list((got - exp).items())[:3]
                fail(
                    "C06:adjlist:edge-set",
                    f"edge multiset differs from the {cfg['subset']} selection ({cfg['permuter']}): {sum(got.values())} listed, {sum(exp.values())} expected; missing {[(sorted(k) if isinstance(k, frozenset) else k, n) for k, n in missing]} extra {[(sorted(k) if isinstance(k, frozenset) else k, n) for k, n in extra]}",
                )
            if cfg["permuter"] == "SortedCoords":
                for lead, trail, _ in edges:
                    if not lead < trail:
                        fail("C06:adjlist:sorted-orientation", f"SortedCoords lists {lead} before {trail}")
                        break
            if not cfg["shuffle_d0"]:
                # deterministic order: the same edge sequence in a second call (orientation may be random)
                try:
                    regs2 = split_regions(list(toks2), mc["kind"])
                    edges2 = decode_adj(cfg, regs2["adj"])
                    if [frozenset({a, b}) for a, b, _ in edges] != [frozenset({a, b}) for a, b, _ in edges2]:
                        fail("C06:adjlist:order", "shuffle_d0=False but two calls list the edges in different orders")
                except Violation as v:
                    fail(v.key, "second call: " + v.what)
                if cfg["permuter"] == "SortedCoords":
                    seq = [(a, b) for a, b, _ in edges]
                    if seq != sorted(seq):
                        fail("C06:adjlist:order", "shuffle_d0=False with SortedCoords but the edges are not in lexicographic order")
    if mc["kind"] == "lattice":
        return fails
    start = tuple(int(x) for x in mc["start"])
    end = tuple(int(x) for x in mc["end"])
    # ---- origin
    try:
        cur = Cursor(regs["origin"], "C06:origin")
        o = parse_coord(cfg["coord"], cur)
        if not cur.done():
            raise Violation("C06:origin", f"{len(regs['origin']) - cur.i} extra tokens in the origin region")
        if o != start:
            fail("C06:origin", f"origin region decodes to {o}, the maze starts at {start}")
    except Violation as v:
        fail("C06:origin", v.what)
    # ---- target
    try:
        cur = Cursor(regs["target"], "C06:target")
        if cfg["seq"] == "AOP":
            if regs["target"]:
                raise Violation("C06:target", f"AOP target region is not empty: {regs['target'][:6]}")
        else:
            t = parse_coord(cfg["coord"], cur)
            if cfg["target_post"]:
                cur.expect(V.TARGET_POST)
            if not cur.done():
                raise Violation("C06:target", f"{len(regs['target']) - cur.i} extra tokens in the target region")
            if t != end:
                fail("C06:target", f"target region decodes to {t}, the maze ends at {end}")
    except Violation as v:
        fail("C06:target", v.what)
    if mc["kind"] != "solved":
        return fails
    # ---- path
    sol = [tuple(int(x) for x in c) for c in mc["solution"]]
    try:
        lead, steps = decode_path(cfg, regs["path"])
    except Violation as v:
        fail(v.key, v.what)
        return fails
    idx = step_indices(conn, sol, cfg["step_size"])
    if len(steps) != len(idx) - 1:
        fail(
            "C06:path:forks" if cfg["step_size"] == "Forks" else "C06:path:steps",
            f"{len(steps)} steps decoded, {len(idx) - 1} expected for step size {cfg['step_size']} (step end points at solution indices {idx})",
        )
        return fails
    if lead is not None and lead != sol[0]:
        fail("C06:path:coord", f"path starts with coordinate {lead}, the solution starts at {sol[0]}")
    seen_keys = set()
    pos = sol[0]  # walking decoder for the coordinates
    for k, st in enumerate(steps):
        a, b = idx[k], idx[k + 1]
        first_move = (sol[a + 1][0] - sol[a][0], sol[a + 1][1] - sol[a][1])
        heading = "NORTH" if a == 0 else _dir_name((sol[a][0] - sol[a - 1][0], sol[a][1] - sol[a - 1][1]))
        if "Coord" in st:
            pos = st["Coord"]
            if pos != sol[b] and "coord" not in seen_keys:
                seen_keys.add("coord")
                fail("C06:path:coord", f"step {k} ends at decoded coordinate {pos}, the solution has {sol[b]} (index {b})")
        if "Cardinal" in st:
            if DELTA[st["Cardinal"]] != first_move and "card" not in seen_keys:
                seen_keys.add("card")
                fail("C06:path:cardinal", f"step {k} from {sol[a]} says {st['Cardinal']}, the solution moves to {sol[a + 1]}")
        if "Relative" in st:
            if first_move == (0, 0):
                want_rel = "STAY"
            elif heading is None:
                want_rel = None  # heading undefined after a stay: nothing is promised
            else:
                want_rel = rel_word(heading, _dir_name(first_move))
            if want_rel is not None and st["Relative"] != want_rel and "rel" not in seen_keys:
                seen_keys.add("rel")
                fail("C06:path:relative", f"step {k} at {sol[a]} facing {heading} moves to {sol[a + 1]}: token {st['Relative']}, expected {want_rel}")
        if "Distance" in st:
            if st["Distance"] != b - a and "dist" not in seen_keys:
                seen_keys.add("dist")
                fail("C06:path:distance", f"step {k} covers {b - a} unit moves (solution indices {a}..{b}), token says +{st['Distance']}")
    return fails


def _dir_name(d):
    for n, v in DELTA.items():
        if v == tuple(d):
            return n
    return None


_VS_CACHE = {}


def _VOCAB_SET(vl):
    k = id(vl)
    if k not in _VS_CACHE:
        _VS_CACHE[k] = set(vl)
    return _VS_CACHE[k]


# --------------------------------------------------------------------------------------------------------------
# enumeration of tokenizer configurations
_ELEMS = None


def elements():
    """the element configurations, enumerated the way all_tokenizers.get_all_tokenizers does (same validation functions)"""
    global _ELEMS
    if _ELEMS is None:
        from maze_dataset.tokenization.all_tokenizers import MAZE_TOKENIZER_MODULAR_DEFAULT_VALIDATION_FUNCS as VF
        from maze_dataset.tokenization.maze_tokenizer import AdjListTokenizers, CoordTokenizers, PathTokenizers, TargetTokenizers
        from maze_dataset.utils import all_instances

        _ELEMS = {
            "coord": list(all_instances(CoordTokenizers._CoordTokenizer, VF)),
            "adj": list(all_instances(AdjListTokenizers._AdjListTokenizer, VF)),
            "target": list(all_instances(TargetTokenizers._TargetTokenizer, VF)),
            "path": list(all_instances(PathTokenizers._PathTokenizer, VF)),
        }
        for k in _ELEMS:
            _ELEMS[k].sort(key=lambda e: e.name)
    return _ELEMS


def make_tok(seq, ct, al, tt, pt):
    from maze_dataset.tokenization.maze_tokenizer import MazeTokenizerModular, PromptSequencers

    if seq == "AOTP":
        ps = PromptSequencers.AOTP(coord_tokenizer=ct, adj_list_tokenizer=al, target_tokenizer=tt, path_tokenizer=pt)
    else:
        ps = PromptSequencers.AOP(coord_tokenizer=ct, adj_list_tokenizer=al, path_tokenizer=pt)
    return MazeTokenizerModular(prompt_sequencer=ps)


def _split_top(s):
    parts, depth, cur = [], 0, ""
    i = 0
    while i < len(s):
        ch = s[i]
        if ch == "(":
            depth += 1
        elif ch == ")":
            depth -= 1
        if depth == 0 and s.startswith(", ", i):
            parts.append(cur)
            cur = ""
            i += 2
            continue
        cur += ch
        i += 1
    if cur:
        parts.append(cur)
    return parts


def tokenizer_from_name(name):
    """rebuild by matching the element names against the enumerated element configurations"""
    E = elements()
    pre = "MazeTokenizerModular-"
    if not name.startswith(pre):
        raise ValueError(name)
    body = name[len(pre) :]
    seq, inner = body.split("(", 1)
    parts = _split_top(inner[:-1])
    by = {k: {e.name: e for e in v} for k, v in E.items()}
    if seq == "AOTP":
        c, a, t, p = parts
        tok = make_tok(seq, by["coord"][c], by["adj"][a], by["target"][t], by["path"][p])
    else:
        c, a, p = parts
        tok = make_tok(seq, by["coord"][c], by["adj"][a], None, by["path"][p])
    if tok.name != name:
        raise ValueError(f"rebuilt {tok.name} for {name}")
    return tok


# --------------------------------------------------------------------------------------------------------------
# mazes
def _bfs_path(conn, s, e):
    par = {s: None}
    q = deque([s])
    while q:
        u = q.popleft()
        if u == e:
            break
        for v in S.neighbors(conn, u):
            if v not in par:
                par[v] = u
                q.append(v)
    if e not in par:
        return None
    out = [e]
    while par[out[-1]] is not None:
        out.append(par[out[-1]])
    return out[::-1]


def _cases_of(conn, rng, tag, big=False):
    """three maze cases (one per kind) on one connection structure"""
    R, C = conn.shape[1:]
    cells = S.cells((R, C))
    out = [{"kind": "lattice", "conn": conn, "tag": tag}]
    a = cells[int(rng.integers(len(cells)))]
    b = cells[int(rng.integers(len(cells)))]
    out.append({"kind": "targeted", "conn": conn, "start": a, "end": b, "tag": tag})
    # solved: a shortest path between two cells of one component, preferring long ones
    best = None
    for _ in range(1 if big else 5):
        s = cells[int(rng.integers(len(cells)))]
        comp = sorted(S.component(conn, s))
        e = comp[int(rng.integers(len(comp)))]
        if big:
            p = _bfs_path(conn, s, e)
        else:
            sp = S.all_shortest_paths(conn, s, e)
            p = sp[int(rng.integers(len(sp)))]
        if best is None or len(p) > len(best):
            best = p
    out.append({"kind": "solved", "conn": conn, "start": best[0], "end": best[-1], "solution": best, "tag": tag})
    return out


def maze_pool(tier, seed):
    from maze_dataset.generation import LatticeMazeGenerators as G

    rng = np.random.default_rng(seed + 606)
    seed_all(seed + 607)
    sizes = [2, 3, 4, 5, 6] if tier == "quick" else [2, 3, 4, 5, 6, 7, 8]
    reps = 2 if tier == "quick" else 4
    conns = []
    for i in range(16):
        conns.append((S.conn_from_index(2, 2, i), "2x2-all"))
    for n in sizes:
        for _ in range(reps):
            conns.append((np.array(G.gen_dfs(np.array([n, n])).connection_list, dtype=np.bool_), "tree"))
            conns.append((np.array(G.gen_dfs_percolation(np.array([n, n]), p=float(rng.choice([0.2, 0.4]))).connection_list, dtype=np.bool_), "cyclic"))
            conns.append((S.random_conn(rng, n, n, p=float(rng.choice([0.4, 0.6, 0.8]))), "random"))
    pool = {"lattice": [], "targeted": [], "solved": []}
    for conn, tag in conns:
        if tag == "tree" and not S.is_spanning_tree(conn):
            raise RuntimeError("gen_dfs did not return a spanning tree")
        for mc in _cases_of(conn, rng, tag):
            pool[mc["kind"]].append(mc)
    # a start==end solved maze (a one-cell solution is a valid SolvedMaze)
    c0 = conns[20][0]
    pool["solved"].append({"kind": "solved", "conn": c0, "start": (1, 1), "end": (1, 1), "solution": [(1, 1)], "tag": "one-cell"})
    return pool


# --------------------------------------------------------------------------------------------------------------
# work distribution
_W = {}


def _task_seed(seed, *parts):
    h = hashlib.blake2b(repr((seed,) + parts).encode(), digest_size=4).digest()
    return int.from_bytes(h, "big")


def _run_chunk(chunk):
    """chunk: list of (check, seq, ci, ai, ti, pi, [(kind, mi), ...], base seed)"""
    warnings.simplefilter("ignore")
    E, pool = _W["E"], _W["pool"]
    mcache = _W.setdefault("mcache", {})
    out = []
    for check, seq, ci, ai, ti, pi, mazes, seed in chunk:
        try:
            tok = make_tok(seq, E["coord"][ci], E["adj"][ai], E["target"][ti] if seq == "AOTP" else None, E["path"][pi])
            name = tok.name
            for kind, mi in mazes:
                mc = pool[kind][mi]
                if (kind, mi) not in mcache:
                    mcache[(kind, mi)] = build_maze(mc)
                rs = _task_seed(seed, name, kind, mi)
                fails = check_one(tok, mc, rs, maze=mcache[(kind, mi)])
                nontriv = bool(np.asarray(mc["conn"]).any()) and (kind != "solved" or len(mc["solution"]) >= 3)
                out.append((check, (name, kind, mi), nontriv, fails, None))
        except Exception as e:  # noqa: BLE001
            out.append((check, None, False, [], f"{type(e).__name__}: {e}\n{traceback.format_exc(limit=6)}"))
    return out


def _pick(rng, pool, kind, n, prefer=None):
    idxs = list(range(len(pool[kind])))
    if prefer is not None:
        pref = [i for i in idxs if pool[kind][i]["tag"] in prefer]
        if pref:
            idxs = pref
    return [(kind, idxs[int(rng.integers(len(idxs)))]) for _ in range(n)]


FIELDS = ["seq", "coord", "akind", "apost", "ashuf", "aord", "asub", "aperm", "tpost", "ssize", "sperm", "ppre", "pintra", "ppost"]


def _field_index(E):
    """element index by the field values (read off the enumerated objects)"""
    adj, path = {}, {}
    for i, a in enumerate(E["adj"]):
        adj[(type(a).__name__, bool(a.post), bool(a.shuffle_d0), int(a.edge_grouping.connection_token_ordinal), a.edge_subset.name, type(a.edge_permuter).__name__)] = i
    perms = []
    for i, p in enumerate(E["path"]):
        pm = tuple(type(s).__name__ for s in p.step_tokenizers)
        if pm not in perms:
            perms.append(pm)
        path[(type(p.step_size).__name__, pm, bool(p.pre), bool(p.intra), bool(p.post))] = i
    tgt = {bool(t.post): i for i, t in enumerate(E["target"])}
    return adj, path, tgt, sorted(perms)


def pairwise_configs(E, rng):
    """a greedy seeded set of full configurations covering every pair of field values"""
    adj, path, tgt, perms = _field_index(E)
    dom = {
        "seq": ["AOTP", "AOP"],
        "coord": list(range(len(E["coord"]))),
        "akind": sorted({k[0] for k in adj}),
        "apost": sorted({k[1] for k in adj}),
        "ashuf": sorted({k[2] for k in adj}),
        "aord": sorted({k[3] for k in adj}),
        "asub": sorted({k[4] for k in adj}),
        "aperm": sorted({k[5] for k in adj}),
        "tpost": [False, True],
        "ssize": sorted({k[0] for k in path}),
        "sperm": perms,
        "ppre": [False, True],
        "pintra": [False, True],
        "ppost": [False, True],
    }
    uncovered = set()
    for i, f in enumerate(FIELDS):
        for g in FIELDS[i + 1 :]:
            for x in range(len(dom[f])):
                for y in range(len(dom[g])):
                    uncovered.add((f, x, g, y))
    order = sorted(uncovered)
    rng.shuffle(order)
    configs = []

    def pairs_of(c):
        return {(f, c[f], g, c[g]) for i, f in enumerate(FIELDS) for g in FIELDS[i + 1 :]}

    for p in order:
        if p not in uncovered:
            continue
        best, bestn = None, -1
        for _ in range(6):
            c = {f: int(rng.integers(len(dom[f]))) for f in FIELDS}
            c[p[0]], c[p[2]] = p[1], p[3]
            n = len(pairs_of(c) & uncovered)
            if n > bestn:
                best, bestn = c, n
        uncovered -= pairs_of(best)
        configs.append(best)
    out = []
    for c in configs:
        v = {f: dom[f][c[f]] for f in FIELDS}
        ai = adj[(v["akind"], v["apost"], v["ashuf"], v["aord"], v["asub"], v["aperm"])]
        pi = path[(v["ssize"], v["sperm"], v["ppre"], v["pintra"], v["ppost"])]
        out.append((v["seq"], v["coord"], ai, tgt[v["tpost"]], pi))
    return out


def _default_indices(E):
    adj, path, tgt, _ = _field_index(E)
    ai = adj[("AdjListCoord", True, True, 1, "ConnectionEdges(walls=F)", "RandomCoords")]
    pi = path[("Singles", ("Coord",), False, False, False)]
    return ai, pi, tgt


def plan(tier, seed, E, pool):
    rng = np.random.default_rng(seed + 6)
    ai0, pi0, tgt = _default_indices(E)
    nC, nA, nP = len(E["coord"]), len(E["adj"]), len(E["path"])
    tasks = []
    cross = [(s, c) for s in ("AOTP", "AOP") for c in range(nC)]

    def slice_cross():
        if tier != "quick":
            return list(cross)
        k = 2 + (1 if rng.random() < 0.25 else 0)  # 18/8 = 2.25 on average
        return [cross[int(i)] for i in rng.choice(len(cross), size=k, replace=False)]

    # adjacency sweep: fixed simple path tokenizer
    for ai in range(nA):
        for s, c in slice_cross():
            if tier == "quick":
                mz = _pick(rng, pool, "lattice", 1) + _pick(rng, pool, "targeted", 1) + _pick(rng, pool, "solved", 1)
            else:
                mz = _pick(rng, pool, "lattice", 2) + _pick(rng, pool, "targeted", 2) + _pick(rng, pool, "solved", 2)
            tasks.append(("adj", s, c, ai, int(rng.integers(2)), pi0, mz, seed))
    # path sweep: fixed adjacency tokenizer
    for pi in range(nP):
        for s, c in slice_cross():
            if tier == "quick":
                mz = _pick(rng, pool, "solved", 1, prefer=("tree",)) + _pick(rng, pool, "solved", 1, prefer=("cyclic", "random", "2x2-all", "one-cell")) + _pick(rng, pool, "targeted" if rng.random() < 0.5 else "lattice", 1)
            else:
                mz = _pick(rng, pool, "solved", 2, prefer=("tree",)) + _pick(rng, pool, "solved", 2, prefer=("cyclic", "random", "2x2-all", "one-cell")) + _pick(rng, pool, "targeted", 1) + _pick(rng, pool, "lattice", 1)
            tasks.append(("path", s, c, ai0, int(rng.integers(2)), pi, mz, seed))
    # full configurations: pairwise-covering over the field values + a seeded random sample
    pw = pairwise_configs(E, rng)
    nrand = 500 if tier == "quick" else 6000
    full = list(pw)
    for _ in range(nrand):
        full.append((("AOTP", "AOP")[int(rng.integers(2))], int(rng.integers(nC)), int(rng.integers(nA)), int(rng.integers(2)), int(rng.integers(nP))))
    for s, c, ai, ti, pi in full:
        n = 1 if tier == "quick" else 2
        mz = _pick(rng, pool, "solved", n) + _pick(rng, pool, "targeted" if rng.random() < 0.5 else "lattice", 1)
        tasks.append(("full", s, c, ai, ti, pi, mz, seed))
    return tasks, len(pw), nrand


def big_cases(seed):
    """one 50x50 maze: every coordinate of the largest supported grid must stay inside the vocabulary"""
    from maze_dataset.generation import LatticeMazeGenerators as G

    seed_all(seed + 5050)
    rng = np.random.default_rng(seed + 5050)
    conn = np.array(G.gen_dfs_percolation(np.array([50, 50]), p=0.05).connection_list, dtype=np.bool_)
    return _cases_of(conn, rng, "50x50", big=True)


# set False to leave the long-corridor cases out (they fail on the pinned tree: see corridor_check)
INCLUDE_LONG_CORRIDOR = True


def serpentine(n):
    """one corridor through all n*n cells: rows joined alternately at the right and the left end"""
    conn = np.zeros((2, n, n), dtype=np.bool_)
    conn[1, :, : n - 1] = True
    sol = []
    for i in range(n):
        if i < n - 1:
            conn[0, i, (n - 1) if i % 2 == 0 else 0] = True
        sol += [(i, j) for j in (range(n) if i % 2 == 0 else range(n - 1, -1, -1))]
    return conn, sol


def corridor_check(res):
    """fork-free corridors of 255 and 288 unit moves (16x16 and 17x17 serpentine mazes, inside the statement's 2..50):
    with step size Forks the whole solution is one step, so a Distance token must say +255 / +288."""
    E = elements()
    adj, path, tgt, _ = _field_index(E)
    ai0, _, _ = _default_indices(E)
    for n in (16, 17):
        conn, sol = serpentine(n)
        mc = {"kind": "solved", "conn": conn, "start": sol[0], "end": sol[-1], "solution": sol, "tag": f"serpentine-{n}"}
        for ci, pkey in ((0, ("Forks", ("Coord", "Distance"), False, False, False)), (len(E["coord"]) - 1, ("Forks", ("Distance", "Cardinal"), True, True, True)), (0, ("Singles", ("Distance", "Relative"), False, True, False))):
            tok = make_tok("AOTP", E["coord"][ci], E["adj"][ai0], E["target"][0], E["path"][path[pkey]])
            res.seen((tok.name, n), nontrivial=True, sample={"tokenizer": tok.name, "maze": f"serpentine {n}x{n}", "corridor_moves": len(sol) - 1})
            for f in check_one(tok, mc, 0, raises_key="C06:raises:distance-range"):
                res.fail(f["key"], f["what"], f["input"], f["observed"])


# --------------------------------------------------------------------------------------------------------------
def run(tier, seed):
    warnings.simplefilter("ignore")
    t0 = time.time()
    slice_txt = (
        "a seeded 1/8 slice of the (prompt sequencer x 9 coordinate tokenizers) cross per element configuration (every element configuration occurs), 3 mazes each"
        if tier == "quick"
        else "both prompt sequencers x all 9 coordinate tokenizers per element configuration, 6 mazes each"
    )
    maze_txt = (
        "mazes drawn from a seeded pool: all 16 graphs on 2x2, gen_dfs trees, gen_dfs_percolation cyclic mazes and random connection structures on "
        + ("2x2..6x6" if tier == "quick" else "2x2..8x8")
        + ", each as LatticeMaze / TargetedLatticeMaze / SolvedMaze (a random shortest path, longest of 5 draws; one start==end solution); shuffles seeded per evaluation; "
        "non-trivial = some connection and (solved) a solution of >= 3 cells; distinct by (tokenizer name, maze)"
    )
    R = {
        "adj": BoundedResult(
            "C06.decoder.adjlist-configs",
            rule="all 216 adjacency-list tokenizer configurations (utils.all_instances with the library's validation functions), fixed path tokenizer StepSequence(Singles,(Coord,)); " + slice_txt + "; " + maze_txt,
            exhaustive=False,
            functions=["AdjListTokenizers._AdjListTokenizer.to_tokens", "_tokenize_edge_grouping", "EdgeSubsets.*._get_edges", "EdgePermuters.*._permute", "EdgeGroupings.Ungrouped", "CoordTokenizers.UT/CTT.to_tokens"],
        ),
        "path": BoundedResult(
            "C06.decoder.path-configs",
            rule="all 1008 path tokenizer configurations, fixed adjacency tokenizer AdjListCoord(post, shuffle_d0, ordinal 1, connections, RandomCoords); " + slice_txt + " (at least 2 solved); " + maze_txt,
            exhaustive=False,
            functions=["PathTokenizers.StepSequence.to_tokens", "_single_step_tokens", "_leading_tokens", "StepSizes.Singles/Forks", "StepTokenizers.Coord/Cardinal/Relative/Distance.to_tokens", "TargetTokenizers.Unlabeled.to_tokens"],
        ),
        "full": BoundedResult(
            "C06.decoder.full-configs",
            rule="full configurations: a greedy seeded set covering every pair of values of the 14 configuration fields (sequencer, coordinate tokenizer, 6 adjacency fields, target post, step size, step tokenizer permutation, 3 path flags) plus a seeded random sample ("
            + ("500" if tier == "quick" else "6000")
            + "); "
            + ("2" if tier == "quick" else "3")
            + " mazes each"
            + ("; plus one 50x50 maze (3 kinds) x 9 coordinate tokenizers x 4 full configurations for vocabulary membership" if tier != "quick" else "")
            + "; "
            + maze_txt,
            exhaustive=False,
            functions=["MazeTokenizerModular.to_tokens", "_PromptSequencer.to_tokens", "_get_prompt_regions", "_trim_if_unsolved_maze", "AOTP/AOP._sequence_tokens"],
        ),
    }
    RC = BoundedResult(
        "C06.decoder.long-corridor",
        rule="serpentine 16x16 and 17x17 solved mazes (one fork-free corridor of 255 / 288 moves) x 3 path configurations with a Distance step tokenizer (Forks x2, Singles x1); checks that the step distance stays expressible in the vocabulary",
        exhaustive=False,
        functions=["StepTokenizers.Distance.to_tokens"],
    )
    try:
        _selftest()
        E = elements()
        if (len(E["coord"]), len(E["adj"]), len(E["path"]), len(E["target"])) != (9, 216, 1008, 2):
            R["full"].errors.append(f"element enumeration changed: {[(k, len(v)) for k, v in E.items()]} (expected 9/216/1008/2): the statement's quantifier is no longer what is enumerated")
        pool = maze_pool(tier, seed)
        tasks, npw, nrand = plan(tier, seed, E, pool)
        if tier != "quick":
            big = big_cases(seed)
            base = {k: len(pool[k]) for k in pool}
            for mc in big:
                pool[mc["kind"]].append(mc)
            adj, path, tgt, _ = _field_index(E)
            rngb = np.random.default_rng(seed + 50)
            for c in range(len(E["coord"])):
                for j in range(4):
                    ai = adj[(("AdjListCoord", "AdjListCardinal")[j % 2], True, bool(j // 2), j % 3, ("AllLatticeEdges()", "ConnectionEdges(walls=T)")[j // 2], ("SortedCoords", "BothCoords")[j % 2])]
                    tasks.append(("full", ("AOTP", "AOP")[j % 2], c, ai, j % 2, int(rngb.integers(len(E["path"]))), [(k, base[k]) for k in ("lattice", "targeted", "solved")], seed))
        _W["E"], _W["pool"] = E, pool
        _W.pop("mcache", None)
        nproc = max(1, min(16, os.cpu_count() or 1))
        csize = 24
        # interleave so that the heavy tasks are spread over the chunks
        order = list(range(len(tasks)))
        np.random.default_rng(seed).shuffle(order)
        chunks = [[tasks[i] for i in order[k : k + csize]] for k in range(0, len(order), csize)]
        if nproc > 1:
            ctx = multiprocessing.get_context("fork")
            with ctx.Pool(nproc) as p:
                outs = p.map(_run_chunk, chunks)
        else:
            outs = [_run_chunk(c) for c in chunks]
        rows = [r for o in outs for r in o]
        rows.sort(key=lambda r: (r[0], repr(r[1])))
        for check, key, nontriv, fails, err in rows:
            res = R[check]
            if err is not None:
                if len(res.errors) < 5:
                    res.errors.append(err)
                continue
            sample = None
            if len(res.samples) < 2:
                sample = {"tokenizer": key[0], "maze_kind": key[1], "pool_index": key[2], "tag": pool[key[1]][key[2]]["tag"], "shape": list(np.asarray(pool[key[1]][key[2]]["conn"]).shape[1:])}
            res.seen(key, nontrivial=nontriv, sample=sample)
            for f in fails:
                res.fail(f["key"], f["what"], f["input"], f["observed"])
    except Exception as e:  # noqa: BLE001
        R["full"].errors.append(f"{type(e).__name__}: {e}\n{traceback.format_exc(limit=6)}")
    dt = time.time() - t0
    tot = sum(r.evaluations for r in R.values()) or 1
    for r in R.values():
        r.seconds = dt * r.evaluations / tot
    out = [R["adj"], R["path"], R["full"]]
    if INCLUDE_LONG_CORRIDOR:
        t1 = time.time()
        try:
            corridor_check(RC)
        except Exception as e:  # noqa: BLE001
            RC.errors.append(f"{type(e).__name__}: {e}\n{traceback.format_exc(limit=6)}")
        RC.seconds = time.time() - t1
        out.append(RC)
    return out


def replay(check, inp):
    """re-run one recorded input; True iff the decoder now recovers the maze from the tokens"""
    warnings.simplefilter("ignore")
    tok = tokenizer_from_name(inp["tokenizer"])
    mc = {"kind": inp["kind"], "conn": np.array(inp["conn"], dtype=np.bool_), "tag": "replay"}
    for k in ("start", "end", "solution"):
        v = inp.get(k)
        if v is not None:
            v = np.array(v).tolist()
            mc[k] = tuple(v) if k != "solution" else [tuple(c) for c in v]
    fails = check_one(tok, mc, int(inp["rng_seed"]))
    for f in fails:
        print("  still failing:", f["key"], f["what"])
    return not fails
