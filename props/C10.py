"""C10 - pixel and ASCII renderings are faithful and invertible."""
ID = "C10"
LEVEL = "exploration"
LEVEL_TEXT = 'PROVED (unbounded, z3): the black/white image builder (shape (2r+1,2c+1), cell pixels open, the pixel between two adjacent cells open exactly when connected, everything else wall - four loop invariants) and its reader (_from_pixel_grid_bw recovers exactly those bits for every odd-sized image). Bounded: image geometry, border, cell/edge pixels, endpoint and path colours, the ASCII text, and both read-back directions for all connection structures up to 2x3/3x2 (sampled or all 4096 on 3x3), all three kinds, all start != end pairs with all their shortest paths and all accepted flag combinations.'
LEVEL_NOTE = 'Trusted: numpy.'
TECHNIQUE = "contracts on the leaf functions discharged by z3 (pyvc) + bounded stand-in of the contract-based verifier: run-time checking of the real code against an independent executable statement over an enumerated scope (the proved leaf functions are listed in evidence; the property as a whole is decided by the bounded stand-in)"
CONTRACT_MODULES = ['contracts.pixels']
PROVE = [('maze_dataset/maze/lattice_maze.py', 'LatticeMaze._as_pixels_bw'), ('maze_dataset/maze/lattice_maze.py', 'LatticeMaze._from_pixel_grid_bw')]
ASSUMPTIONS = []
EXPLANATION = "see DESIGN.md C10"


def run(run):
    from props._std import run_bounded

    if PROVE:
        run.prove(PROVE)
    run_bounded(run, "C10")
