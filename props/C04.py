"""C04 - serial dataset generation is a pure function of the configuration."""
ID = "C04"
LEVEL = "exploration"
LEVEL_TEXT = 'Bounded two-run experiments: generate twice in one process under perturbed global RNG histories (python, numpy, torch, other generations, other config constructions) and in subprocesses with different PYTHONHASHSEED, compare bytes; from_config without cache against generate + filters by hand; the passed configuration is compared before/after. A hyperproperty over histories is not expressible as a single-run contract; the contract-side argument (only seeded global streams are read between seeding and return) is documented in DESIGN.md, not machine-checked.'
LEVEL_NOTE = 'Trusted: muutils set_reproducibility seeds python/numpy/torch.'
TECHNIQUE = "bounded stand-in of the contract-based verifier: run-time checking of the real code against an independent executable statement over an enumerated scope (no function of this property is in the verified subset yet)"
CONTRACT_MODULES = []
PROVE = []
ASSUMPTIONS = []
EXPLANATION = "see DESIGN.md C04"


def run(run):
    from props._std import run_bounded

    if PROVE:
        run.prove(PROVE)
    run_bounded(run, "C04")
