"""Sidecar contracts for the coordinate tokenizers (C06: `origin and target regions give the start and end cells`; coordinates in every region)."""
from pyvc.contracts import contract, REGISTRY
from pyvc import tys as T

MT = "maze_dataset/tokenization/maze_tokenizer.py"
REGISTRY.inlinable.update({("maze_dataset/utils.py", "empty_sequence_if_attr_false")})
FLAG = T.OneOf(T.Const(True), T.Const(False))


@contract(MT, "CoordTokenizers.UT.to_tokens")
class ut_to_tokens:
    """one token per cell, the text `(row,col)` with both numbers in decimal - row first"""
    params = dict(self=T.RecT("UT"), coord=T.Coord)
    requires = ["coord[0] >= 0", "coord[1] >= 0"]
    ensures = {"C06.coord.UT": "len(result) == 1 and result[0] == '(' + str(coord[0]) + ',' + str(coord[1]) + ')'"}
    result = T.ListT(T.Str)
    props = ["C06"]


@contract(MT, "CoordTokenizers.CTT.to_tokens")
class ctt_to_tokens:
    """the row number, then the column number, each as its own decimal token, with the three delimiters present exactly as the parameters say"""
    params = dict(self=T.RecT("CTT", pre=FLAG, intra=FLAG, post=FLAG), coord=T.Coord)
    requires = ["coord[0] >= 0", "coord[1] >= 0"]
    lets = dict(p="1 if self.pre else 0", i="1 if self.intra else 0", q="1 if self.post else 0")
    ensures = {
        "C06.coord.CTT.len": "len(result) == 2 + p + i + q",
        # (each clause first restates the length: with a wrong length the clause is false instead of indexing past the end)
        "C06.coord.CTT.numbers": "len(result) == 2 + p + i + q and result[p] == str(coord[0]) and result[p + 1 + i] == str(coord[1])",
        "C06.coord.CTT.delimiters": "len(result) == 2 + p + i + q and ((result[0] == VOCAB.COORD_PRE) if self.pre else True) and ((result[p + 1] == VOCAB.COORD_INTRA) if self.intra else True)"
        " and ((result[p + i + 2] == VOCAB.COORD_POST) if self.post else True)",
    }
    result = T.ListT(T.Str)
    props = ["C06"]


TU = "maze_dataset/token_utils.py"


@contract(TU, "_coord_to_strings_UT")
class legacy_coord_ut:
    """C07 (legacy, unique-token modes): a cell is the single token `(row,col)`"""
    params = dict(coord=T.Coord)
    requires = ["coord[0] >= 0", "coord[1] >= 0"]
    ensures = {"C07.coord.UT": "len(result) == 1 and result[0] == '(' + str(coord[0]) + ',' + str(coord[1]) + ')'"}
    result = T.ListT(T.Str)
    props = ["C07"]


@contract(TU, "_coord_to_strings_indexed")
class legacy_coord_indexed:
    """C07 (legacy, indexed mode): a cell is the five tokens ( row , col )"""
    params = dict(coord=T.Coord)
    requires = ["coord[0] >= 0", "coord[1] >= 0"]
    ensures = {"C07.coord.indexed": "len(result) == 5 and result[0] == '(' and result[1] == str(coord[0]) and result[2] == ',' and result[3] == str(coord[1]) and result[4] == ')'"}
    result = T.ListT(T.Str)
    props = ["C07"]


L = "/verif/contracts/lemmas_src.py"
REGISTRY.class_files.update({"UT": MT, "CTT": MT})


def _same_list(a, b, n):
    return f"len(result[{a}]) == {n} and len(result[{b}]) == {n} and " + " and ".join(f"result[{a}][{k}] == result[{b}][{k}]" for k in range(n))


@contract(L, "coord_tokens_agree")
class coord_tokens_agree:
    """Lemma C07.coords-agree: for every cell, the legacy unique-token modes and the modular UT tokenizer emit the same single token, and the legacy indexed
    mode and the modular CTT tokenizer with its default delimiters (pre, intra, post all on) emit the same five tokens - from the four contracts"""
    params = dict(ut=T.RecT("UT"), ctt=T.RecT("CTT", pre=T.Const(True), intra=T.Const(True), post=T.Const(True)), coord=T.Coord)
    requires = ["coord[0] >= 0", "coord[1] >= 0"]
    ensures = {"C07.coords-agree.UT": _same_list(0, 1, 1), "C07.coords-agree.CTT": _same_list(2, 3, 5)}
    options = dict(no_concrete=True)
    props = ["C07", "C06"]
