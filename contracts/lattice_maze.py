"""Sidecar contracts for maze_dataset/maze/lattice_maze.py (graph views: C13, used by C01/C02/C03/C12)."""
from pyvc.contracts import contract, Loop
from pyvc import tys as T

F = "maze_dataset/maze/lattice_maze.py"


@contract(F, "LatticeMaze.heuristic")
class heuristic:
    params = dict(a=T.CoordTup, b=T.CoordTup)
    ensures = {
        "C13.manhattan": "result == abs(a[0] - b[0]) + abs(a[1] - b[1])",
        "C02.H.nonneg": "result >= 0",
    }
    result = T.Int
    props = ["C13", "C02"]


@contract(F, "LatticeMaze.nodes_connected")
class nodes_connected:
    params = dict(self=T.Maze(), a=T.Coord, b=T.Coord)
    # from call sites: both callers check bounds of both cells first
    requires = ["self.connection_list.shape[0] == 2", "in_grid(self, a)", "in_grid(self, b)"]
    ensures = {"C13.edge": "result == edge(self, a, b)"}
    result = T.Bool
    props = ["C13"]


@contract(F, "LatticeMaze.get_coord_neighbors")
class get_coord_neighbors:
    params = dict(self=T.Maze(), c=T.Coord)
    requires = ["self.connection_list.shape[0] == 2", "in_grid(self, c)"]
    ensures = {
        # the neighbour list and the connection structure describe the same graph
        "C13.members": "forall(lambda i, j: ((i, j) in result) == edge(self, c, (i, j)), None, None)",
        "C13.once": "distinct_rows(result)",
        "C13.atmost4": "nrows(result) <= 4",
        # as many rows as there are connections at c
        "C13.count": "nrows(result) == ite(edge(self, c, (c[0] + 1, c[1])), 1, 0) + ite(edge(self, c, (c[0] - 1, c[1])), 1, 0)"
        " + ite(edge(self, c, (c[0], c[1] + 1)), 1, 0) + ite(edge(self, c, (c[0], c[1] - 1)), 1, 0)",
    }
    result = T.GuardedRowsT(4, 2)
    props = ["C13"]


@contract(F, "LatticeMaze.is_valid_path")
class is_valid_path:
    params = dict(self=T.Maze(), path=T.GridT("int", [None, 2]), empty_is_valid=T.Bool)
    requires = ["self.connection_list.shape[0] == 2"]
    ensures = {
        "C13.valid_path": """result == ite(len(path) == 0, empty_is_valid,
            forall(lambda k: in_grid(self, path[k]), (0, len(path)))
            and forall(lambda k: edge(self, path[k], path[k + 1]), (0, len(path) - 1)))""",
    }
    loops = {
        0: Loop(
            head="for i in range(len(path) - 1)",
            havoc=dict(),
            inv={"prefix-connected": "forall(lambda k: edge(self, path[k], path[k + 1]), (0, _k))"},
        )
    }
    result = T.Bool
    props = ["C13"]


_DEG = (
    "ite(edge(self, (i, j), (i + 1, j)), 1, 0) + ite(edge(self, (i, j), (i - 1, j)), 1, 0)"
    " + ite(edge(self, (i, j), (i, j + 1)), 1, 0) + ite(edge(self, (i, j), (i, j - 1)), 1, 0)"
)


@contract(F, "LatticeMaze.coord_degrees")
class coord_degrees:
    params = dict(self=T.Maze())
    lets = dict(R="self.connection_list.shape[1]", C="self.connection_list.shape[2]")
    # without well-formedness a boundary bit would be counted that no other view sees; wf is what C01 guarantees
    requires = ["wf(self)"]
    ensures = {
        "C13.degree": f"forall(lambda i, j: result[i, j] == {_DEG}, (0, R), (0, C))",
        "C13.degree.shape": "result.shape == (R, C)",
    }
    result = lambda env: T.GridT("int", [env["R"], env["C"]])
    props = ["C13"]


@contract(F, "LatticeMaze.gen_connected_component_from")
class gen_connected_component_from:
    params = dict(self=T.Maze(), c=T.Coord)
    requires = ["in_grid(self, c)"]
    ensures = {
        "C13.component": "forall(lambda i, j: ((i, j) in result) == reach(self, c, (i, j)), None, None)",
        "C13.component.once": "distinct_rows(result)",
    }
    loops = {
        0: Loop(
            head="while stack",
            havoc=dict(stack=T.ListT(T.Coord), visited=T.SetT(2)),
            inv={
                "stack-reachable": "forall(lambda k: in_grid(self, stack[k]) and reach(self, c, stack[k]), (0, len(stack)))",
                "visited-reachable": "forall(lambda i, j: implies((i, j) in visited, reach(self, c, (i, j))), None, None)",
                "frontier": "forall(lambda i, j, a, b: implies((i, j) in visited and edge(self, (i, j), (a, b)),"
                " (a, b) in visited or exists(lambda k: stack[k][0] == a and stack[k][1] == b, (0, len(stack)))), None, None, None, None)",
                "start-kept": "(c[0], c[1]) in visited or exists(lambda k: stack[k][0] == c[0] and stack[k][1] == c[1], (0, len(stack)))",
            },
        )
    }
    loops[1] = Loop(
        head="for neighbor in neighbors",
        cut=True,
        havoc=dict(stack=T.ListT(T.Coord)),
        inv={
            "stack-reachable": loops[0].inv["stack-reachable"],
            "frontier-others": "forall(lambda i, j, a, b: implies((i, j) in visited and not (i == current_node[0] and j == current_node[1])"
            " and edge(self, (i, j), (a, b)),"
            " (a, b) in visited or exists(lambda k: stack[k][0] == a and stack[k][1] == b, (0, len(stack)))), None, None, None, None)",
            "frontier-current": "all_cands(neighbors, _m, lambda g, v: implies(g, (v[0], v[1]) in visited"
            " or exists(lambda k: stack[k][0] == v[0] and stack[k][1] == v[1], (0, len(stack)))))",
            "start-kept": loops[0].inv["start-kept"],
        },
    )
    exit_lemmas = ["reach_induction(self, c, lambda v: v in final(visited))"]
    result = T.ListT(T.CoordTup)  # callers see a duplicate-free list of the component's cells
    props = ["C13", "C12"]


# the bit that encodes the unit lattice edge {a, b}: direction 0 if the rows differ else 1, stored at the lesser endpoint
_ENC = ("(d == ite(adj_list[k, 0][0] != adj_list[k, 1][0], 0, 1)"
        " and x == ite(adj_list[k, 0][0] <= adj_list[k, 1][0], adj_list[k, 0][0], adj_list[k, 1][0])"
        " and y == ite(adj_list[k, 0][1] <= adj_list[k, 1][1], adj_list[k, 0][1], adj_list[k, 1][1]))")


@contract(F, "LatticeMaze.from_adj_list")
class from_adj_list:
    params = dict(cls=T.Const(None), adj_list=T.GridT("int", [None, 2, 2], min_dim=1))
    lets = dict(n="adj_list.shape[0]")
    # every row a unit lattice edge with non-negative coordinates
    requires = ["forall(lambda k: lat_adj(adj_list[k, 0], adj_list[k, 1]) and adj_list[k, 0][0] >= 0 and adj_list[k, 0][1] >= 0"
                " and adj_list[k, 1][0] >= 0 and adj_list[k, 1][1] >= 0, (0, n))"]
    ensures = {
        "C13.from_adj_list.square": "result.connection_list.shape[0] == 2 and result.connection_list.shape[1] == result.connection_list.shape[2]",
        "C13.from_adj_list.size": "forall(lambda k, e, c: adj_list[k, e][c] < result.connection_list.shape[1], (0, n), (0, 2), (0, 2))"
        " and exists(lambda k, e, c: adj_list[k, e][c] + 1 == result.connection_list.shape[1], (0, n), (0, 2), (0, 2))",
        "C13.from_adj_list.bits": f"forall(lambda d, x, y: result.connection_list[d, x, y] == exists(lambda k: {_ENC}, (0, n)),"
        " (0, 2), (0, result.connection_list.shape[1]), (0, result.connection_list.shape[2]))",
    }
    loops = {
        0: Loop(
            head="for c_start, c_end in adj_list",
            havoc=dict(connection_list=T.GridT("bool", [2, None, None])),
            inv={
                "shape": "connection_list.shape == (2, grid_n, grid_n)",
                "bits": f"forall(lambda d, x, y: connection_list[d, x, y] == exists(lambda k: {_ENC}, (0, _k)), (0, 2), (0, grid_n), (0, grid_n))",
            },
        )
    }
    result = T.RecT("LatticeMaze", connection_list=T.GridT("bool", [2, None, None]))
    props = ["C13", "C07"]


# ---------------------------------------------------------------------------------------------- forking points (C13)
SOLVED_M = T.RecT("SolvedMaze", connection_list=T.GridT("bool", [2, None, None]), solution=T.GridT("int", [None, 2]))
# number of onward connections of the k-th solution cell, from the single definition of edge()
_SDEG = (
    "(ite(edge(self, self.solution[k], (self.solution[k][0] + 1, self.solution[k][1])), 1, 0)"
    " + ite(edge(self, self.solution[k], (self.solution[k][0] - 1, self.solution[k][1])), 1, 0)"
    " + ite(edge(self, self.solution[k], (self.solution[k][0], self.solution[k][1] + 1)), 1, 0)"
    " + ite(edge(self, self.solution[k], (self.solution[k][0], self.solution[k][1] - 1)), 1, 0))"
)
_ENDP = "(k == 0 or k == self.solution.shape[0] - 1)"
# the documented rule: more than one choice at an end of the solution, more than two elsewhere (the previous cell is not a choice)
_FORK = f"({_SDEG} > ite({_ENDP}, 1, 2) or ({_ENDP} and always_include_endpoints))"


def _gen_solved(rng):
    """a random small maze with a random walk along its connections as solution (concrete reading / failing-input search)"""
    import numpy as np

    R, C = rng.randint(1, 4), rng.randint(1, 4)
    conn = np.array([[[rng.random() < 0.6 for _ in range(C)] for _ in range(R)] for _ in range(2)], dtype=bool)
    conn[0, R - 1, :] = False
    conn[1, :, C - 1] = False
    cur = (rng.randrange(R), rng.randrange(C))
    path = [cur]
    for _ in range(rng.randint(0, 6)):
        nb = []
        r, c = cur
        if r + 1 < R and conn[0, r, c]:
            nb.append((r + 1, c))
        if r - 1 >= 0 and conn[0, r - 1, c]:
            nb.append((r - 1, c))
        if c + 1 < C and conn[1, r, c]:
            nb.append((r, c + 1))
        if c - 1 >= 0 and conn[1, r, c - 1]:
            nb.append((r, c - 1))
        if not nb:
            break
        cur = rng.choice(nb)
        path.append(cur)
    return {"__cls__": "SolvedMaze", "connection_list": conn, "solution": np.array(path, dtype=np.int64)}


@contract(F, "SolvedMaze.get_solution_forking_points")
class get_solution_forking_points:
    options = dict(gen=lambda rng: dict(self=_gen_solved(rng), always_include_endpoints=rng.random() < 0.5))
    params = dict(self=SOLVED_M, always_include_endpoints=T.Bool)
    requires = ["forall(lambda k: in_grid(self, self.solution[k]), (0, self.solution.shape[0]))"]
    ensures = {
        "C13.forks.indices": f"is_filter(result[0], self.solution.shape[0], lambda k: {_FORK})",
        "C13.forks.coords": f"is_filter(result[1], self.solution, lambda k: {_FORK})",
    }
    loops = {
        0: Loop(
            head="for idx, coord in enumerate(self.solution)",
            havoc=dict(output_idxs=lambda env: T.FiltT(env["self"].fields["solution"].dims[0]), output_coords=lambda env: T.FiltT(env["self"].fields["solution"])),
            inv={
                "indices": f"is_filter(output_idxs, self.solution.shape[0], lambda k: {_FORK}, _k)",
                "coords": f"is_filter(output_coords, self.solution, lambda k: {_FORK}, _k)",
            },
        )
    }
    result = lambda env: T.TupleT(T.FiltT(env["self"].fields["solution"].dims[0], elem=T.Int), T.FiltT(env["self"].fields["solution"], elem=T.ArrT((2,), "int"), as_array=True))
    props = ["C13"]


@contract(F, "SolvedMaze.get_solution_path_following_points")
class get_solution_path_following_points:
    options = dict(gen=lambda rng: dict(self=_gen_solved(rng)))
    params = dict(self=SOLVED_M)
    lets = dict(always_include_endpoints="False")
    requires = get_solution_forking_points.requires
    ensures = {
        # the complement of the forking points: together they partition the solution
        "C13.following.indices": f"is_filter(result[0], self.solution.shape[0], lambda k: not {_FORK})",
        "C13.following.coords": f"is_filter(result[1], self.solution, lambda k: not {_FORK})",
    }
    result = lambda env: T.TupleT(T.FiltT(env["self"].fields["solution"].dims[0], elem=T.Int, as_array=True), T.FiltT(env["self"].fields["solution"], elem=T.ArrT((2,), "int"), as_array=True))
    props = ["C13"]
