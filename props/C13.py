"""C13 - all graph queries on a maze agree with its connection structure."""
ID = "C13"
LEVEL = "proof"
LEVEL_TEXT = ("Unbounded proof, function by function: each graph view (pairwise connectivity, neighbour list, degrees, "
              "connected component, path validation, heuristic) has a postcondition against one definition of edge()/reach() and every "
              "obligation generated from the current source is discharged by z3 for all grids, cells and connection structures. "
              "The batch edge test (is_connection), from_adj_list (bits = exactly the rows' edges, size = max index + 1) and the forking / path-following partition of the solution "
              "(exactly the solution indices and cells, in order, with more than one onward choice at an end and more than two elsewhere; the two lists are complementary) are proved as well, and so is get_nodes (entry k is the cell (k // C, k % C): every cell once, row-major; np.meshgrid / ravel / np.vstack / .T library contracts); the adjacency-list "
              "view (connection_list_to_adj_list) is decided by the bounded stand-in only (all graphs up to 2x3, sampled/all 3x3, random larger), labelled bounded.")
LEVEL_NOTE = ("Trusted: the pyvc encoding of Python/numpy, z3; lemma reach_induction (least-fixed-point principle); row-major index algebra (lemmas/Unravel.lean); list(set) enumeration contract; "
              "numpy int64 treated as mathematical integers; partial correctness (no termination).")
TECHNIQUE = "contract-based deductive verification of the real functions (AST-derived VCs, z3) + bounded run-time comparison with an independent spec"
CONTRACT_MODULES = ["contracts.lattice_maze", "contracts.token_utils", "contracts.paths"]
F = "maze_dataset/maze/lattice_maze.py"
PROVE = [
    (F, "LatticeMaze.get_nodes"),
    (F, "LatticeMaze.heuristic"),
    (F, "LatticeMaze.nodes_connected"),
    (F, "LatticeMaze.get_coord_neighbors"),
    (F, "LatticeMaze.is_valid_path"),
    (F, "LatticeMaze.coord_degrees"),
    (F, "LatticeMaze.gen_connected_component_from"),
    (F, "LatticeMaze.from_adj_list"),
    ("maze_dataset/token_utils.py", "is_connection"),
    (F, "SolvedMaze.get_solution_forking_points"),
    (F, "SolvedMaze.get_solution_path_following_points"),
]
ASSUMPTIONS = [
    "leading dimension of connection_list is the constant 2 (type ConnectionList)",
    "coord_degrees is specified for well-formed mazes only (the guarantee of C01)",
]
EXPLANATION = "every graph view has `ensures` against one definition of edge(); see DESIGN.md C13"


def run(run):
    from props._std import run_lean

    run_lean(run)
    run.prove(PROVE)
    from bounded import C13 as B

    run.bounded.extend(B.run(run.tier, run.seed))
