"""Between the symbolic domain and real Python / numpy values.

lift(value, ty): a concrete run-time value -> symbolic-domain value with constant leaves (so contract
clauses can be evaluated by the same executor: the *concrete reading* of a contract).
concretize(model, sym, ty): a z3 model of the inputs -> real arguments for native replay.
"""
from __future__ import annotations

import itertools

import numpy as np
import z3

from . import tys as T
from . import values as V
from .values import Arr, CSet, GList, Grid, Outside, Rec, SymList, to_z3


def _scalar(x):
    if isinstance(x, (bool, np.bool_)):
        return bool(x)
    if isinstance(x, (int, np.integer)):
        return int(x)
    if isinstance(x, (float, np.floating)):
        return float(x)
    raise Outside(f"cannot lift scalar {type(x).__name__}")


def grid_const(arr: np.ndarray, kind, count=False, dtype=None):
    """numpy array -> Grid whose nested z3 array holds exactly these cells (default for cells outside)"""
    dims = list(arr.shape)
    sort = V.sort_for_kind(kind)
    default = {"bool": False, "int": 0, "float": 0.0}[kind]

    def build(sub):
        if sub.ndim == 0:
            return to_z3(_scalar(sub.item()) if kind != "float" else float(sub.item()))
        inner_default = to_z3(default)
        for _ in range(sub.ndim - 1):
            inner_default = z3.K(z3.IntSort(), inner_default)
        a = z3.K(z3.IntSort(), inner_default)
        for i in range(sub.shape[0]):
            a = z3.Store(a, i, build(sub[i]))
        return a

    cnt = int(arr.sum()) if (count and kind == "bool") else None
    g = Grid(dims, build(np.asarray(arr)), kind, cnt, dtype)
    g.concrete = np.asarray(arr)
    return g


def lift(value, ty=None):
    if ty is None:
        ty = infer_type(value)
    if isinstance(ty, T.NoneT) or value is None:
        return None
    if isinstance(ty, T.Const):
        return value
    if isinstance(ty, T._Scalar):
        v = _scalar(value)
        if ty.kind == "float":
            return float(v)
        if ty.kind == "bool":
            return bool(v)
        return int(v)
    if isinstance(ty, T.ArrT):
        a = np.asarray(value)
        if a.shape != ty.shape:
            raise Outside(f"value of shape {a.shape} for declared {ty.shape}")
        return Arr(ty.shape, [_scalar(x) for x in a.flatten().tolist()] if ty.kind != "float" else [float(x) for x in a.flatten()], ty.kind)
    if isinstance(ty, T.TupleT):
        return tuple(lift(v, t) for v, t in zip(value, ty.elems))
    if isinstance(ty, T.GridT):
        a = np.asarray(value)
        if a.ndim != len(ty.dims):
            raise Outside(f"value of rank {a.ndim} for declared rank {len(ty.dims)}")
        return grid_const(a, ty.kind, ty.count, ty.dtype)
    if isinstance(ty, T.RecT):
        fields = {}
        for k, t in ty.fields.items():
            fields[k] = lift(getattr(value, k) if not isinstance(value, dict) else value[k], t)
        return Rec(ty.cls, fields)
    if isinstance(ty, T.ListT):
        elems = [lift(v, ty.elem) for v in value]
        tmpl, _ = ty.elem.fresh("tmpl")
        return SymList.from_pylist("lst", elems, tmpl)
    if isinstance(ty, T.FiltT):
        if ty.elem is None:
            raise Outside("FiltT without element type cannot be lifted")
        return [lift(v, ty.elem) for v in value]
    if isinstance(ty, T.SetT):
        s = CSet.empty(ty.arity)
        for k in value:
            s = s.add(tuple(int(x) for x in k))
        return CSet(ty.arity, s.mem, len(value))
    if isinstance(ty, T.GuardedRowsT):
        from . import npmodel as M

        a = np.asarray(value)
        if a.size == 0:
            return M.Rows(GList([]), ty.width) if False else Arr((0,), [], "float")
        return M.Rows(GList([(True, Arr((ty.width,), [int(x) for x in row], "int")) for row in a]), ty.width)
    raise Outside(f"lift for type {type(ty).__name__}")


def infer_type(value):
    if value is None:
        return T.NoneT()
    if isinstance(value, (bool, np.bool_)):
        return T.Bool
    if isinstance(value, (int, np.integer)):
        return T.Int
    if isinstance(value, (float, np.floating)):
        return T.Real
    if isinstance(value, np.ndarray):
        kind = "bool" if value.dtype == np.bool_ else ("float" if value.dtype.kind == "f" else "int")
        if value.size <= 16 and value.ndim <= 2:
            return T.ArrT(value.shape, kind)
        return T.GridT(kind, [None] * value.ndim)
    if isinstance(value, tuple):
        return T.TupleT(*[infer_type(v) for v in value])
    raise Outside(f"cannot infer type of {type(value).__name__}")


# ------------------------------------------------------------------ model -> concrete
def _ev_int(model, t):
    v = model.eval(to_z3(t), model_completion=True)
    if z3.is_int_value(v):
        return v.as_long()
    if z3.is_true(v):
        return True
    if z3.is_false(v):
        return False
    if z3.is_rational_value(v):
        return float(v.numerator_as_long()) / float(v.denominator_as_long())
    if z3.is_algebraic_value(v):
        return float(v.approx(10).as_decimal(10).rstrip("?"))
    raise Outside(f"non-numeric model value {v}")


def concretize(model, sym, ty, max_dim=64):
    """symbolic input value (as created by ty.fresh) -> real python/numpy value under the model"""
    if sym is None:
        return None
    if isinstance(sym, (bool, int, float, str)):
        return sym
    if z3.is_expr(sym) and not z3.is_array(sym):
        return _ev_int(model, sym)
    if isinstance(sym, Arr):
        flat = [_ev_int(model, x) for x in sym.flat]
        dt = {"bool": np.bool_, "int": np.int64, "float": float}[sym.kind]
        return np.array(flat, dtype=dt).reshape(sym.shape)
    if isinstance(sym, tuple):
        return tuple(concretize(model, s, None) for s in sym)
    if isinstance(sym, Grid):
        dims = [_ev_int(model, d) for d in sym.dims]
        if any(d > max_dim or d < 0 for d in dims):
            raise Outside(f"model dimensions {dims} too large to replay")
        dt = {"bool": np.bool_, "int": np.int64, "float": float}[sym.kind]
        out = np.zeros(dims, dtype=dt)
        for idx in itertools.product(*[range(d) for d in dims]):
            out[idx] = _ev_int(model, sym.select(list(idx)))
        return out
    if isinstance(sym, Rec):
        return {"__cls__": sym.cls, **{k: concretize(model, v, None) for k, v in sym.fields.items()}}
    if isinstance(sym, SymList):
        n = _ev_int(model, sym.length)
        if n > max_dim * 8 or n < 0:
            raise Outside("model list too long to replay")
        return [concretize(model, sym.get(i), None) for i in range(n)]
    if isinstance(sym, CSet):
        raise Outside("set-valued input replay")
    if type(sym).__name__ == "LazyClass":
        return f"<class {sym.name}>"  # a classmethod's cls: rtcheck binds the real class itself
    raise Outside(f"concretize {type(sym).__name__}")
