"""Specification vocabulary, symbolic reading (DESIGN.md section 4).  The concrete reading of the same
names lives in cspec.py."""
from __future__ import annotations

import ast

import z3

from . import values as V
from .values import Arr, CDict, CSet, GList, Grid, Outside, Rec, SymList, as_int, b_and, b_implies, b_not, b_or, is_sym, to_z3
from .interp import Closure, State, truthy_value
from . import npmodel as M

LEMMAS_USED = set()


def _coord(c):
    """coordinate value -> (row, col) scalars"""
    if isinstance(c, Arr):
        if c.shape != (2,):
            raise Outside(f"coordinate of shape {c.shape}")
        return c.flat[0], c.flat[1]
    if isinstance(c, (tuple, list)) and len(c) == 2:
        return c[0], c[1]
    raise Outside(f"coordinate from {type(c).__name__}")


def _conn(m):
    if isinstance(m, Rec):
        m = m.fields["connection_list"]
    if isinstance(m, Arr):
        m = M.arr_to_grid(m)
    if not isinstance(m, Grid) or m.rank != 3:
        raise Outside("maze / connection list expected")
    return m


def _shape(m):
    g = _conn(m)
    return g.dims[1], g.dims[2]


def sp_in_grid(interp, st, args, kwargs, node):
    m, c = args
    if isinstance(m, (tuple, list)) and len(m) == 2:
        R, C = m
    elif isinstance(m, Arr) and m.shape == (2,):
        R, C = m.flat
    else:
        R, C = _shape(m)
    r, c_ = _coord(c)
    return b_and(M.s_cmp(ast.LtE(), 0, r), M.s_cmp(ast.Lt(), r, R), M.s_cmp(ast.LtE(), 0, c_), M.s_cmp(ast.Lt(), c_, C))


def sp_wf(interp, st, args, kwargs, node):
    g = _conn(args[0])
    D, R, C = g.dims
    i, j = z3.Int(V.fresh_name("wi")), z3.Int(V.fresh_name("wj"))
    return b_and(
        M.s_cmp(ast.Eq(), D, 2),
        M.s_cmp(ast.GtE(), R, 1),
        M.s_cmp(ast.GtE(), C, 1),
        z3.ForAll([j], z3.Implies(z3.And(j >= 0, j < to_z3(C)), z3.Not(g.select([0, M.s_sub(R, 1), j])))),
        z3.ForAll([i], z3.Implies(z3.And(i >= 0, i < to_z3(R)), z3.Not(g.select([1, i, M.s_sub(C, 1)])))),
    )


def lat_adj(a, b):
    a0, a1 = _coord(a)
    b0, b1 = _coord(b)
    d = M.s_add(M.s_abs(M.s_sub(a0, b0)), M.s_abs(M.s_sub(a1, b1)))
    return M.s_cmp(ast.Eq(), d, 1)


def sp_lat_adj(interp, st, args, kwargs, node):
    return lat_adj(args[0], args[1])


def edge(m, a, b):
    """the single definition of `connected in the lattice graph` every view is compared with"""
    g = _conn(m)
    D, R, C = g.dims
    a0, a1 = _coord(a)
    b0, b1 = _coord(b)
    ing = b_and(
        M.s_cmp(ast.LtE(), 0, a0), M.s_cmp(ast.Lt(), a0, R), M.s_cmp(ast.LtE(), 0, a1), M.s_cmp(ast.Lt(), a1, C),
        M.s_cmp(ast.LtE(), 0, b0), M.s_cmp(ast.Lt(), b0, R), M.s_cmp(ast.LtE(), 0, b1), M.s_cmp(ast.Lt(), b1, C),
    )
    d = V.ite(M.s_cmp(ast.NotEq(), a0, b0), 0, 1)
    bit = g.select([d, M.s_min(a0, b0), M.s_min(a1, b1)])
    return b_and(ing, lat_adj(a, b), bit)


def sp_edge(interp, st, args, kwargs, node):
    return edge(args[0], args[1], args[2])


_REACH = None


def reach_fn(g: Grid):
    global _REACH
    if _REACH is None:
        _REACH = z3.Function(
            "reach", g.arr.sort(), z3.IntSort(), z3.IntSort(), z3.IntSort(), z3.IntSort(), z3.IntSort(), z3.IntSort(), z3.BoolSort()
        )
    return _REACH


def reach(st, m, s, v):
    """reach(m, s, v): v is reachable from s along edges of m.  Uninterpreted; the closure axioms
    (reflexive on the grid, closed under edge) are added once per connection array; the induction
    principle is available only through the lemma `reach_induction`."""
    g = _conn(m)
    D, R, C = g.dims
    if getattr(g, "concrete", None) is not None:
        return _reach_concrete(g.concrete, s, v)
    f = reach_fn(g)
    if not z3.is_const(g.arr) or g.arr.decl().kind() != z3.Z3_OP_UNINTERPRETED:
        # give the array term a name so that reach(...) terms are usable as quantifier patterns
        names = st.env.get("__names__", {})
        aid = g.arr.get_id()
        if aid not in names:
            nm = z3.Const(V.fresh_name("conn"), g.arr.sort())
            st.pc.append(nm == g.arr)
            names = dict(names)
            names[aid] = nm
            st.env["__names__"] = names
        g = Grid(g.dims, names[aid], g.kind, g.count, g.dtype)
        m = Rec("LatticeMaze", {"connection_list": g})
    key = ("reach", g.arr.get_id(), to_z3(R).get_id(), to_z3(C).get_id())
    seen = st.env.get("__axioms__", frozenset())
    if key not in seen:
        st.env["__axioms__"] = seen | {key}
        s0, s1, u0, u1, v0, v1 = [z3.Int(V.fresh_name(n)) for n in ("s0", "s1", "u0", "u1", "v0", "v1")]
        rr = lambda a, b, c, d: f(g.arr, to_z3(R), to_z3(C), a, b, c, d)
        ing = lambda a, b: z3.And(a >= 0, a < to_z3(R), b >= 0, b < to_z3(C))
        ax = [
            z3.ForAll([s0, s1], z3.Implies(ing(s0, s1), rr(s0, s1, s0, s1))),
            z3.ForAll(
                [s0, s1, u0, u1, v0, v1],
                z3.Implies(z3.And(rr(s0, s1, u0, u1), to_z3(edge(m, (u0, u1), (v0, v1)))), rr(s0, s1, v0, v1)),
                patterns=[z3.MultiPattern(rr(s0, s1, u0, u1), rr(s0, s1, v0, v1))],
            ),
            # reach only relates in-grid cells
            z3.ForAll([s0, s1, v0, v1], z3.Implies(rr(s0, s1, v0, v1), z3.And(ing(s0, s1), ing(v0, v1)))),
        ]
        for a_ in ax:
            st.pc.append(a_)
            st.tagmap[a_.get_id()] = "axiom:reach"
    a0, a1 = _coord(s)
    b0, b1 = _coord(v)
    return f(g.arr, to_z3(R), to_z3(C), to_z3(a0), to_z3(a1), to_z3(b0), to_z3(b1))


def _components(conn):
    """concrete reading of reach: connected components of the lattice graph by BFS (independent of the code under check)"""
    _, R, C = conn.shape
    comp = {}
    for r0 in range(R):
        for c0 in range(C):
            if (r0, c0) in comp:
                continue
            cid = (r0, c0)
            todo = [(r0, c0)]
            comp[(r0, c0)] = cid
            while todo:
                r, c = todo.pop()
                nbrs = []
                if r + 1 < R and conn[0, r, c]:
                    nbrs.append((r + 1, c))
                if r - 1 >= 0 and conn[0, r - 1, c]:
                    nbrs.append((r - 1, c))
                if c + 1 < C and conn[1, r, c]:
                    nbrs.append((r, c + 1))
                if c - 1 >= 0 and conn[1, r, c - 1]:
                    nbrs.append((r, c - 1))
                for n in nbrs:
                    if n not in comp:
                        comp[n] = cid
                        todo.append(n)
    return comp


def _reach_concrete(conn, s, v):
    comp = _components(conn)
    s0, s1 = _coord(s)
    v0, v1 = _coord(v)
    if not is_sym(s0) and not is_sym(s1):
        if (s0, s1) not in comp:
            return False
        cells = [c for c, cid in comp.items() if cid == comp[(s0, s1)]]
        return b_or(*[b_and(M.s_cmp(ast.Eq(), v0, a), M.s_cmp(ast.Eq(), v1, b)) for a, b in cells])
    out = []
    for (a, b), cid in comp.items():
        for (p, q), cid2 in comp.items():
            if cid == cid2:
                out.append(b_and(M.s_cmp(ast.Eq(), s0, a), M.s_cmp(ast.Eq(), s1, b), M.s_cmp(ast.Eq(), v0, p), M.s_cmp(ast.Eq(), v1, q)))
    return b_or(*out)


def sp_reach(interp, st, args, kwargs, node):
    return reach(st, args[0], args[1], args[2])


def _call_pred(interp, st, clo, vals):
    return truthy_value(interp, st, M.call_value(interp, st, clo, list(vals), {}, None))


def sp_reach_induction(interp, st, args, kwargs, node):
    """LEMMA (least fixed point): if S contains s and is closed under edge then it contains everything reachable from s."""
    LEMMAS_USED.add("reach_induction: reach(s,.) is the LEAST set containing s and closed under edge")
    m, s, S = args
    u0, u1, v0, v1 = [z3.Int(V.fresh_name(n)) for n in ("u0", "u1", "v0", "v1")]
    base = _call_pred(interp, st, S, [(_coord(s)[0], _coord(s)[1])])
    step = z3.ForAll(
        [u0, u1, v0, v1],
        z3.Implies(z3.And(to_z3(_call_pred(interp, st, S, [(u0, u1)])), to_z3(edge(m, (u0, u1), (v0, v1)))), to_z3(_call_pred(interp, st, S, [(v0, v1)]))),
    )
    concl = z3.ForAll([v0, v1], z3.Implies(reach(st, m, s, (v0, v1)), to_z3(_call_pred(interp, st, S, [(v0, v1)]))))
    return z3.Implies(z3.And(to_z3(base), step), concl)


def sp_reach_mono(interp, st, args, kwargs, node):
    """LEMMA: reach is monotone in the connection structure (same grid, more edges -> more reachable)."""
    LEMMAS_USED.add("reach_mono: reachability is monotone in the edge set")
    m_old, m_new = args[0], args[1]
    go, gn = _conn(m_old), _conn(m_new)
    d, i, j = z3.Int(V.fresh_name("d")), z3.Int(V.fresh_name("i")), z3.Int(V.fresh_name("j"))
    sub = z3.ForAll([d, i, j], z3.Implies(go.select([d, i, j]), gn.select([d, i, j])))
    same = b_and(*[M.s_cmp(ast.Eq(), x, y) for x, y in zip(go.dims, gn.dims)])
    s0, s1, v0, v1 = [z3.Int(V.fresh_name(n)) for n in ("s0", "s1", "v0", "v1")]
    concl = z3.ForAll([s0, s1, v0, v1], z3.Implies(reach(st, m_old, (s0, s1), (v0, v1)), reach(st, m_new, (s0, s1), (v0, v1))))
    return z3.Implies(z3.And(sub, to_z3(same)), concl)


def sp_reach_trans(interp, st, args, kwargs, node):
    """LEMMA: reach is transitive."""
    LEMMAS_USED.add("reach_trans: reachability is transitive")
    m = args[0]
    s0, s1, u0, u1, v0, v1 = [z3.Int(V.fresh_name(n)) for n in ("s0", "s1", "u0", "u1", "v0", "v1")]
    return z3.ForAll(
        [s0, s1, u0, u1, v0, v1],
        z3.Implies(z3.And(reach(st, m, (s0, s1), (u0, u1)), reach(st, m, (u0, u1), (v0, v1))), reach(st, m, (s0, s1), (v0, v1))),
    )


def sp_reach_common(interp, st, args, kwargs, node):
    """LEMMA (symmetry + transitivity): two cells reachable from a common cell are reachable from each other."""
    LEMMAS_USED.add("reach_common: cells reachable from one cell are mutually reachable (undirected edges, transitivity)")
    m, c = args
    u0, u1, v0, v1 = [z3.Int(V.fresh_name(n)) for n in ("u0", "u1", "v0", "v1")]
    return z3.ForAll(
        [u0, u1, v0, v1],
        z3.Implies(z3.And(reach(st, m, c, (u0, u1)), reach(st, m, c, (v0, v1))), reach(st, m, (u0, u1), (v0, v1))),
        # triggered by the conclusion: asking whether u reaches v brings up "is u (is v) reachable from c", which in turn triggers the
        # facts stated from c (e.g. "every cell is reachable from the start cell")
        patterns=[reach(st, m, (u0, u1), (v0, v1))],
    )


def sp_reach_sym(interp, st, args, kwargs, node):
    """LEMMA: the lattice graph is undirected, so reach is symmetric."""
    LEMMAS_USED.add("reach_sym: edges are undirected, hence reach is symmetric")
    m = args[0]
    s0, s1, v0, v1 = [z3.Int(V.fresh_name(n)) for n in ("s0", "s1", "v0", "v1")]
    return z3.ForAll([s0, s1, v0, v1], reach(st, m, (s0, s1), (v0, v1)) == reach(st, m, (v0, v1), (s0, s1)))



_DIST = None


def _bfs_all(conn):
    """concrete reading of dist: breadth-first distances between all pairs of cells (independent of the code under check)"""
    _, R, C = conn.shape
    out = {}
    for r0 in range(R):
        for c0 in range(C):
            d = {(r0, c0): 0}
            todo = [(r0, c0)]
            while todo:
                nxt = []
                for r, c in todo:
                    nbrs = []
                    if r + 1 < R and conn[0, r, c]:
                        nbrs.append((r + 1, c))
                    if r - 1 >= 0 and conn[0, r - 1, c]:
                        nbrs.append((r - 1, c))
                    if c + 1 < C and conn[1, r, c]:
                        nbrs.append((r, c + 1))
                    if c - 1 >= 0 and conn[1, r, c - 1]:
                        nbrs.append((r, c - 1))
                    for n in nbrs:
                        if n not in d:
                            d[n] = d[(r, c)] + 1
                            nxt.append(n)
                todo = nxt
            out[(r0, c0)] = d
    return out


def dist(st, m, s, v):
    """dist(m, s, v): the number of steps of a shortest path from s to v along edges of m (meaningful when reach(m, s, v)).
    Symbolic reading: uninterpreted, with the defining facts of graph distance (0 at the source, never negative, at most one more
    across an edge); minimality over all paths is used only through the lemma `astar_cut`.  Concrete reading: breadth-first search."""
    g = _conn(m)
    D, R, C = g.dims
    s0, s1 = _coord(s)
    v0, v1 = _coord(v)
    if getattr(g, "concrete", None) is not None:
        table = _bfs_all(g.concrete)
        if not any(is_sym(x) for x in (s0, s1, v0, v1)):
            return table.get((int(s0), int(s1)), {}).get((int(v0), int(v1)), -1)
        out = -1
        for (a, b), dd in table.items():
            for (p, q), k in dd.items():
                out = V.ite(b_and(M.s_cmp(ast.Eq(), s0, a), M.s_cmp(ast.Eq(), s1, b), M.s_cmp(ast.Eq(), v0, p), M.s_cmp(ast.Eq(), v1, q)), k, out)
        return out
    global _DIST
    if _DIST is None:
        _DIST = z3.Function("dist", g.arr.sort(), z3.IntSort(), z3.IntSort(), z3.IntSort(), z3.IntSort(), z3.IntSort(), z3.IntSort(), z3.IntSort())
    f = _DIST
    # make sure reach() has named the array and added its axioms first (dist shares the name)
    reach(st, m, s, v)
    names = st.env.get("__names__", {})
    arr = names.get(g.arr.get_id(), g.arr)
    gm = Rec("LatticeMaze", {"connection_list": Grid(g.dims, arr, g.kind, g.count, g.dtype)})
    dd = lambda a, b, c, d: f(arr, to_z3(R), to_z3(C), a, b, c, d)
    key = ("dist", arr.get_id(), to_z3(R).get_id(), to_z3(C).get_id())
    seen = st.env.get("__axioms__", frozenset())
    if key not in seen:
        st.env["__axioms__"] = seen | {key}
        LEMMAS_USED.add("dist: graph distance is 0 at the source, non-negative, and grows by at most 1 across an edge (definition of shortest-path length; concrete reading = BFS)")
        a0, a1, u0, u1, w0, w1 = [z3.Int(V.fresh_name(n)) for n in ("a0", "a1", "u0", "u1", "w0", "w1")]
        ax = [
            z3.ForAll([a0, a1], dd(a0, a1, a0, a1) == 0, patterns=[dd(a0, a1, a0, a1)]),
            z3.ForAll([a0, a1, u0, u1], dd(a0, a1, u0, u1) >= 0, patterns=[dd(a0, a1, u0, u1)]),
            z3.ForAll(
                [a0, a1, u0, u1, w0, w1],
                z3.Implies(z3.And(reach(st, gm, (a0, a1), (u0, u1)), to_z3(edge(gm, (u0, u1), (w0, w1)))), dd(a0, a1, w0, w1) <= dd(a0, a1, u0, u1) + 1),
                patterns=[z3.MultiPattern(dd(a0, a1, u0, u1), dd(a0, a1, w0, w1))],
            ),
        ]
        for a_ in ax:
            st.pc.append(a_)
            st.tagmap[a_.get_id()] = "axiom:dist"
    return f(arr, to_z3(R), to_z3(C), to_z3(s0), to_z3(s1), to_z3(v0), to_z3(v1))


def sp_dist(interp, st, args, kwargs, node):
    return dist(st, args[0], args[1], args[2])


def sp_astar_cut(interp, st, args, kwargs, node):
    """LEMMA (code-independent; shortest paths leave a set through a tight edge, and the Manhattan heuristic is consistent along them):
    if S contains the source s, v is reachable from s and v is not in S, then some edge (y, z) with y in S, z not in S lies on a
    shortest path from s to v: dist(s,z) = dist(s,y) + 1 and dist(s,z) + |z - e|_1 <= dist(s,v) + |v - e|_1 for every target e."""
    LEMMAS_USED.add("astar_cut: a shortest path from s to v leaves any set S (s in S, v not in S) through an edge (y,z) with dist(z)=dist(y)+1 and "
                    "dist(z)+manhattan(z,e) <= dist(v)+manhattan(v,e) (machine-checked in lemmas/AstarCut.lean; also validated concretely on small graphs)")
    m, s, e, S, v = args
    y0, y1, z0, z1 = [z3.Int(V.fresh_name(n)) for n in ("y0", "y1", "z0", "z1")]
    e0, e1 = _coord(e)
    v0, v1 = _coord(v)
    man = lambda a, b: M.s_add(M.s_abs(M.s_sub(a, e0)), M.s_abs(M.s_sub(b, e1)))
    prem = z3.And(to_z3(_call_pred(interp, st, S, [(_coord(s)[0], _coord(s)[1])])), to_z3(reach(st, m, s, v)), z3.Not(to_z3(_call_pred(interp, st, S, [(v0, v1)]))))
    body = z3.And(
        to_z3(_call_pred(interp, st, S, [(y0, y1)])),
        z3.Not(to_z3(_call_pred(interp, st, S, [(z0, z1)]))),
        to_z3(reach(st, m, s, (y0, y1))),
        to_z3(edge(m, (y0, y1), (z0, z1))),
        to_z3(dist(st, m, s, (z0, z1))) == to_z3(dist(st, m, s, (y0, y1))) + 1,
        to_z3(dist(st, m, s, (z0, z1))) + to_z3(man(z0, z1)) <= to_z3(dist(st, m, s, v)) + to_z3(man(v0, v1)),
    )
    return z3.Implies(prem, z3.Exists([y0, y1, z0, z1], body))

def sp_same_shape(interp, st, args, kwargs, node):
    """two arrays have the same shape"""
    a, b = args
    sa = tuple(a.shape) if isinstance(a, Arr) else tuple(a.dims)
    sb = tuple(b.shape) if isinstance(b, Arr) else tuple(b.dims)
    if len(sa) != len(sb):
        return False
    return b_and(*[M.s_cmp(ast.Eq(), x, y) for x, y in zip(sa, sb)])


def sp_n_diff(interp, st, args, kwargs, node):
    """number of positions at which two arrays of the same shape differ (numpy: np.sum(a != b))"""
    a, b = args
    if isinstance(a, Grid) and isinstance(b, Grid) and getattr(a, "concrete", None) is None:
        return M.n_diff_term(st, a, b)
    ne = M.compare(interp, st, ast.NotEq(), a, b, node)
    return M.np_sum(interp, st, [ne], {}, node)


def sp_same_value(interp, st, args, kwargs, node):
    """structural equality of two values of the same shape (records, lists, arrays): every leaf equal"""
    a, b = args
    if a is b:
        return True
    return V.values_equal(a, b)


def sp_is_filter(interp, st, args, kwargs, node):
    """is_filter(lst, src, lambda k: rule(k)[, upto]): lst is exactly the elements src[k], k < upto (default len(src)), with rule(k), in order"""
    from . import filt

    lst, src, clo = args[0], args[1], args[2]
    upto = args[3] if len(args) > 3 else None
    if not isinstance(clo, Closure):
        raise Outside("is_filter needs a lambda over the source index", node)
    return filt.is_filter(interp, st, lst, src, lambda k: _call_pred(interp, st, clo, [k]), upto, node)


def sp_forall(interp, st, args, kwargs, node, exists=False):
    clo = args[0]
    ranges = args[1:]
    if not isinstance(clo, Closure):
        raise Outside("forall needs a lambda", node)
    names = [a.arg for a in clo.node.args.args]
    vars_ = [z3.Int(V.fresh_name(n)) for n in names]
    conds = []
    for v, r in zip(vars_, ranges):
        if r is None:
            continue
        lo, hi = r
        conds.append(v >= to_z3(as_int(lo)))
        conds.append(v < to_z3(as_int(hi)))
    rng = z3.And(*conds) if conds else z3.BoolVal(True)
    for r in ranges:
        # a range that is empty on its face: nothing to say (and the body may not even be evaluable, e.g. an index into an empty list)
        if r is not None and all(isinstance(as_int(b), int) for b in r) and as_int(r[1]) <= as_int(r[0]):
            return False if exists else True
    st.guards.append(rng)
    try:
        body = _call_pred(interp, st, clo, vars_)
    finally:
        st.guards.pop()
    if isinstance(body, bool):
        if exists:
            # exists over a possibly empty range
            return z3.Exists(vars_, rng) if body else False
        return True if body else z3.Not(z3.Exists(vars_, rng))
    if exists:
        return z3.Exists(vars_, z3.And(rng, body))
    return z3.ForAll(vars_, z3.Implies(rng, body))


def sp_forall_str(interp, st, args, kwargs, node):
    """forall over all strings (a token variable)"""
    clo = args[0]
    names = [a.arg for a in clo.node.args.args]
    vars_ = [z3.String(V.fresh_name(n)) for n in names]
    body = _call_pred(interp, st, clo, vars_)
    if isinstance(body, bool):
        return body
    return z3.ForAll(vars_, to_z3(body))


def sp_exists(interp, st, args, kwargs, node):
    return sp_forall(interp, st, args, kwargs, node, exists=True)


def sp_implies(interp, st, args, kwargs, node):
    return b_implies(truthy_value(interp, st, args[0]), truthy_value(interp, st, args[1]))


def sp_iff(interp, st, args, kwargs, node):
    a, b = truthy_value(interp, st, args[0]), truthy_value(interp, st, args[1])
    if isinstance(a, bool) and isinstance(b, bool):
        return a == b
    return to_z3(a) == to_z3(b)


def sp_card(interp, st, args, kwargs, node):
    s = args[0]
    if isinstance(s, M.EmptySet):
        return 0
    if isinstance(s, CSet):
        return s.card
    if isinstance(s, CDict):
        return s.dom.card
    raise Outside("card of non-set", node)


def sp_count(interp, st, args, kwargs, node):
    g = args[0]
    if isinstance(g, Rec):
        g = g.fields["connection_list"]
    if isinstance(g, Grid) and g.count is not None:
        return g.count
    if isinstance(g, Grid) and g.kind == "bool":
        # no ghost count was kept for this array (e.g. after np.logical_not and slice stores): its number of True cells is still a definite
        # number - an unknown between 0 and the size, the same unknown whenever the same array is mentioned
        cache = interp.ctx.__dict__.setdefault("count_unknown", {})
        key = g.arr.get_id()
        if key not in cache:
            c = z3.Int(V.fresh_name("count_of"))
            size = 1
            for d in g.dims:
                size = size * to_z3(as_int(d))
            cache[key] = (c, z3.And(c >= 0, c <= size))
        c, fact = cache[key]
        st.assume(fact)
        return c
    raise Outside("count(): grid without ghost count", node)


def sp_ite(interp, st, args, kwargs, node):
    c = truthy_value(interp, st, args[0])
    return V.merge(c, args[1], args[2]) if not isinstance(c, bool) else (args[1] if c else args[2])


def sp_same_grid(interp, st, args, kwargs, node):
    """pointwise equality of two grids, including shape"""
    return M.np_array_equal(interp, st, [args[0], args[1]], {}, node)


def sp_is_none(interp, st, args, kwargs, node):
    return args[0] is None


def sp_count_lemma_all(interp, st, args, kwargs, node):
    """LEMMA L4 (counting): for a bool grid g of shape (R, C) with exact ghost count:
    0 <= count <= R*C, and count == R*C iff every cell is True."""
    LEMMAS_USED.add("L4 counting: a subset of the R x C cells has at most R*C elements, with equality iff it is the whole grid")
    g = args[0]
    if isinstance(g, CSet):
        R, C = args[1], args[2]
        i, j = z3.Int(V.fresh_name("i")), z3.Int(V.fresh_name("j"))
        ing = z3.And(i >= 0, i < to_z3(R), j >= 0, j < to_z3(C))
        subset = z3.ForAll([i, j], z3.Implies(g.contains((i, j)), ing))
        total = to_z3(R) * to_z3(C)
        full = z3.ForAll([i, j], z3.Implies(ing, g.contains((i, j))))
        return z3.Implies(subset, z3.And(to_z3(g.card) <= total, (to_z3(g.card) == total) == full))
    if not isinstance(g, Grid) or g.count is None or g.rank != 2:
        raise Outside("count lemma needs a counted 2-d bool grid or a set", node)
    i, j = z3.Int(V.fresh_name("i")), z3.Int(V.fresh_name("j"))
    R, C = g.dims
    ing = z3.And(i >= 0, i < to_z3(R), j >= 0, j < to_z3(C))
    total = to_z3(R) * to_z3(C)
    full = z3.ForAll([i, j], z3.Implies(ing, g.select([i, j])))
    return z3.And(to_z3(g.count) >= 0, to_z3(g.count) <= total, (to_z3(g.count) == total) == full)


def sp_grid_connected_lemma(interp, st, args, kwargs, node):
    """LEMMA L3: in the R x C lattice a non-empty proper subset S of the cells has a member with an in-grid
    lattice neighbour outside S."""
    LEMMAS_USED.add("L3: the R x C lattice is connected (a non-empty proper subset has a boundary edge)")
    S, R, C = args
    i, j, a, b = [z3.Int(V.fresh_name(n)) for n in ("i", "j", "a", "b")]
    ing = lambda x, y: z3.And(x >= 0, x < to_z3(R), y >= 0, y < to_z3(C))
    mem = lambda x, y: to_z3(_call_pred(interp, st, S, [(x, y)]))
    nonempty = z3.Exists([i, j], z3.And(ing(i, j), mem(i, j)))
    proper = z3.Exists([i, j], z3.And(ing(i, j), z3.Not(mem(i, j))))
    boundary = z3.Exists(
        [i, j, a, b],
        z3.And(ing(i, j), ing(a, b), mem(i, j), z3.Not(mem(a, b)), to_z3(lat_adj((i, j), (a, b)))),
    )
    return z3.Implies(z3.And(nonempty, proper), boundary)


def _src(x):
    return x.src if isinstance(x, M.Rows) else x


def sp_distinct_rows(interp, st, args, kwargs, node):
    """no two positions of the sequence hold equal rows"""
    x = _src(args[0])
    if isinstance(x, CSet):
        return True  # the members of a set are distinct by construction
    if isinstance(x, Arr):
        x = x.rows() if x.ndim == 2 else []
    if isinstance(x, list):
        return b_and(*[b_not(M.compare_eq_any(interp, st, a, b)) for k, a in enumerate(x) for b in x[k + 1 :]])
    if isinstance(x, GList):
        out = []
        for k, (g, a) in enumerate(x.items):
            for h, b in x.items[k + 1 :]:
                out.append(b_implies(b_and(g, h), b_not(M.compare_eq_any(interp, st, a, b))))
        return b_and(*out)
    if isinstance(x, SymList):
        i, j = z3.Int(V.fresh_name("i")), z3.Int(V.fresh_name("j"))
        eq = M.compare_eq_any(interp, st, x.get(i), x.get(j))
        return z3.ForAll([i, j], z3.Implies(z3.And(i >= 0, j > i, j < to_z3(x.length)), z3.Not(to_z3(eq))))
    raise Outside("distinct_rows of " + type(x).__name__, node)


def sp_nrows(interp, st, args, kwargs, node):
    return M.sym_len(interp, st, args[0], node)


def sp_all_cands(interp, st, args, kwargs, node):
    """all_cands(rows, m, lambda g, v: ...): conjunction over the first m candidates (guard, value) of a guarded list"""
    x, m, clo = args
    x = _src(x)
    if not isinstance(x, GList) or not isinstance(m, int):
        raise Outside("all_cands needs a guarded list and a constant count", node)
    out = []
    for g, v in x.items[:m]:
        out.append(truthy_value(interp, st, M.call_value(interp, st, clo, [g, v], {}, node)))
    return b_and(*out)


def sp_maze_of(interp, st, args, kwargs, node):
    """the maze whose connection structure is the given array (to talk about edge/reach of a local array)"""
    return Rec("LatticeMaze", {"connection_list": args[0]})


def sp_psum(interp, st, args, kwargs, node):
    """psum(xs, n) = xs[0] + ... + xs[n-1] for a list of ints (the function sum()/accumulate are specified with)"""
    xs, n = args
    if isinstance(xs, SymList):
        arr = xs.arrs[0]
    elif isinstance(xs, Grid) and xs.rank == 1:
        arr = xs.arr
    else:
        raise Outside("psum of non-list", node)
    for ax in M.psum_axioms(arr):
        st.assume(ax)
    return M.sumfn()(arr, to_z3(as_int(n)))


def sp_psum_monotone(interp, st, args, kwargs, node):
    """LEMMA (induction on b-a): prefix sums of non-negative numbers are non-negative and nondecreasing."""
    LEMMAS_USED.add("psum_monotone: prefix sums of non-negative ints are nondecreasing (simple induction)")
    xs = args[0]
    arr = xs.arrs[0] if isinstance(xs, SymList) else xs.arr
    for ax in M.psum_axioms(arr):
        st.assume(ax)
    f = M.sumfn()
    k, a, b = z3.Int(V.fresh_name("k")), z3.Int(V.fresh_name("a")), z3.Int(V.fresh_name("b"))
    n = to_z3(xs.length if isinstance(xs, SymList) else xs.dims[0])
    nonneg = z3.ForAll([k], z3.Implies(z3.And(k >= 0, k < n), z3.Select(arr, k) >= 0))
    mono = z3.ForAll([a, b], z3.Implies(z3.And(0 <= a, a <= b, b <= n), f(arr, a) <= f(arr, b)), patterns=[z3.MultiPattern(f(arr, a), f(arr, b))])
    return z3.Implies(nonneg, mono)


def sp_psum_congruence(interp, st, args, kwargs, node):
    """LEMMA (induction on j): two integer sequences that agree on [0, n) have the same prefix sums up to n."""
    LEMMAS_USED.add("psum_congruence: sequences that agree on [0,n) have equal prefix sums up to n (simple induction)")
    xs, ys, n = args
    ax = xs.arrs[0] if isinstance(xs, SymList) else xs.arr
    ay = ys.arrs[0] if isinstance(ys, SymList) else ys.arr
    for a_ in M.psum_axioms(ax) + M.psum_axioms(ay):
        st.assume(a_)
    f = M.sumfn()
    k, j = z3.Int(V.fresh_name("k")), z3.Int(V.fresh_name("j"))
    nz = to_z3(as_int(n))
    agree = z3.ForAll([k], z3.Implies(z3.And(k >= 0, k < nz), z3.Select(ax, k) == z3.Select(ay, k)))
    concl = z3.ForAll([j], z3.Implies(z3.And(j >= 0, j <= nz), f(ax, j) == f(ay, j)), patterns=[f(ax, j)])
    concl2 = z3.ForAll([j], z3.Implies(z3.And(j >= 0, j <= nz), f(ax, j) == f(ay, j)), patterns=[f(ay, j)])
    return z3.Implies(agree, z3.And(concl, concl2))


def sp_maze_equal(interp, st, args, kwargs, node):
    """the specification of maze equality (C09): same kind and identical connection structure, start, end and solution
    (whichever of these the kind has); generation metadata ignored"""
    a, b = args
    if not (isinstance(a, Rec) and isinstance(b, Rec)):
        raise Outside("maze_equal of non-mazes", node)
    if a.cls != b.cls:
        return False
    out = []
    for name in ("connection_list", "start_pos", "end_pos", "solution"):
        if name in a.fields:
            out.append(M.np_array_equal(interp, st, [a.fields[name], b.fields[name]], {}, node))
    return b_and(*out)


def sp_rgb_is(interp, st, args, kwargs, node):
    """rgb_is(img, p, q, colour): the pixel (p, q) of an (H, W, 3) image has the given colour triple"""
    if len(args) == 3:
        # rgb_is(row, q, colour): one row of an image, shape (W, 3)
        img, q, colour = args
        if isinstance(colour, Arr):
            colour = tuple(colour.flat)
        return b_and(*[M.s_cmp(ast.Eq(), M.getitem(interp, st, img, (q, c), node), colour[c]) for c in range(3)])
    img, p, q, colour = args
    if isinstance(colour, Arr):
        colour = tuple(colour.flat)
    return b_and(*[M.s_cmp(ast.Eq(), M.getitem(interp, st, img, (p, q, c), node), colour[c]) for c in range(3)])


def _events(st):
    fin = st.env.get("__final__")
    if isinstance(fin, dict) and "__events__" in fin:
        return fin["__events__"]
    return st.env.get("__events__", [])


def sp_n_calls(interp, st, args, kwargs, node):
    """how often the method `name` of an opaque object was called on this path (a python int: calls are path-specific)"""
    return sum(1 for e in _events(st) if e[0] == args[0])


def sp_call_receiver(interp, st, args, kwargs, node):
    """the receiver of the k-th recorded call of method `name`"""
    ev = [e for e in _events(st) if e[0] == args[0]]
    return ev[args[1]][1]


def sp_call_arg(interp, st, args, kwargs, node):
    ev = [e for e in _events(st) if e[0] == args[0]]
    return ev[args[1]][2][args[2]]


def sp_call_result(interp, st, args, kwargs, node):
    ev = [e for e in _events(st) if e[0] == args[0]]
    return ev[args[1]][4]


def sp_same_pixel(interp, st, args, kwargs, node):
    """the pixel (p, q) of two (H, W, 3) images has the same colour"""
    a, b, p, q = args
    return b_and(*[M.s_cmp(ast.Eq(), M.getitem(interp, st, a, (p, q, c), node), M.getitem(interp, st, b, (p, q, c), node)) for c in range(3)])


def sp_len_obj(interp, st, args, kwargs, node):
    return M.sym_len(interp, st, args[0], node)


def sp_is_list(interp, st, args, kwargs, node):
    return isinstance(args[0], (SymList, list))


def sp_has_key(interp, st, args, kwargs, node):
    return isinstance(args[0], dict) and args[1] in args[0]


def sp_has_field(interp, st, args, kwargs, node):
    return isinstance(args[0], Rec) and args[1] in args[0].fields


def _unravel(which):
    def fn(interp, st, args, kwargs, node):
        """unravel_row(k, C) = k // C, unravel_col(k, C) = k % C, ravel_index(i, j, C) = i * C + j (row-major index algebra; the solver sees
        them through the axioms of npmodel4.unravel_axioms, theorems of these definitions checked in lemmas/Lattice.lean)"""
        vals = [as_int(a) for a in args]
        if all(isinstance(v, int) and not isinstance(v, bool) for v in vals):
            if which == 0:
                return vals[0] // vals[1]
            if which == 1:
                return vals[0] % vals[1]
            return vals[0] * vals[2] + vals[1]
        if isinstance(vals[-1], int) and not isinstance(vals[-1], bool) and vals[-1] > 0:
            # a constant column count: plain (linear) integer arithmetic
            c = vals[-1]
            if which == 0:
                return to_z3(vals[0]) / c
            if which == 1:
                return to_z3(vals[0]) % c
            return to_z3(vals[0]) * c + to_z3(vals[1])
        LEMMAS_USED.add("unravel: k = (k // C) * C + k % C with 0 <= k % C < C; (i*C + j) // C = i and (i*C + j) % C = j for 0 <= j < C; k < R*C iff k // C < R (row-major index algebra)")
        return M.unravel_fns()[which](*[to_z3(v) for v in vals])

    return fn


def sp_unravel_lemma(interp, st, args, kwargs, node):
    """LEMMA: the row-major index algebra of an R x C grid (see npmodel4.unravel_axioms)"""
    LEMMAS_USED.add("unravel: k = (k // C) * C + k % C with 0 <= k % C < C; (i*C + j) // C = i and (i*C + j) % C = j for 0 <= j < C; k < R*C iff k // C < R (row-major index algebra)")
    R, C = args
    return z3.And(*M.unravel_axioms(R, C))


def sp_first_index(interp, st, args, kwargs, node):
    """first_index(xs, x): the least k with xs[k] == x, or len(xs) when x does not occur (a total function; lists of strings / ints)"""
    from .npmodel4 import _as_scalar_symlist, _scalar_z3

    arr, n = _as_scalar_symlist(args[0], node)
    if arr is None:
        return 0
    x = _scalar_z3(args[1], node)
    nz = to_z3(as_int(n))
    i, j = z3.Int(V.fresh_name("first")), z3.Int(V.fresh_name("fj"))
    st.assume(z3.And(i >= 0, i <= nz, z3.ForAll([j], z3.Implies(z3.And(j >= 0, j < i), z3.Select(arr, j) != x)), z3.Or(i == nz, z3.Select(arr, i) == x)))
    return i


def sp_occurrences(interp, st, args, kwargs, node):
    """occurrences(xs, x): how often x occurs in xs (known: 0 <= c <= len; c == 0 iff absent; c == 1 iff exactly one position)"""
    return M.m_list_count(interp, st, args[0], None, [args[1]], {}, node)


def _nd3_terms(conn, t):
    from .npmodel4 import nd3_fns

    fd, fx, fy, flat = nd3_fns()
    R, C = to_z3(as_int(conn.dims[1])), to_z3(as_int(conn.dims[2]))
    tz = to_z3(as_int(t))
    return fd(tz, R, C), fx(tz, R, C), fy(tz, R, C)


def _indicator(conn):
    """the row-major 0/1 sequence of a (D, R, C) bool grid: F[k] = 1 iff the k-th cell in C order is True"""
    k = z3.Int(V.fresh_name("fk"))
    d, x, y = _nd3_terms(conn, k)
    return z3.Lambda([k], z3.If(conn.select([d, x, y]), 1, 0))


def _conn_of(v):
    return v.fields["connection_list"] if isinstance(v, Rec) else v


def sp_bit_at(interp, st, args, kwargs, node):
    """bit_at(conn, t): the t-th cell of a (D, R, C) bool grid in row-major order"""
    conn = _conn_of(args[0])
    d, x, y = _nd3_terms(conn, args[1])
    return conn.select([d, x, y])


def sp_nd3(which):
    def fn(interp, st, args, kwargs, node):
        """nd3_d / nd3_x / nd3_y (conn, t): the index triple of the t-th cell in row-major order"""
        return _nd3_terms(_conn_of(args[0]), args[1])[which]

    return fn


def sp_flat3(interp, st, args, kwargs, node):
    """flat3(conn, d, x, y): the row-major position of cell (d, x, y)"""
    from .npmodel4 import nd3_fns

    conn = _conn_of(args[0])
    R, C = to_z3(as_int(conn.dims[1])), to_z3(as_int(conn.dims[2]))
    return nd3_fns()[3](to_z3(as_int(args[1])), to_z3(as_int(args[2])), to_z3(as_int(args[3])), R, C)


def sp_true_before(interp, st, args, kwargs, node):
    """true_before(conn, t): how many of the first t cells (row-major order) are True - the prefix sum of the indicator sequence"""
    conn = _conn_of(args[0])
    F = _indicator(conn)
    # the lambda is rebuilt per call: name it once per grid so that every mention is the same term
    key = ("indicator", conn.arr.get_id())
    cache = interp.ctx.__dict__.setdefault("indicator_cache", {})
    if key not in cache:
        nm = z3.Const(V.fresh_name("indicator"), z3.ArraySort(z3.IntSort(), z3.IntSort()))
        k = z3.Int(V.fresh_name("fk"))
        d, x, y = _nd3_terms(conn, k)
        cache[key] = (nm, z3.ForAll([k], z3.Select(nm, k) == z3.If(conn.select([d, x, y]), 1, 0), patterns=[z3.Select(nm, k)]))
    nm, defn = cache[key]
    # closed, global definitions: stated once and unguarded (not under the binder / branch in which the term happens to be mentioned)
    done = st.env.setdefault("__global_axioms__", set())
    if nm.get_id() not in done:
        done.add(nm.get_id())
        st.pc.append(defn)
        st.tagmap[defn.get_id()] = "axiom:indicator"
        for ax in M.psum_axioms(nm):
            st.pc.append(ax)
            st.tagmap[ax.get_id()] = "axiom:psum"
    return M.sumfn()(nm, to_z3(as_int(args[1])))


def sp_true_before_lemma(interp, st, args, kwargs, node):
    """LEMMA + definition: true_before(conn, .) is nondecreasing (psum_monotone: prefix sums of a non-negative sequence), and
    over all D*R*C cells it is count(conn) - the meaning of the ghost count: the number of True cells"""
    LEMMAS_USED.add("psum_monotone: prefix sums of non-negative ints are nondecreasing (simple induction)")
    LEMMAS_USED.add("count-definition: count(g) of a bool grid is the number of True cells = the row-major prefix sum of its indicator over all cells")
    conn = _conn_of(args[0])
    if conn.count is None:
        raise Outside("true_before_lemma on a grid without ghost count", node)
    tb0 = sp_true_before(interp, st, [conn, 0], {}, node)
    nm = tb0.arg(0)
    f = M.sumfn()
    a, b = z3.Int(V.fresh_name("a")), z3.Int(V.fresh_name("b"))
    N = to_z3(as_int(conn.dims[0])) * to_z3(as_int(conn.dims[1])) * to_z3(as_int(conn.dims[2]))
    mono = z3.ForAll([a, b], z3.Implies(z3.And(0 <= a, a <= b), f(nm, a) <= f(nm, b)), patterns=[z3.MultiPattern(f(nm, a), f(nm, b))])
    # corollary of the recursion and monotonicity: a True cell at position t has fewer True cells before it than there are in total
    t = z3.Int(V.fresh_name("t"))
    room = z3.ForAll([t], z3.Implies(z3.And(0 <= t, t < N), f(nm, t) + z3.Select(nm, t) <= f(nm, N)), patterns=[f(nm, t)])
    return z3.And(mono, room, f(nm, N) == to_z3(conn.count), f(nm, 0) == 0)


def sp_nd3_cells_lemma(interp, st, args, kwargs, node):
    """LEMMA (lemmas/Unravel.lean nd3_b2): every in-range cell (d, x, y) of a (D, R, C) grid has a row-major position flat3(d, x, y) within [0, D*R*C)
    whose index triple is (d, x, y) again - instantiated wherever the cell conn[d, x, y] itself is mentioned"""
    from .npmodel4 import nd3_fns

    LEMMAS_USED.add("nd3: row-major index algebra of a 3-d shape (k <-> (k / C / R, (k / C) % R, k % C))")
    conn = _conn_of(args[0])
    fd, fx, fy, flat = nd3_fns()
    D, R, C = (to_z3(as_int(v)) for v in conn.dims)
    d, x, y = (z3.Int(V.fresh_name(n)) for n in ("ld", "lx", "ly"))
    f = flat(d, x, y, R, C)
    return z3.ForAll([d, x, y], z3.Implies(z3.And(d >= 0, d < D, x >= 0, x < R, y >= 0, y < C),
                                           z3.And(f >= 0, f < D * R * C, fd(f, R, C) == d, fx(f, R, C) == x, fy(f, R, C) == y)), patterns=[conn.select([d, x, y])])


SPEC_FUNCTIONS = {
    "nd3_cells_lemma": sp_nd3_cells_lemma,
    "bit_at": sp_bit_at,
    "nd3_d": sp_nd3(0),
    "nd3_x": sp_nd3(1),
    "nd3_y": sp_nd3(2),
    "flat3": sp_flat3,
    "true_before": sp_true_before,
    "true_before_lemma": sp_true_before_lemma,
    "first_index": sp_first_index,
    "occurrences": sp_occurrences,
    "unravel_row": _unravel(0),
    "unravel_col": _unravel(1),
    "ravel_index": _unravel(2),
    "unravel_lemma": sp_unravel_lemma,
    "rgb_is": sp_rgb_is,
    "has_field": sp_has_field,
    "has_key": sp_has_key,
    "is_list": sp_is_list,
    "len_obj": sp_len_obj,
    "same_pixel": sp_same_pixel,
    "n_calls": sp_n_calls,
    "call_receiver": sp_call_receiver,
    "call_arg": sp_call_arg,
    "call_result": sp_call_result,
    "maze_equal": sp_maze_equal,
    "psum_monotone": sp_psum_monotone,
    "psum_congruence": sp_psum_congruence,
    "psum": sp_psum,
    "maze_of": sp_maze_of,
    "all_cands": sp_all_cands,
    "distinct_rows": sp_distinct_rows,
    "nrows": sp_nrows,
    "in_grid": sp_in_grid,
    "wf": sp_wf,
    "lat_adj": sp_lat_adj,
    "edge": sp_edge,
    "reach": sp_reach,
    "is_filter": sp_is_filter,
    "same_value": sp_same_value,
    "same_shape": sp_same_shape,
    "n_diff": sp_n_diff,
    "dist": sp_dist,
    "astar_cut": sp_astar_cut,
    "reach_induction": sp_reach_induction,
    "reach_mono": sp_reach_mono,
    "reach_sym": sp_reach_sym,
    "reach_common": sp_reach_common,
    "reach_trans": sp_reach_trans,
    "forall": sp_forall,
    "forall_str": sp_forall_str,
    "exists": sp_exists,
    "implies": sp_implies,
    "iff": sp_iff,
    "card": sp_card,
    "count": sp_count,
    "ite": sp_ite,
    "same_grid": sp_same_grid,
    "is_none": sp_is_none,
    "count_lemma": sp_count_lemma_all,
    "lattice_connected_lemma": sp_grid_connected_lemma,
}
