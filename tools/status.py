"""Print a markdown status table from the evidence files of the last runs (used to keep DESIGN.md section 13 current)."""
import glob, json, os
V = os.path.dirname(os.path.dirname(os.path.abspath(__file__)))
print("| id | level | functions under contract (proved against the real body) | obligations discharged | bounded evaluations (distinct) | wall s |")
print("|---|---|---|---|---|---|")
for f in sorted(glob.glob(os.path.join(V, "evidence", "*.json"))):
    ev = json.load(open(f)); c = ev["coverage"]
    fns = ", ".join(x["function"].split(".")[-1] if x["status"] == "ok" else x["function"] + "(" + x["status"] + ")" for x in c.get("functions_under_contract", []))
    print(f"| {ev['property_id']} | {ev['level']} | {fns or '-'} | {c.get('discharged')}/{c.get('obligations')} | {c.get('evaluations')} ({c.get('distinct_nontrivial')}) | {ev['wall_s']} |")
