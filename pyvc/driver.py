"""Verify one contract against the real function body: generate the obligations."""
from __future__ import annotations

import ast
import itertools
import time
import traceback

import z3

from . import values as V
from . import tys as T
from .values import Outside, to_z3
from .interp import Ctx, Interp, Outcome, State, exc_is_subclass
from .repo import Repo
from . import npmodel as M


class FunctionReport:
    def __init__(self, contract):
        self.contract = contract
        self.label = contract.qualname
        self.status = "ok"  # ok | outside-subset | missing | error
        self.reason = None
        self.obligations = []
        self.trivial = 0
        self.paths = 0
        self.sha = None
        self.file = contract.file
        self.vacuity = {"requires_sat": None, "dead_paths": []}
        self.alternatives = 0
        self.gen_seconds = 0.0
        self.notes = []
        self.callees = []


def loop_ordinals(fnode):
    loops = [n for n in ast.walk(fnode) if isinstance(n, (ast.While, ast.For))]
    loops.sort(key=lambda n: (n.lineno, n.col_offset))
    return {id(n): k for k, n in enumerate(loops)}, {n.lineno: k for k, n in enumerate(loops)}


def n_alternatives(contract):
    n = 1
    for ty in contract.params.values():
        n *= len(ty.alternatives())
    return n


def verify_contract(registry, repo: Repo, contract, options=None, only_alt=None) -> FunctionReport:
    rep = FunctionReport(contract)
    t0 = time.time()
    try:
        mod = repo.module(contract.file)
    except (OSError, SyntaxError) as e:
        rep.status = "missing"
        rep.reason = f"cannot parse {contract.file}: {e}"
        return rep
    fnode, cnode = mod.find(contract.qualname)
    if fnode is None or not isinstance(fnode, ast.FunctionDef):
        rep.status = "missing"
        rep.reason = f"{contract.qualname} not found in {contract.file}"
        return rep
    rep.sha = mod.sha(fnode)
    names = list(contract.params)
    alts = [contract.params[n].alternatives() for n in names]
    for alt_index, combo in enumerate(itertools.product(*alts)):
        if only_alt is not None and alt_index != only_alt:
            continue
        rep.alternatives += 1
        tag = "" if len(list(itertools.product(*alts))) == 1 else "|" + ",".join(repr(c) for c, a in zip(combo, alts) if len(a) > 1)
        try:
            _verify_alternative(registry, repo, contract, mod, fnode, cnode, names, combo, rep, tag, options or {})
        except Outside as e:
            rep.status = "outside-subset"
            rep.reason = f"{e.where()}{tag}"
            break
        except RecursionError:
            rep.status = "outside-subset"
            rep.reason = "recursion limit in executor"
            break
        except Exception as e:  # engine bug: report, never pass
            rep.status = "error"
            rep.reason = f"{type(e).__name__}: {e}\n{traceback.format_exc(limit=8)}"
            break
    rep.gen_seconds = time.time() - t0
    return rep


def _verify_alternative(registry, repo, contract, mod, fnode, cnode, names, combo, rep, tag, options):
    V.reset_names()  # deterministic symbol names per (function, alternative): verdicts do not depend on what ran before
    mod._global_cache.clear()
    ctx = Ctx(repo, registry, fn_label=contract.qualname + tag, options={**{k: v for k, v in contract.options.items() if k in ("no_merge",)}, **dict(options)})
    ctx.current_contract = contract
    ctx.current_mod = mod
    ctx.loop_ordinals, ctx.loop_ordinals_by_line = loop_ordinals(fnode)
    interp = Interp(ctx)
    st = State(mod=mod, cls=cnode)
    inputs = {}
    for n, ty in zip(names, combo):
        v, wf = ty.fresh(n)
        inputs[n] = v
        st.env[n] = v
        for w in wf:
            st.assume(w)
    # parameters not mentioned by the contract take their defaults
    a = fnode.args
    allp = [p.arg for p in list(a.posonlyargs) + list(a.args) + list(a.kwonlyargs)]
    missing = [p for p in allp if p not in st.env]
    if missing:
        bound = M.bind_params(interp, st, fnode, [], dict(st.env), mod, cnode, fnode) if False else None
        pos = list(a.posonlyargs) + list(a.args)
        defaults = dict(zip([p.arg for p in pos[len(pos) - len(a.defaults):]], a.defaults))
        for p, d in zip(a.kwonlyargs, a.kw_defaults):
            if d is not None:
                defaults[p.arg] = d
        for p in missing:
            if p not in defaults:
                raise Outside(f"parameter {p} has neither a declared type nor a default")
            st.env[p] = interp.ev(defaults[p], State(mod=mod, cls=cnode))
            inputs[p] = st.env[p]
    if a.kwarg is not None and a.kwarg.arg not in st.env:
        st.env[a.kwarg.arg] = {}
    if a.vararg is not None and a.vararg.arg not in st.env:
        st.env[a.vararg.arg] = ()
    pre_env = dict(st.env)
    st.env["__pre__"] = pre_env
    for name, expr in contract.lets.items():
        st.env[name] = registry.eval_clause_value(interp, st, expr)
        pre_env[name] = st.env[name]
    for r in contract.requires:
        st.assume(registry.eval_clause(interp, st, r))
    for lem in contract.entry_lemmas:
        st.assume(registry.eval_clause(interp, st, lem))
    # vacuity guard: the precondition must be satisfiable
    s = z3.Tactic("default").solver()
    s.set("timeout", 4000)
    for h in st.hyps():
        s.add(h)
    r = V.guarded_check(s, 4000)
    if r == z3.unknown:
        # quantified lemmas make satisfiability hard to show: check the precondition without the entry lemmas
        s2 = z3.Tactic("default").solver()
        s2.set("timeout", 4000)
        n_lem = len(contract.entry_lemmas)
        for h in (st.hyps()[:-n_lem] if n_lem else st.hyps()):
            s2.add(h)
        r2 = V.guarded_check(s2, 4000)
        if r2 == z3.sat:
            r = "sat-without-lemmas"
    rep.vacuity["requires_sat"] = str(r) if rep.vacuity["requires_sat"] in (None, "sat") else rep.vacuity["requires_sat"]
    if r == z3.unsat:
        rep.status = "error"
        rep.reason = f"contradictory precondition{tag}"
        return
    rep.input_symbols = inputs
    outs = interp.exec_block(fnode.body, st)
    flushed = []
    for o in outs:
        interp._flush_excs(o.st, flushed)
    outs = outs + flushed
    rep.paths += len(outs)
    for k, o in enumerate(outs):
        if o.kind in ("return", "normal"):
            fin = o.st
            env = dict(pre_env)
            for m in contract.modifies:
                if m in fin.env:
                    env[m] = fin.env[m]
            if "__axioms__" in fin.env:
                env["__axioms__"] = fin.env["__axioms__"]
            env["result"] = o.value if o.kind == "return" else None
            if contract.qualname.endswith(".__init__") and env["result"] is None and "self" in fin.env:
                env["result"] = fin.env["self"]  # a constructor's result is the object it initialised
            env["__pre__"] = pre_env
            env["__final__"] = fin.env
            pst = State(env, fin.pc, [], mod, cnode)
            pst.trace = fin.trace
            for lem in contract.exit_lemmas:
                pst.assume(registry.eval_clause(interp, pst, lem))
            for lab, clause in contract.ensures.items():
                c = registry.eval_clause(interp, pst, clause)
                ctx.oblige(pst, c, f"post[{lab}]#p{k}", fnode, "post", meta={"clause": clause, "ensures": lab})
        elif o.kind == "raise":
            fin = o.st
            pst = State(dict(pre_env), fin.pc, [], mod, cnode)
            pst.env["__pre__"] = pre_env
            pst.env["__final__"] = fin.env
            if "__axioms__" in fin.env:
                pst.env["__axioms__"] = fin.env["__axioms__"]
            pst.trace = fin.trace
            pst.tagmap = fin.tagmap
            for lem in contract.raise_lemmas:
                pst.assume(registry.eval_clause(interp, pst, lem))
            matched = False
            for exc, cond in contract.raises.items():
                if exc_is_subclass(o.exc, exc):
                    matched = True
                    c = True if cond in (None, True) else registry.eval_clause(interp, pst, cond)
                    ctx.oblige(pst, c, f"raises[{exc}]#p{k}", fnode, "raises", meta={"clause": cond, "exc": o.exc})
                    break
            if not matched:
                ctx.oblige(pst, False, f"no-exception[{o.exc}]#p{k}", fnode, "raises", meta={"exc": o.exc, "trace": list(fin.trace)})
        else:
            raise Outside(f"{o.kind} outside a loop")
    # vacuity canaries: some normally-returning path must have satisfiable assumptions (a function whose every
    # return path is contradictory would make all its postconditions vacuously true)
    alive = 0
    dead = []
    normal = [(k, o) for k, o in enumerate(outs) if o.kind in ("return", "normal")]
    for k, o in normal:
        can = z3.Tactic("default").solver()
        can.set("timeout", 1500)
        for h in o.st.hyps():
            can.add(h)
        r = V.guarded_check(can, 1500)
        rep.vacuity.setdefault("canaries", []).append(str(r))
        if r == z3.unsat:
            dead.append(f"{contract.qualname}{tag}#p{k}: {' > '.join(o.st.trace[-4:])}")
        else:
            alive += 1
    if normal and alive == 0:
        rep.vacuity["dead_paths"].extend(dead)
    elif dead:
        rep.notes.append(f"infeasible return paths not pruned during execution: {dead}")
    rep.obligations.extend(ctx.obligations)
    rep.trivial += ctx.trivial
    rep.notes.extend(ctx.notes)
    rep.callees = sorted(registry.calls_seen.get(ctx.fn_label, set()))
