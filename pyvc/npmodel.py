"""Library models and value-level operations for the symbolic executor.
Part 1: operators, comparison, indexing, attribute access."""
from __future__ import annotations

import ast
import itertools

import z3

from . import values as V
from .values import (
    Arr,
    CDict,
    CSet,
    GList,
    Grid,
    Outside,
    Rec,
    SymList,
    arr_binop,
    as_int,
    b_and,
    b_implies,
    b_not,
    b_or,
    is_scalar,
    is_sym,
    ite,
    merge,
    to_z3,
    truthy,
    values_equal,
)


def _I():
    from . import interp

    return interp


# ----------------------------------------------------------------------------- scalar arithmetic
def _is_real(x):
    return isinstance(x, float) or (is_sym(x) and x.sort() == z3.RealSort())


def _is_bool(x):
    return isinstance(x, bool) or (is_sym(x) and x.sort() == z3.BoolSort())


def _num(x):
    """bool -> int for arithmetic"""
    return as_int(x)


def _coerce_pair(a, b):
    a, b = _num(a), _num(b)
    if is_sym(a) or is_sym(b):
        if _is_real(a) and not _is_real(b):
            b = z3.ToReal(to_z3(b)) if is_sym(b) else float(b)
        elif _is_real(b) and not _is_real(a):
            a = z3.ToReal(to_z3(a)) if is_sym(a) else float(a)
    return a, b


def s_add(a, b):
    a, b = _coerce_pair(a, b)
    return a + b


def s_sub(a, b):
    a, b = _coerce_pair(a, b)
    return a - b


def s_mul(a, b):
    a, b = _coerce_pair(a, b)
    return a * b


def s_neg(a):
    return -_num(a)


def s_abs(a):
    a = _num(a)
    if is_sym(a):
        return z3.If(a >= 0, a, -a)
    return abs(a)


def s_truediv(a, b):
    a, b = _num(a), _num(b)
    if not is_sym(a) and not is_sym(b):
        return a / b
    za = to_z3(a)
    zb = to_z3(b)
    if za.sort() == z3.IntSort():
        za = z3.ToReal(za)
    if zb.sort() == z3.IntSort():
        zb = z3.ToReal(zb)
    return za / zb


def s_floordiv(a, b, interp=None, st=None, node=None):
    a, b = _num(a), _num(b)
    if not is_sym(a) and not is_sym(b):
        return a // b
    if _is_real(a) or _is_real(b):
        raise Outside("floor division of reals", node)
    if is_sym(b):
        raise Outside("floor division by a symbolic divisor", node)
    if b <= 0:
        raise Outside("floor division by non-positive constant", node)
    return to_z3(a) / b  # z3 int division with positive divisor = floor


def s_mod(a, b, node=None):
    a, b = _num(a), _num(b)
    if not is_sym(a) and not is_sym(b):
        return a % b
    if _is_real(a) or _is_real(b) or is_sym(b):
        raise Outside("modulo outside (int % positive constant)", node)
    if b <= 0:
        raise Outside("modulo by non-positive constant", node)
    return to_z3(a) % b


def s_cmp(op, a, b):
    if _is_bool(a) and _is_bool(b) and isinstance(op, (ast.Eq, ast.NotEq)):
        if not is_sym(a) and not is_sym(b):
            r = a == b
        else:
            r = to_z3(a) == to_z3(b)
        return r if isinstance(op, ast.Eq) else b_not(r)
    a, b = _coerce_pair(a, b)
    if isinstance(op, ast.Eq):
        return a == b
    if isinstance(op, ast.NotEq):
        return a != b
    if isinstance(op, ast.Lt):
        return a < b
    if isinstance(op, ast.LtE):
        return a <= b
    if isinstance(op, ast.Gt):
        return a > b
    if isinstance(op, ast.GtE):
        return a >= b
    raise Outside(f"comparison {type(op).__name__}")


def s_min(a, b):
    if not is_sym(a) and not is_sym(b):
        return min(a, b)
    a, b = _coerce_pair(a, b)
    return z3.If(to_z3(a) <= to_z3(b), to_z3(a), to_z3(b))


def s_max(a, b):
    if not is_sym(a) and not is_sym(b):
        return max(a, b)
    a, b = _coerce_pair(a, b)
    return z3.If(to_z3(a) >= to_z3(b), to_z3(a), to_z3(b))


def s_int(x):
    """python int(): truncation toward zero"""
    if isinstance(x, (bool, int)):
        return int(x)
    if isinstance(x, float):
        return int(x)
    if is_sym(x):
        if x.sort() == z3.IntSort():
            return x
        if x.sort() == z3.BoolSort():
            return z3.If(x, 1, 0)
        if x.sort() == z3.RealSort():
            return z3.If(x >= 0, z3.ToInt(x), -z3.ToInt(-x))
    raise Outside("int() of non-number")


# ----------------------------------------------------------------------------- grid helpers
class SliceSpec:
    """normalised python slice over a dimension of length n: indices lo, lo+step, ... < hi"""

    def __init__(self, lo, hi, step, length):
        self.lo, self.hi, self.step, self.length = lo, hi, step, length


def norm_index(i, n):
    """python negative index wrap; returns (index, in_bounds_condition).
    In specification clauses indices are taken as they are (no wrap): clauses only use 0 <= i < n."""
    i = _num(i)
    if V.SPEC_MODE and is_sym(i):
        return i, b_and(i >= 0, i < n)
    if not is_sym(i) and not is_sym(n):
        j = i + n if i < 0 else i
        return j, (0 <= j < n)
    if not is_sym(i):
        j = i + n if i < 0 else i
        return j, b_and(0 <= j, j < n) if i < 0 else (j < n)
    j = z3.If(i < 0, i + n, i)
    return j, z3.And(j >= 0, j < n)


def _clamp(x, lo, hi):
    return s_max(lo, s_min(x, hi))


def norm_slice(sl: slice, n):
    step = sl.step if sl.step is not None else 1
    if is_sym(step) or not isinstance(step, int) or step <= 0:
        raise Outside("slice with non-constant or non-positive step")
    lo = sl.start
    hi = sl.stop
    if lo is None:
        lo = 0
    else:
        lo = _num(lo)
        if is_sym(lo):
            lo = z3.If(lo < 0, lo + n, lo)
        elif lo < 0:
            lo = lo + n
        lo = _clamp(lo, 0, n)
    if hi is None:
        hi = n
    else:
        hi = _num(hi)
        if is_sym(hi):
            hi = z3.If(hi < 0, hi + n, hi)
        elif hi < 0:
            hi = hi + n
        hi = _clamp(hi, 0, n)
    diff = s_sub(hi, lo)
    if step == 1:
        length = s_max(diff, 0)
    else:
        d = s_max(diff, 0)
        length = s_floordiv(s_add(d, step - 1), step)
    return SliceSpec(lo, hi, step, length)


def grid_to_arr_if_const(g):
    """a Grid whose dims are all python ints becomes an Arr"""
    if isinstance(g, Grid) and all(isinstance(d, int) for d in g.dims):
        flat = []
        for idx in itertools.product(*[range(d) for d in g.dims]):
            flat.append(z3.simplify(g.select(idx)) if False else g.select(idx))
        return Arr(tuple(g.dims), flat, g.kind)
    return g


def grid_lambda(dims, kind, fn, dtype=None):
    """Grid defined pointwise: fn(list of z3 index vars) -> scalar"""
    vars_ = [z3.Int(V.fresh_name(f"i{k}")) for k in range(len(dims))]
    body = to_z3(fn(vars_))
    s = V.sort_for_kind(kind)
    if body.sort() != s:
        if s == z3.RealSort() and body.sort() == z3.IntSort():
            body = z3.ToReal(body)
        elif s == z3.IntSort() and body.sort() == z3.BoolSort():
            body = z3.If(body, 1, 0)
        else:
            raise Outside(f"pointwise grid of sort {body.sort()} declared {kind}")
    arr = body
    for v in reversed(vars_):
        arr = z3.Lambda([v], arr)
    return Grid(list(dims), arr, kind, None, dtype)


def arr_to_grid(a: Arr):
    """constant-shape array as a Grid (for mixing in grid operations)"""

    def fn(idx):
        out = None
        strides = a._strides()
        # build nested ite over all positions
        expr = to_z3(a.flat[-1]) if a.flat else z3.IntVal(0)
        for pos in range(len(a.flat) - 2, -1, -1):
            multi = []
            rem = pos
            for s in strides:
                multi.append(rem // s)
                rem %= s
            cond = z3.And(*[idx[k] == multi[k] for k in range(len(multi))]) if multi else z3.BoolVal(True)
            expr = z3.If(cond, to_z3(a.flat[pos]), expr)
        return expr

    return grid_lambda(list(a.shape), a.kind, fn)


# ----------------------------------------------------------------------------- elementwise
def _elementwise2(interp, st, a, b, f, kind, node):
    """binary elementwise op over scalars / Arr / Grid with numpy broadcasting (Grid: equal rank or scalar)"""
    if isinstance(a, (list, tuple)) and (isinstance(b, (Arr, Grid))):
        a = Arr.from_nested(list(a))
    if isinstance(b, (list, tuple)) and (isinstance(a, (Arr, Grid))):
        b = Arr.from_nested(list(b))
    if isinstance(a, Grid) or isinstance(b, Grid):
        ga = a if isinstance(a, Grid) else None
        gb = b if isinstance(b, Grid) else None
        if ga is not None and gb is not None:
            if ga.rank != gb.rank:
                raise Outside("grid op with different ranks", node)
            for k, (x, y) in enumerate(zip(ga.dims, gb.dims)):
                interp.ctx.oblige(st, s_cmp(ast.Eq(), x, y), f"shape-match@{getattr(node,'lineno','?')}.{k}", node, "shape")
            dims = ga.dims
            return grid_lambda(dims, kind or ga.kind, lambda idx: f(ga.select(idx), gb.select(idx)))
        g = ga or gb
        other = b if ga is not None else a
        if is_scalar(other):
            if ga is not None:
                return grid_lambda(g.dims, kind or g.kind, lambda idx: f(g.select(idx), other))
            return grid_lambda(g.dims, kind or g.kind, lambda idx: f(other, g.select(idx)))
        if isinstance(other, Arr):
            # broadcast a constant trailing-shape array against the grid: align from the right
            r = g.rank
            if other.ndim > r:
                raise Outside("broadcast of larger constant array with grid", node)
            og = other

            def pick(idx):
                sub = idx[r - og.ndim :]
                # size-1 dims broadcast
                e = None
                expr = None
                strides = og._strides()
                expr = to_z3(og.flat[-1])
                for pos in range(len(og.flat) - 2, -1, -1):
                    multi = []
                    rem = pos
                    for s_ in strides:
                        multi.append(rem // s_)
                        rem %= s_
                    conds = [sub[k] == multi[k] for k in range(len(multi)) if og.shape[k] != 1]
                    cond = z3.And(*conds) if conds else z3.BoolVal(True)
                    expr = z3.If(cond, to_z3(og.flat[pos]), expr)
                return expr

            for k in range(og.ndim):
                if og.shape[k] != 1:
                    interp.ctx.oblige(st, s_cmp(ast.Eq(), g.dims[r - og.ndim + k], og.shape[k]), f"shape-match@{getattr(node,'lineno','?')}.{k}", node, "shape")
            if ga is not None:
                return grid_lambda(g.dims, kind or g.kind, lambda idx: f(g.select(idx), pick(idx)))
            return grid_lambda(g.dims, kind or g.kind, lambda idx: f(pick(idx), g.select(idx)))
        raise Outside(f"grid op with {type(other).__name__}", node)
    if isinstance(a, Arr) or isinstance(b, Arr):
        return arr_binop(a, b, f, kind)
    return f(a, b)


_ARITH = {
    ast.Add: s_add,
    ast.Sub: s_sub,
    ast.Mult: s_mul,
    ast.Div: s_truediv,
}


def binop(interp, st, op, l, r, node=None):
    t = type(op)
    I = _I()
    if t is ast.Add and (I.is_obj(l) or isinstance(l, I.ObjMethod)) and isinstance(r, (list, tuple)):
        # <opaque list> + [literal, ...]: an unknown function of the object and the (interned) literal
        lv = l.value if isinstance(l, I.ObjMethod) else l
        rc = V._coerce_objs(lv, r)
        if rc is None or not I.is_obj(rc):
            raise Outside("concatenation of an opaque object with a list that has symbolic parts", node)
        return z3.Function("obj.concat", I.OBJ_SORT, I.OBJ_SORT, I.OBJ_SORT)(lv, rc)
    if t in (ast.Add, ast.Sub, ast.Mult) and (I.is_obj(l) or I.is_obj(r) or isinstance(l, I.ObjMethod) or isinstance(r, I.ObjMethod)) and (is_scalar(l) or is_scalar(r)):
        # a number combined with an element of an opaque object (e.g. seed + worker id): an unknown integer function of the two
        lv = l.value if isinstance(l, I.ObjMethod) else l
        rv = r.value if isinstance(r, I.ObjMethod) else r
        zs = [to_z3(lv), to_z3(rv)]
        return z3.Function(f"obj.arith.{t.__name__}!" + "_".join(str(z.sort()) for z in zs), *([z.sort() for z in zs] + [z3.IntSort()]))(*zs)
    if t is ast.Div and (I.is_obj(l) or I.is_obj(r) or isinstance(l, I.ObjMethod) or isinstance(r, I.ObjMethod)):
        # `path / name` on opaque objects: an unknown function of the two
        ls = [to_z3(x) for x in V.leaves_of(l) if x is not None and not isinstance(x, str)]
        rs = [to_z3(x) for x in V.leaves_of(r) if x is not None and not isinstance(x, str)]
        fn = z3.Function("obj.div!" + "_".join(str(x.sort()) for x in ls + rs), *([x.sort() for x in ls + rs] + [I.OBJ_SORT]))
        return fn(*(ls + rs))
    # sequence / string operations
    if t is ast.Add:
        if isinstance(l, str) and isinstance(r, str):
            return l + r
        if isinstance(l, tuple) and isinstance(r, tuple):
            return l + r
        if isinstance(l, list) and isinstance(r, list):
            return l + r
        if isinstance(l, _I().Opaque) or isinstance(r, _I().Opaque):
            return _I().Opaque("str")
        if isinstance(l, SymList) and isinstance(r, list):
            out = l
            for e in r:
                out = out.append(e)
            return out
    if t is ast.Mult and isinstance(l, list) and isinstance(r, int):
        return l * r
    if t is ast.Mod and (isinstance(l, str) or isinstance(l, _I().Opaque)):
        return _I().Opaque("str")
    if t in _ARITH:
        f = _ARITH[t]
        kind = None
        return _elementwise2(interp, st, l, r, f, kind if not isinstance(l, Grid) and not isinstance(r, Grid) else _result_kind(l, r, t), node)
    if t is ast.FloorDiv:
        return _elementwise2(interp, st, l, r, lambda a, b: s_floordiv(a, b, node=node), None if not isinstance(l, Grid) else "int", node)
    if t is ast.Mod:
        return _elementwise2(interp, st, l, r, lambda a, b: s_mod(a, b, node), None if not isinstance(l, Grid) else "int", node)
    if t is ast.Pow:
        if is_scalar(r) and not is_sym(r) and isinstance(r, int) and 0 <= r <= 4:
            out = 1
            for _ in range(r):
                out = binop(interp, st, ast.Mult(), out, l, node)
            return out
        if not is_sym(l) and not is_sym(r) and is_scalar(l) and is_scalar(r):
            return l**r
        raise Outside("power with symbolic exponent", node)
    if t in (ast.BitAnd, ast.BitOr, ast.BitXor):
        if isinstance(l, CSet) and isinstance(r, CSet) and t is ast.BitAnd:
            return set_intersection(l, r)

        def f(a, b):
            if not (_is_bool(a) and _is_bool(b)):
                raise Outside("bitwise operator on non-bool", node)
            if t is ast.BitAnd:
                return b_and(a, b)
            if t is ast.BitOr:
                return b_or(a, b)
            return b_not(s_cmp(ast.Eq(), a, b))

        return _elementwise2(interp, st, l, r, f, "bool", node)
    raise Outside(f"binary operator {t.__name__}", node)


def _result_kind(l, r, t):
    ks = []
    for x in (l, r):
        if isinstance(x, (Grid, Arr)):
            ks.append(x.kind)
        elif is_scalar(x):
            ks.append(V.kind_of_scalar(x))
    if t is ast.Div or "float" in ks:
        return "float"
    return "int"


def set_intersection(a: CSet, b: CSet):
    vars_ = [z3.Int(V.fresh_name("k")) for _ in range(a.arity)]
    body = z3.And(a.contains(vars_), b.contains(vars_))
    arr = body
    for v in reversed(vars_):
        arr = z3.Lambda([v], arr)
    card = z3.Int(V.fresh_name("card_inter"))
    return CSet(a.arity, arr, card)


def unop(interp, st, op, v, node=None):
    t = type(op)
    if t is ast.Not:
        return b_not(_I().truthy_value(interp, st, v))
    if t is ast.USub:
        if isinstance(v, Arr):
            return v.map(s_neg)
        if isinstance(v, Grid):
            return grid_lambda(v.dims, v.kind, lambda idx: s_neg(v.select(idx)))
        return s_neg(v)
    if t is ast.UAdd:
        return v
    if t is ast.Invert:
        def f(a):
            if not _is_bool(a):
                raise Outside("~ on non-bool", node)
            return b_not(a)

        if isinstance(v, Arr):
            return v.map(f, "bool")
        if isinstance(v, Grid):
            g = grid_lambda(v.dims, "bool", lambda idx: f(v.select(idx)))
            return g
        return f(v)
    raise Outside(f"unary operator {t.__name__}", node)


# ----------------------------------------------------------------------------- comparison
def compare(interp, st, op, l, r, node=None):
    I = _I()
    t = type(op)
    if t in (ast.Is, ast.IsNot):
        if r is None or l is None:
            res = l is r
        elif isinstance(l, bool) and isinstance(r, bool):
            res = l is r
        elif isinstance(l, (I.ClassRef,)) and isinstance(r, I.ClassRef):
            res = l.name == r.name
        else:
            raise Outside("`is` between non-None values", node)
        return res if t is ast.Is else (not res)
    if t in (ast.In, ast.NotIn):
        res = contains(interp, st, r, l, node)
        return res if t is ast.In else b_not(res)
    if isinstance(l, I.ObjMethod):
        l = l.value
    if isinstance(r, I.ObjMethod):
        r = r.value
    if (I.is_obj(l) or I.is_obj(r)) and t in (ast.Eq, ast.NotEq) and l is not None and r is not None:
        # an opaque object against another one, or against a python literal (interned as an object constant)
        a = l if I.is_obj(l) else V._coerce_objs(r, l)
        b = r if I.is_obj(r) else V._coerce_objs(l, r)
        if a is None or b is None or not (I.is_obj(a) and I.is_obj(b)):
            if is_scalar(l) and is_scalar(r):
                # an opaque object against a symbolic number / string: nothing is known about the outcome
                u = z3.Bool(V.fresh_name("obj_eq_unknown"))
                return u if t is ast.Eq else z3.Not(u)
            raise Outside("comparison of an opaque object with a value containing symbolic parts", node)
        return (a == b) if t is ast.Eq else (a != b)
    # None comparisons
    if l is None or r is None:
        if t is ast.Eq:
            return l is None and r is None
        if t is ast.NotEq:
            return not (l is None and r is None)
        raise Outside("ordering comparison with None", node)
    if (isinstance(l, str) or isinstance(r, str)) and (is_sym(l) or is_sym(r)) and t in (ast.Eq, ast.NotEq):
        zl, zr = to_z3(l), to_z3(r)
        if zl.sort() == z3.StringSort() and zr.sort() == z3.StringSort():
            return zl == zr if t is ast.Eq else zl != zr
        return t is ast.NotEq
    if isinstance(l, str) or isinstance(r, str):
        if isinstance(l, str) and isinstance(r, str):
            return {ast.Eq: l == r, ast.NotEq: l != r}.get(t, None) if t in (ast.Eq, ast.NotEq) else _str_cmp(t, l, r)
        if hasattr(interp.lib, "tok_compare"):
            return interp.lib.tok_compare(interp, st, t, l, r, node)
        if t is ast.Eq:
            return False
        if t is ast.NotEq:
            return True
    if isinstance(l, RowsShape) or isinstance(r, RowsShape):
        sh, other = (l, r) if isinstance(l, RowsShape) else (r, l)
        if not isinstance(other, tuple) or t not in (ast.Eq, ast.NotEq):
            raise Outside("comparison of rows-array shape", node)
        n = rows_len(interp, st, sh.rows, node)
        if len(other) == 2:
            res = b_and(s_cmp(ast.Gt(), n, 0), s_cmp(ast.Eq(), other[0], n), s_cmp(ast.Eq(), other[1], sh.rows.width))
        elif len(other) == 1:
            res = b_and(s_cmp(ast.Eq(), n, 0), s_cmp(ast.Eq(), other[0], 0))
        else:
            res = False
        return res if t is ast.Eq else b_not(res)
    if isinstance(l, I.ClassRef) and isinstance(r, I.ClassRef):
        if t is ast.Eq:
            return l.name == r.name
        if t is ast.NotEq:
            return l.name != r.name
    if isinstance(l, (Arr, Grid)) or isinstance(r, (Arr, Grid)):
        if isinstance(l, tuple) and isinstance(r, Arr) or isinstance(r, tuple) and isinstance(l, Arr):
            pass
        res = _elementwise2(interp, st, l, r, lambda a, b: s_cmp(op, a, b), "bool", node)
        if t is ast.NotEq and isinstance(l, Grid) and isinstance(r, Grid) and isinstance(res, Grid):
            res.neq_of = (l, r)  # remembered so that np.sum(a != b) is the number of differing entries of a and b
        return res
    if isinstance(l, (tuple, list)) and isinstance(r, (tuple, list)):
        if t is ast.Eq:
            return tuple_eq(l, r)
        if t is ast.NotEq:
            return b_not(tuple_eq(l, r))
        raise Outside("ordering of tuples", node)
    if is_scalar(l) and is_scalar(r):
        return s_cmp(op, l, r)
    if isinstance(l, dict) and isinstance(r, dict) and t in (ast.Eq, ast.NotEq):
        res = dict_eq(l, r)
        return res if t is ast.Eq else b_not(res)
    if isinstance(l, Rec) and isinstance(r, Rec) and t in (ast.Eq, ast.NotEq) and l.cls in ("LatticeMaze", "TargetedLatticeMaze", "SolvedMaze") \
            and r.cls in ("LatticeMaze", "TargetedLatticeMaze", "SolvedMaze"):
        from . import spec as SP
        from .npmodel4 import _trust

        _trust("== of two mazes is LatticeMaze.__eq__, proved equal to the specification maze_equal under C09")
        res = SP.sp_maze_equal(interp, st, [l, r], {}, node)
        return res if t is ast.Eq else b_not(res)
    if isinstance(l, SymList) and isinstance(r, SymList) and t in (ast.Eq, ast.NotEq) and isinstance(l.tmpl, Rec) and isinstance(r.tmpl, Rec) \
            and l.tmpl.cls in ("LatticeMaze", "TargetedLatticeMaze", "SolvedMaze") and r.tmpl.cls in ("LatticeMaze", "TargetedLatticeMaze", "SolvedMaze"):
        # list == list: equal lengths and pairwise == (python also accepts identical elements outright; maze equality is reflexive).  == of two mazes
        # is LatticeMaze.__eq__, proved equal to the specification maze_equal under C09.
        from . import spec as SP
        from .npmodel4 import _trust

        _trust("list.__eq__: equal lengths and pairwise == of the elements (== of mazes: LatticeMaze.__eq__ = maze_equal, C09)")
        k = z3.Int(V.fresh_name("lk"))
        n = to_z3(V.as_int(l.length))
        eq = SP.sp_maze_equal(interp, st, [l.get(k), r.get(k)], {}, node)
        res = z3.And(n == to_z3(V.as_int(r.length)), z3.ForAll([k], z3.Implies(z3.And(k >= 0, k < n), to_z3(eq))))
        return res if t is ast.Eq else z3.Not(res)
    raise Outside(f"comparison of {type(l).__name__} and {type(r).__name__}", node)


def _str_cmp(t, l, r):
    return {ast.Lt: l < r, ast.LtE: l <= r, ast.Gt: l > r, ast.GtE: l >= r}[t]


def tuple_eq(l, r):
    if len(l) != len(r):
        return False
    conj = []
    for a, b in zip(l, r):
        if isinstance(a, (tuple, list)) and isinstance(b, (tuple, list)):
            c = tuple_eq(a, b)
        elif a is None or b is None:
            c = a is None and b is None
        elif isinstance(a, str) or isinstance(b, str):
            c = isinstance(a, str) and isinstance(b, str) and a == b
        elif is_scalar(a) and is_scalar(b):
            if _is_bool(a) != _is_bool(b) and not (is_sym(a) or is_sym(b)):
                c = a == b
            else:
                c = s_cmp(ast.Eq(), a, b)
        elif isinstance(a, dict) and isinstance(b, dict):
            c = dict_eq(a, b)
        else:
            raise Outside(f"tuple equality over {type(a).__name__}/{type(b).__name__}")
        if c is False:
            return False
        conj.append(c)
    return b_and(*conj)


def dict_eq(l, r):
    if set(l) != set(r):
        return False
    return b_and(*[tuple_eq((l[k],), (r[k],)) for k in l])


def contains(interp, st, container, item, node=None):
    if isinstance(container, EmptySet):
        return False
    if isinstance(container, CSet):
        key = as_key(item, node)
        return container.contains(key)
    if type(container).__name__ == "RecDictView":
        # `name in obj.__dict__`: a declared field is there; anything else may or may not have been stored by an earlier call (unknown)
        if isinstance(item, str):
            if item in container.rec.fields:
                return True
            return z3.Bool(V.fresh_name(f"has_attr_{item}"))
        raise Outside("`in obj.__dict__` with a non-constant name", node)
    if isinstance(container, V.SDict):
        key = item if is_sym(item) else z3.StringVal(item)
        return container.has(key)
    if isinstance(container, CDict):
        return container.has(as_key(item, node))
    if isinstance(container, dict):
        if isinstance(item, (str, int)) or (isinstance(item, tuple) and all(not is_sym(x) for x in item)):
            return item in container
        # symbolic key against concrete keys
        return b_or(*[tuple_eq((item,), (k,)) for k in container])
    if isinstance(container, (list, tuple)):
        return b_or(*[compare_eq_any(interp, st, item, x, node) for x in container])
    if isinstance(container, GList):
        return b_or(*[b_and(g, compare_eq_any(interp, st, item, x, node)) for g, x in container.items])
    if isinstance(container, SymList):
        k = z3.Int(V.fresh_name("k"))
        eq = compare_eq_any(interp, st, item, container.get(k), node)
        return z3.Exists([k], z3.And(k >= 0, k < container.length, to_z3(eq)))
    if isinstance(container, Rows):
        return contains(interp, st, container.src, item, node)
    if isinstance(container, Grid) and container.rank == 2 and isinstance(container.dims[1], int):
        # a coordinate tuple `in` an (n, w) array of rows (spec vocabulary): some row equals it
        key = as_key(item, node)
        if len(key) != container.dims[1]:
            return False
        k = z3.Int(V.fresh_name("k"))
        return z3.Exists([k], z3.And(k >= 0, k < to_z3(container.dims[0]), *[container.select([k, c]) == to_z3(key[c]) for c in range(len(key))]))
    if isinstance(container, str) and isinstance(item, str):
        return item in container
    I_ = _I()
    if isinstance(container, I_.ObjMethod):
        container = container.value
    if I_.is_obj(container) and (isinstance(item, (str, int)) or is_sym(item)):
        # membership in an object we do not look into: an unknown but fixed predicate of (object, item)
        it = z3.StringVal(item) if isinstance(item, str) else to_z3(item)
        return z3.Function(f"obj.contains_{it.sort()}", I_.OBJ_SORT, it.sort(), z3.BoolSort())(container, it)
    if hasattr(interp.lib, "tok_contains"):
        r = interp.lib.tok_contains(interp, st, container, item, node)
        if r is not None:
            return r
    raise Outside(f"`in` on {type(container).__name__}", node)


def compare_eq_any(interp, st, a, b, node=None):
    if isinstance(a, Arr) and a.ndim == 1:
        a = tuple(a.flat)
    if isinstance(b, Arr) and b.ndim == 1:
        b = tuple(b.flat)
    if isinstance(a, (tuple, list)) and isinstance(b, (tuple, list)):
        return tuple_eq(a, b)
    return compare(interp, st, ast.Eq(), a, b, node)


def as_key(item, node=None):
    if isinstance(item, Arr) and item.ndim == 1:
        return tuple(item.flat)
    if isinstance(item, tuple):
        return item
    if isinstance(item, list):
        return tuple(item)
    if is_scalar(item):
        return (item,)
    raise Outside(f"set/dict key of type {type(item).__name__}", node)


from .npmodel2 import *  # noqa: E402,F401,F403  (indexing, attributes, calls, builtins)
from .npmodel2 import _oblige_index  # noqa: E402,F401
