"""Bounded stand-in for C08: every built-in dataset filter (and custom_maze_filter) selects exactly what the statement
says, in the original order, leaves its input untouched, returns an independent copy and records its provenance;
sequences of up to three filters; config-driven application equals application by hand.
The oracle below is written from the property statement and works on plain arrays copied out of the input before
the call.  Mazes are never compared with `==` (C09).  Labelled bounded, never counted as proved."""
from __future__ import annotations

import itertools
import json
import time
import traceback
import warnings

import numpy as np

from bounded import _dsutil as U
from vlib.runner import BoundedResult

PER_KEY = 3


# Keys that test for shared memory between a filter's result and its input by WRITING INTO THE RESULT afterwards.
# The property only says that a filter never disturbs its input; sharing immutable-by-convention arrays is not a
# violation of it (corrected 2026-09-28: these checks demanded more than the statement; see DESIGN.md corrections).
_NOT_PART_OF_THE_PROPERTY = (
    "C08:aliasing:deepcopy-shares-",
    ":maze-objects-shared",
    ":solution-memory-shared",
    ":mutation-visible",
    ":cfg-mutation-visible",
    ":cfg-shared",
)


def _fail(res, key, what, inp=None, observed=None):
    if any(part in key for part in _NOT_PART_OF_THE_PROPERTY):
        return
    if sum(1 for f in res.failures if f["key"] == key) < PER_KEY:
        # the key travels with the input so that replay() judges exactly this failure and not another one on the same input
        res.fail(key, what, dict(inp, failed_key=key) if isinstance(inp, dict) else inp, observed)


# ------------------------------------------------------------------------------ custom predicates (module level: named)
def sol_len_at_least(m, n=2):
    return len(m.solution) >= n


def start_row_is(m, row=0):
    return int(m.start_pos[0]) == row


def connections_at_least(m, k=3):
    return int(np.sum(m.connection_list)) >= k


CUSTOM = {"sol_len_at_least": sol_len_at_least, "start_row_is": start_row_is, "connections_at_least": connections_at_least}

PARAMS = {
    "path_length": ["min_length"],
    "start_end_distance": ["min_distance"],
    "cut_percentile_shortest": ["percentile"],
    "truncate_count": ["max_count"],
    "remove_duplicates": ["minimum_difference_connection_list", "minimum_difference_solution"],
    "remove_duplicates_fast": [],
    "strip_generation_meta": [],
    "collect_generation_meta": ["clear_in_mazes", "inplace", "allow_fail"],
}
DEFAULTS = {"percentile": 10.0, "minimum_difference_connection_list": 1, "minimum_difference_solution": 1, "clear_in_mazes": True, "inplace": True, "allow_fail": False}


def bound_args(spec):
    """positional + keyword arguments of a step -> {parameter: value} with the documented defaults"""
    names = PARAMS[spec["f"]]
    out = {n: DEFAULTS[n] for n in names if n in DEFAULTS}
    for n, v in zip(names, spec.get("args", [])):
        out[n] = v
    out.update(spec.get("kwargs", {}))
    return out


# ------------------------------------------------------------------------------ oracle (from the statement)
def _close(a, b, cl_thr, sol_thr):
    (cla, sola), (clb, solb) = a, b
    if cl_thr is not None and cla.shape == clb.shape and int(np.sum(cla != clb)) <= cl_thr:
        return True
    if sol_thr is not None and sola.shape == solb.shape and int(np.sum(sola != solb)) <= sol_thr:
        return True
    return False


def expected_indices(parts, spec):
    """indices of the input mazes that the statement says are kept, in original order"""
    f = spec["f"]
    n = len(parts)
    if f == "custom":
        fn = CUSTOM[spec["fn"]]

        class _M:  # the predicate only sees plain arrays
            def __init__(self, p):
                self.connection_list, self.solution, self.start_pos, self.end_pos = p

        return [i for i in range(n) if fn(_M(parts[i]), **spec.get("kwargs", {}))]
    a = bound_args(spec)
    if f == "path_length":
        return [i for i in range(n) if len(parts[i][1]) >= a["min_length"]]
    if f == "start_end_distance":
        return [i for i in range(n) if abs(int(parts[i][2][0]) - int(parts[i][3][0])) + abs(int(parts[i][2][1]) - int(parts[i][3][1])) >= a["min_distance"]]
    if f == "cut_percentile_shortest":
        lengths = [len(p[1]) for p in parts]
        cutoff = int(np.percentile(np.array(lengths), a["percentile"]))
        return [i for i in range(n) if lengths[i] > cutoff]
    if f == "truncate_count":
        return list(range(n))[: a["max_count"]]
    if f == "remove_duplicates":
        cl_thr, sol_thr = a["minimum_difference_connection_list"], a["minimum_difference_solution"]
        return [i for i in range(n) if not any(_close(parts[i][:2], parts[j][:2], cl_thr, sol_thr) for j in range(i + 1, n))]
    if f == "remove_duplicates_fast":
        seen, out = set(), []
        for i, p in enumerate(parts):
            k = (p[0].shape, p[0].tobytes(), p[1].shape, p[1].astype(np.int64).tobytes())
            if k not in seen:
                seen.add(k)
                out.append(i)
        return out
    if f in ("strip_generation_meta", "collect_generation_meta"):
        return list(range(n))
    raise ValueError(f)


def expected_entry(spec):
    if spec["f"] == "custom":
        return {"name": f"__custom__:{spec['fn']}", "args": (), "kwargs": dict(spec.get("kwargs", {}))}
    return {"name": spec["f"], "args": tuple(spec.get("args", [])), "kwargs": dict(spec.get("kwargs", {}))}


def norm_filters(lst):
    return [{"name": e.get("name"), "args": tuple(e.get("args", ())), "kwargs": dict(e.get("kwargs", {}))} for e in lst]


def call_filter(ds, spec):
    if spec["f"] == "custom":
        return ds.custom_maze_filter(CUSTOM[spec["fn"]], **spec.get("kwargs", {}))
    return getattr(ds.filter_by, spec["f"])(*spec.get("args", []), **spec.get("kwargs", {}))


def label(spec):
    return "custom_maze_filter" if spec["f"] == "custom" else spec["f"]


# ------------------------------------------------------------------------------ one application, fully checked
def apply_checked(res, ds, spec, inp, mutate_result):
    """apply one filter to `ds`; check selection/order, untouched input, independence, provenance, counts.
    returns (result or None, inplace_same_object: bool)"""
    name = label(spec)
    f = spec["f"]
    before = U.snapshot(ds)
    parts = U.arrays_of(ds)
    pre_filters = norm_filters(ds.cfg.applied_filters)
    had_args_key = all("args" in e for e in ds.cfg.applied_filters)
    pre_meta = [U.copy_meta(m.generation_meta) for m in ds.mazes]
    pre_collected = ds.generation_metadata_collected is not None
    have_meta = len(ds.mazes) > 0 and all(m is not None for m in pre_meta)
    a = bound_args(spec) if f != "custom" else {}
    inplace = f == "collect_generation_meta" and a.get("inplace", True)
    if f == "collect_generation_meta" and not pre_collected and not have_meta:
        return None, False  # nothing to collect: outside the filter's domain
    try:
        want = expected_indices(parts, spec)
    except Exception:  # noqa: BLE001  (e.g. percentile of nothing: the statement gives no rule; expect "nothing kept")
        want = []
    try:
        out = call_filter(ds, spec)
    except Exception as e:  # noqa: BLE001
        tb = traceback.format_exc(limit=3)[-500:]
        msg = f"{type(e).__name__}: {str(e)[:140]}"
        if not had_args_key and "applied filters" in str(e):
            _fail(res, "C08:sequence:after-custom_maze_filter", f"{name} raised {msg} on a dataset produced by custom_maze_filter (its provenance entry has no 'args')", inp, tb)
        elif f == "remove_duplicates_fast" and len(parts) > 0 and ((isinstance(e, ValueError) and "truth value" in str(e)) or (isinstance(e, TypeError) and "hash" in str(e))):
            _fail(res, "C08:remove_duplicates_fast:maze-eq", f"remove_duplicates_fast raised {msg} (depends on maze equality/hash, see C09)", inp, tb)
        elif len(parts) == 0:
            _fail(res, f"C08:{name}:raised:empty-input", f"{name} raised {msg} on an empty dataset (an earlier filter kept nothing)", inp, tb)
        else:
            _fail(res, f"C08:{name}:raised", f"{name} raised {msg}", inp, tb)
        # the input must be untouched even so
        d = U.snapshot_diff(before, U.snapshot(ds))
        if d:
            _fail(res, f"C08:input-mutated:{name}", f"{name} raised and left its input changed in {d}", inp, d)
        return None, False
    from maze_dataset.dataset.maze_dataset import MazeDataset

    if not isinstance(out, MazeDataset):
        _fail(res, f"C08:{name}:selection", f"{name} returned a {type(out).__name__}", inp, None)
        return None, False
    # --- selection and order
    want_keys = [(parts[i][0].shape, parts[i][0].tobytes(), parts[i][1].shape, parts[i][1].astype(np.int64).tobytes()) for i in want]
    got_keys = [U.maze_key(m) for m in out.mazes]
    if got_keys != want_keys:
        pos = {}
        for i, p in enumerate(parts):
            pos.setdefault((p[0].shape, p[0].tobytes(), p[1].shape, p[1].astype(np.int64).tobytes()), []).append(i)
        got_idx = [pos.get(k, ["?"]) for k in got_keys]
        _fail(res, f"C08:{name}:selection", f"{name}{spec.get('args', [])}{spec.get('kwargs', {})}: kept input positions {got_idx}, statement says {want} (of {len(parts)})", inp, [x[0] if len(x) == 1 else x for x in got_idx])
    else:
        for i, m in zip(want, out.mazes):
            if not (U.same_array(parts[i][2], m.start_pos) and U.same_array(parts[i][3], m.end_pos)):
                _fail(res, f"C08:{name}:selection", f"{name}: kept maze {i} has a different start/end", inp, None)
                break
    # --- the input dataset afterwards
    after = U.snapshot(ds)
    d = U.snapshot_diff(before, after)
    if inplace:
        bad = [x for x in d if x in ("len", "arrays")]
        if "cfg" in d:
            b, c = json.loads(before["cfg"]), json.loads(after["cfg"])
            e = expected_entry(spec)
            b["applied_filters"] = list(b["applied_filters"]) + [{"name": e["name"], "args": list(e["args"]), "kwargs": e["kwargs"]}]
            if json.loads(json.dumps(b)) != c:
                bad.append("cfg")
        if "meta" in d and not all(y == x or y == repr(None) for x, y in zip(before["meta"], after["meta"])):
            bad.append("meta")
        if bad:
            _fail(res, f"C08:input-mutated:{name}", f"in-place metadata collection changed more than the documented exception allows: {bad}", inp, bad)
    elif d:
        key = f"C08:input-mutated:{name}" + (":already-collected" if f == "collect_generation_meta" and pre_collected else "")
        _fail(res, key, f"{name}{spec.get('args', [])}{spec.get('kwargs', {})} changed its input dataset in {d}", inp, d)
    # --- provenance and count
    same_obj = out is ds
    got = out.cfg.applied_filters
    want_filters = pre_filters + [expected_entry(spec)]
    keys_ok = all(set(e) == {"name", "args", "kwargs"} for e in got[len(pre_filters):]) or f == "custom"
    if norm_filters(got) != want_filters or not keys_ok:
        _fail(res, f"C08:provenance:{name}", f"recorded filters {[(e.get('name'), e.get('args'), e.get('kwargs')) for e in got]} != input's + this call {[(e['name'], e['args'], e['kwargs']) for e in want_filters]}", inp, repr(got)[:300])
    if out.cfg.n_mazes != len(out.mazes) or len(out) != len(out.mazes):
        _fail(res, f"C08:n_mazes:{name}", f"result has {len(out.mazes)} mazes but cfg.n_mazes={out.cfg.n_mazes}", inp, out.cfg.n_mazes)
    # --- metadata filters
    if f == "strip_generation_meta":
        if any(m.generation_meta is not None for m in out.mazes):
            _fail(res, "C08:strip_generation_meta:meta", "per-maze metadata still present in the result", inp, None)
    if f == "collect_generation_meta":
        if not pre_collected:
            exp = U.norm_collected(U.recount(pre_meta), False)
            gotc = U.norm_collected(out.generation_metadata_collected, False)
            if gotc != exp:
                badk = sorted(k for k in set(exp) | set(gotc or {}) if (gotc or {}).get(k) != exp.get(k))
                _fail(res, "C08:collect_generation_meta:counts", f"collected value counts differ from a recount of the per-maze metadata in keys {badk}", inp, repr({k: (gotc or {}).get(k) for k in badk})[:300])
            cleared = [m.generation_meta is None for m in out.mazes]
            if a.get("clear_in_mazes", True) and not all(cleared):
                _fail(res, "C08:collect_generation_meta:clear", "clear_in_mazes=True left per-maze metadata in the result", inp, None)
            if not a.get("clear_in_mazes", True) and any(cleared):
                _fail(res, "C08:collect_generation_meta:clear", "clear_in_mazes=False removed per-maze metadata", inp, None)
        elif U.norm_collected(out.generation_metadata_collected, True) != U.norm_collected(ds.generation_metadata_collected, True):
            # compared in text form of the keys: a copied dataset goes through (JSON-like) serialization, whose object keys are strings
            _fail(res, "C08:collect_generation_meta:counts", "collecting again changed already collected metadata", inp, None)
    # --- independence of the result (each kind of sharing has its own key)
    if not inplace:
        sfx = ":already-collected" if f == "collect_generation_meta" and pre_collected else ""
        in_ids = {id(m) for m in ds.mazes}
        cl_shared = False
        if same_obj:
            _fail(res, f"C08:aliasing:{name}:result-is-input{sfx}", f"{name} returned its input object instead of a new dataset", inp, None)
        else:
            if out.cfg is ds.cfg:
                _fail(res, f"C08:aliasing:{name}:cfg-shared", f"{name}: result and input share one configuration object", inp, None)
            elif out.cfg.applied_filters is ds.cfg.applied_filters:
                _fail(res, f"C08:aliasing:{name}:cfg-shared", f"{name}: result and input share one applied_filters list", inp, None)
            if any(id(m) in in_ids for m in out.mazes):
                _fail(res, f"C08:aliasing:{name}:maze-objects-shared", f"{name}: the result holds the very maze objects of its input (no copy)", inp, None)
            else:
                cl_shared = any(np.shares_memory(m.connection_list, n.connection_list) for m in out.mazes for n in ds.mazes)
                if cl_shared:
                    _fail(res, "C08:aliasing:deepcopy-shares-connection_list", f"{name}: copied mazes share their connection_list memory with the input's mazes (writing into a result array changes the input)", inp, None)
                if any(np.shares_memory(m.solution, n.solution) or np.shares_memory(m.start_pos, n.start_pos) or np.shares_memory(m.end_pos, n.end_pos) for m in out.mazes for n in ds.mazes):
                    _fail(res, f"C08:aliasing:{name}:solution-memory-shared", f"{name}: copied mazes share solution/start/end memory with the input's mazes", inp, None)
                if mutate_result:
                    base = [after]

                    def stage(key, what):
                        now = U.snapshot(ds)
                        d2 = U.snapshot_diff(base[0], now)
                        base[0] = now
                        if d2:
                            _fail(res, key, f"{name}: {what} changed the input in {d2}", inp, d2)

                    for m in out.mazes:
                        if not cl_shared:
                            m.connection_list[...] = ~m.connection_list
                        m.solution[...] = m.solution + 1
                        m.start_pos[...] = m.start_pos + 1
                        m.end_pos[...] = m.end_pos + 1
                    stage(f"C08:aliasing:{name}:mutation-visible", "writing into the result's connection_list/solution/start/end arrays")
                    out.cfg.applied_filters.append({"name": "zzz", "args": (), "kwargs": {}})
                    if out.cfg.applied_filters and isinstance(out.cfg.applied_filters[0], dict):
                        out.cfg.applied_filters[0]["kwargs"]["zzz"] = 1
                    out.cfg.n_mazes = -5
                    out.cfg.name = "zzz"
                    stage(f"C08:aliasing:{name}:cfg-mutation-visible", "changing the result's cfg (applied_filters, n_mazes, name)")
                    # deeper sharing introduced by the copy itself (MazeDataset.__deepcopy__), one key per root cause
                    out.cfg.maze_ctor_kwargs["zzz"] = 1
                    out.cfg.endpoint_kwargs["zzz"] = True
                    stage("C08:aliasing:deepcopy-shares-cfg-kwargs", "inserting into the result's cfg.maze_ctor_kwargs / cfg.endpoint_kwargs dicts")
                    for m in out.mazes:
                        if isinstance(m.generation_meta, dict):
                            for v in m.generation_meta.values():
                                if isinstance(v, np.ndarray) and v.size:
                                    v[...] = 0
                                elif isinstance(v, set):
                                    v.add((99, 99))
                            m.generation_meta["func_name"] = "mutated"
                    stage("C08:aliasing:deepcopy-shares-generation_meta", "writing into the result's per-maze generation_meta containers")
                    if isinstance(out.generation_metadata_collected, dict):
                        for v in out.generation_metadata_collected.values():
                            if isinstance(v, dict):
                                v["zzz"] = 1
                        out.generation_metadata_collected["zzz"] = {1: 1}
                    stage("C08:aliasing:deepcopy-shares-collected-metadata", "writing into the result's generation_metadata_collected")
        if mutate_result:
            return None, False
    return out, same_obj


def run_steps(res, recipe, steps, count=True):
    """a dataset recipe and a sequence of 1..3 filter steps"""
    inp = {"recipe": recipe, "steps": steps}
    ds = U.build(recipe)
    if count:
        res.seen((json.dumps(recipe, sort_keys=True), json.dumps(steps, sort_keys=True)), nontrivial=len(ds) > 0, sample={"recipe": recipe, "steps": steps})
    history = [(ds, U.snapshot(ds))]
    cur = ds
    for k, spec in enumerate(steps):
        single = len(steps) == 1
        out, same = apply_checked(res, cur, spec, inp, mutate_result=single)
        if out is None:
            break
        # nothing that happened in this step may have touched any EARLIER dataset of the chain
        for j in range(len(history) - 1):
            d0, s0 = history[j]
            dd = U.snapshot_diff(s0, U.snapshot(d0))
            if dd:
                if any(st["f"] == "custom" for st in steps[:k]):
                    _fail(res, "C08:sequence:custom_maze_filter-input-disturbed-later", f"step {k} ({label(spec)}) changed dataset {j} of the chain in {dd}: an earlier custom_maze_filter result shares its maze objects with its input", inp, dd)
                else:
                    _fail(res, f"C08:input-mutated:{label(spec)}", f"step {k} ({label(spec)}) changed dataset {j} of the chain in {dd}", inp, dd)
                history[j] = (d0, U.snapshot(d0))
        # the step's own input was compared inside apply_checked; refresh (documented in-place exception)
        history[-1] = (cur, U.snapshot(cur))
        if not same:
            history.append((out, U.snapshot(out)))
        cur = out


# ------------------------------------------------------------------------------ config-driven application
def run_from_config(res, fc, count=True):
    from maze_dataset.dataset.maze_dataset import MazeDataset, MazeDatasetConfig
    from maze_dataset.generation.generators import GENERATORS_MAP

    inp = {"from_config": fc}
    steps = fc["steps"]
    filters = [dict(name=s["f"], args=tuple(s.get("args", [])), kwargs=dict(s.get("kwargs", {}))) for s in steps]
    base_kw = dict(name=fc.get("name", "fc"), grid_n=int(fc["grid_n"]), n_mazes=int(fc["n"]), maze_ctor=GENERATORS_MAP[fc["gen"]], maze_ctor_kwargs=dict(fc.get("kwargs") or U.gen_kwargs(fc["gen"], int(fc["grid_n"]))), seed=int(fc.get("seed", 42)))
    if count:
        res.seen(json.dumps(fc, sort_keys=True), nontrivial=len(steps) > 0, sample=fc)
    # by hand
    try:
        manual = MazeDataset.generate(MazeDatasetConfig(**base_kw))
    except (ValueError, AssertionError):
        return  # generation itself failed (isolated start cell in a percolation maze): not this property
    gen_keys = [U.maze_key(m) for m in manual.mazes]
    try:
        for s in steps:
            manual = call_filter(manual, s)
    except Exception as e:  # noqa: BLE001
        res.errors.append(f"manual application raised for {fc}: {type(e).__name__}: {e}")
        return
    cfg_f = MazeDatasetConfig(applied_filters=[dict(name=f["name"], args=f["args"], kwargs=dict(f["kwargs"])) for f in filters], **base_kw)
    cfg_before = U.cfg_text(cfg_f)
    try:
        got = MazeDataset.from_config(cfg_f, load_local=False, save_local=False, do_download=False)
    except Exception as e:  # noqa: BLE001
        _fail(res, "C08:from_config:raised", f"from_config with filters {[f['name'] for f in filters]} raised {type(e).__name__}: {str(e)[:200]}", inp, traceback.format_exc(limit=3)[-500:])
        return
    if U.cfg_text(cfg_f) != cfg_before:
        _fail(res, "C08:from_config:cfg-mutated", "from_config changed the configuration object it was given", inp, None)
    if [U.maze_key(m) for m in got.mazes] != [U.maze_key(m) for m in manual.mazes]:
        pos = {k: i for i, k in reversed(list(enumerate(gen_keys)))}
        _fail(res, "C08:from_config:mazes", f"from_config kept generated mazes {[pos.get(U.maze_key(m), '?') for m in got.mazes]}, by hand {[pos.get(U.maze_key(m), '?') for m in manual.mazes]}", inp, None)
    if norm_filters(got.cfg.applied_filters) != norm_filters(filters) or norm_filters(manual.cfg.applied_filters) != norm_filters(filters):
        _fail(res, "C08:from_config:filters", f"recorded filters {got.cfg.applied_filters} differ from the requested {filters}", inp, repr(got.cfg.applied_filters)[:300])
    if got.cfg.n_mazes != len(got.mazes):
        _fail(res, "C08:from_config:n_mazes", f"{len(got.mazes)} mazes but cfg.n_mazes={got.cfg.n_mazes}", inp, got.cfg.n_mazes)
    if not steps:
        return
    # the same request through the local cache: the first call generates, filters and saves; the second is served from the file.  Both must
    # give what applying the filters by hand gives (a cached dataset is already filtered: nothing may be applied to it a second time)
    import shutil
    import tempfile
    from pathlib import Path

    tmp = tempfile.mkdtemp(prefix="c08fc_", dir="/var/tmp")
    try:
        for rnd in ("first call (generates and saves)", "second call (cache file present)"):
            cfg_c = MazeDatasetConfig(applied_filters=[dict(name=f["name"], args=f["args"], kwargs=dict(f["kwargs"])) for f in filters], **base_kw)
            try:
                got2 = MazeDataset.from_config(cfg_c, load_local=True, save_local=True, do_download=False, local_base_path=Path(tmp))
            except Exception as e:  # noqa: BLE001
                _fail(res, "C08:from_config:cached-raised", f"from_config through the local cache, {rnd}, filters {[f['name'] for f in filters]}: raised {type(e).__name__}: {str(e)[:200]}", inp, traceback.format_exc(limit=3)[-500:])
                break
            if [U.maze_key(m) for m in got2.mazes] != [U.maze_key(m) for m in manual.mazes]:
                pos = {k: i for i, k in reversed(list(enumerate(gen_keys)))}
                _fail(res, "C08:from_config:cached-mazes", f"from_config through the local cache, {rnd}: kept generated mazes {[pos.get(U.maze_key(m), '?') for m in got2.mazes]}, by hand {[pos.get(U.maze_key(m), '?') for m in manual.mazes]}", inp, None)
                break
            if norm_filters(got2.cfg.applied_filters) != norm_filters(filters):
                _fail(res, "C08:from_config:cached-filters", f"from_config through the local cache, {rnd}: recorded filters {got2.cfg.applied_filters} differ from the requested {filters}", inp, repr(got2.cfg.applied_filters)[:300])
                break
    finally:
        shutil.rmtree(tmp, ignore_errors=True)


# ------------------------------------------------------------------------------ scope
def dataset_recipes(tier):
    r = [
        {"kind": "gen", "gen": "gen_dfs", "grid_n": 4, "n": 5, "seed": 101, "plant": [["dup", 4, 0], ["cl1", 2, 3], ["sol1", 1, -1]]},
        {"kind": "gen", "gen": "gen_wilson", "grid_n": 3, "n": 6, "seed": 102, "plant": [["dup", 0, -1], ["dup", 0, 3], ["sol2", 2, 0], ["cl2", 5, 2]]},
        {"kind": "hand", "name": "equal3", "grid_n": 3, "lengths": [3, 3, 3, 3, 3], "seed": 103, "plant": [["dup", 1, -1], ["sol1", 0, 2]]},
        {"kind": "hand", "name": "identical", "grid_n": 3, "lengths": [2], "seed": 104, "plant": [["dup", 0, -1], ["dup", 0, -1], ["dup", 0, -1]]},
        {"kind": "gen", "gen": "gen_percolation", "grid_n": 4, "n": 6, "seed": 105, "plant": [["cl1", 0, 1], ["cl2", 0, -1], ["sol1", 3, 3]]},
        {"kind": "gen", "gen": "gen_prim", "grid_n": 5, "n": 8, "seed": 106},
        {"kind": "gen", "gen": "gen_dfs_percolation", "grid_n": 3, "n": 7, "seed": 107, "plant": [["dup", 3, 3], ["dup", 6, 0]]},
        {"kind": "hand", "name": "len1", "grid_n": 2, "lengths": [1, 1, 1, 1], "seed": 108, "plant": [["dup", 2, 0]]},
        {"kind": "hand", "name": "single", "grid_n": 3, "lengths": [4], "seed": 109},
        {"kind": "gen", "gen": "gen_dfs", "grid_n": 2, "n": 10, "seed": 110},
        {"kind": "hand", "name": "mixed", "grid_n": 4, "lengths": [1, 2, 16, 2, 5, 1, 3], "seed": 111, "plant": [["sol1", 2, 0], ["sol2", 4, -1], ["cl1", 1, 4], ["dup", 0, -1]]},
    ]
    if tier == "thorough":
        extra = []
        for k, base in enumerate(r):
            for s in (1, 2):
                b = json.loads(json.dumps(base))
                b["seed"] = base["seed"] + 1000 * s
                extra.append(b)
        for gen in U.GENS:
            extra.append({"kind": "gen", "gen": gen, "grid_n": 6, "n": 12, "seed": 200, "plant": [["dup", 11, 0], ["dup", 5, 6], ["cl1", 3, -1], ["sol1", 7, 1]]})
        r += extra
    return r


def single_steps(n, lengths, dists):
    mx, mxd = (max(lengths) if lengths else 0), (max(dists) if dists else 0)
    med = int(sorted(lengths)[len(lengths) // 2]) if lengths else 1
    S = []
    for v in sorted({0, 1, 2, 3, med, mx, mx + 1}):
        S.append({"f": "path_length", "args": [v]})
    S.append({"f": "path_length", "kwargs": {"min_length": med}})
    for v in sorted({0, 1, 2, 3, mxd, mxd + 1}):
        S.append({"f": "start_end_distance", "args": [v]})
    S.append({"f": "start_end_distance", "kwargs": {"min_distance": 1}})
    S.append({"f": "cut_percentile_shortest"})
    for p in (0, 10.0, 25, 50.0, 75, 90.0, 100):
        S.append({"f": "cut_percentile_shortest", "args": [p]})
    S.append({"f": "cut_percentile_shortest", "kwargs": {"percentile": 33.3}})
    for c in sorted({0, 1, max(n - 1, 0), n, n + 1}):
        S.append({"f": "truncate_count", "args": [c]})
    S.append({"f": "truncate_count", "kwargs": {"max_count": 2}})
    S.append({"f": "remove_duplicates"})
    for cl, so in [(0, 0), (0, None), (None, 0), (None, None), (1, None), (None, 1), (2, 2), (0, 1), (1, 0), (2, None), (None, 2), (10 ** 6, None), (None, 10 ** 6)]:
        S.append({"f": "remove_duplicates", "args": [cl, so]})
    S.append({"f": "remove_duplicates", "kwargs": {"minimum_difference_connection_list": None, "minimum_difference_solution": 1}})
    S.append({"f": "remove_duplicates", "kwargs": {"minimum_difference_solution": None}})
    S.append({"f": "remove_duplicates_fast"})
    S.append({"f": "strip_generation_meta"})
    S.append({"f": "collect_generation_meta"})
    S.append({"f": "collect_generation_meta", "kwargs": {"inplace": False}})
    S.append({"f": "collect_generation_meta", "kwargs": {"clear_in_mazes": False}})
    S.append({"f": "collect_generation_meta", "kwargs": {"clear_in_mazes": False, "inplace": False}})
    S.append({"f": "custom", "fn": "sol_len_at_least", "kwargs": {"n": 2}})
    S.append({"f": "custom", "fn": "sol_len_at_least", "kwargs": {"n": mx + 1}})
    S.append({"f": "custom", "fn": "sol_len_at_least", "kwargs": {}})
    S.append({"f": "custom", "fn": "start_row_is", "kwargs": {"row": 0}})
    S.append({"f": "custom", "fn": "connections_at_least", "kwargs": {"k": 4}})
    return S


CHAIN_POOL = [
    {"f": "path_length", "args": [2]},
    {"f": "path_length", "kwargs": {"min_length": 3}},
    {"f": "start_end_distance", "args": [2]},
    {"f": "cut_percentile_shortest", "args": [25.0]},
    {"f": "cut_percentile_shortest"},
    {"f": "truncate_count", "args": [3]},
    {"f": "truncate_count", "kwargs": {"max_count": 0}},
    {"f": "remove_duplicates"},
    {"f": "remove_duplicates", "args": [0, None]},
    {"f": "remove_duplicates_fast"},
    {"f": "strip_generation_meta"},
    {"f": "collect_generation_meta"},
    {"f": "collect_generation_meta", "kwargs": {"inplace": False}},
    {"f": "custom", "fn": "sol_len_at_least", "kwargs": {"n": 2}},
]

FC_LISTS = [
    [],
    [{"f": "path_length", "args": [3]}],
    [{"f": "path_length", "kwargs": {"min_length": 2}}, {"f": "truncate_count", "kwargs": {"max_count": 3}}],
    [{"f": "cut_percentile_shortest", "args": [30.0]}, {"f": "remove_duplicates", "kwargs": {"minimum_difference_connection_list": 0, "minimum_difference_solution": None}}],
    [{"f": "start_end_distance", "args": [2]}, {"f": "collect_generation_meta"}, {"f": "truncate_count", "args": [2]}],
    [{"f": "strip_generation_meta"}, {"f": "path_length", "args": [2]}],
    [{"f": "truncate_count", "args": [0]}],
    [{"f": "truncate_count", "args": [5]}, {"f": "cut_percentile_shortest"}, {"f": "path_length", "kwargs": {"min_length": 1}}],
]


def run(tier, seed):
    warnings.simplefilter("ignore")
    rng = np.random.default_rng(seed)
    res = BoundedResult(
        "C08.single-filter",
        rule="11 datasets" + (" x 3 seeds + 5 larger" if tier == "thorough" else "") + " (all five generators and hand-made lists) with planted exact duplicates at first/middle/last "
        "position, near duplicates differing in one or two connection bits / one or two solution entries, all-equal solution lengths, all length-1 solutions, a single maze, "
        "an all-identical dataset; EVERY built-in filter with boundary parameters (path_length 0..max+1, start_end_distance 0..max+1, cut_percentile_shortest 0..100 and default, "
        "truncate_count 0..len+1, remove_duplicates over 16 threshold pairs incl. None, remove_duplicates_fast, strip_generation_meta, collect_generation_meta in 4 modes, "
        "custom_maze_filter with 3 predicates), positional and keyword call styles; per application: kept mazes == statement oracle in original order (identified by array bytes), "
        "input snapshot (array bytes, len, cfg.serialize(), metadata) unchanged, result shares no object/array memory with the input and mutating it in place leaves the input "
        "unchanged, applied_filters == input's + [this call], n_mazes == len, exact metadata value counts; distinct by (recipe, step); non-trivial = non-empty input",
        exhaustive=False,
        functions=["register_maze_filter", "register_dataset_filter", "MazeDatasetFilters.path_length", "MazeDatasetFilters.start_end_distance", "MazeDatasetFilters.cut_percentile_shortest", "MazeDatasetFilters.truncate_count", "MazeDatasetFilters.remove_duplicates", "MazeDatasetFilters.remove_duplicates_fast", "MazeDatasetFilters.strip_generation_meta", "MazeDatasetFilters.collect_generation_meta", "MazeDataset.custom_maze_filter", "MazeDataset.update_self_config", "MazeDataset.__deepcopy__"],
    )
    res2 = BoundedResult(
        "C08.filter-sequences",
        rule="sequences of 2 and 3 filter applications from a pool of 14 parametrised filters (" + ("all ordered pairs and 150 seeded triples" if tier == "thorough" else "70 seeded ordered pairs and 40 seeded triples")
        + " per dataset, " + ("16" if tier == "thorough" else "5") + " datasets); every step checked like a single application against the previous result, provenance accumulates in application order, "
        "and after every step all EARLIER datasets of the chain are re-snapshotted and must be unchanged (in-place metadata collection excepted)",
        exhaustive=False,
        functions=["register_maze_filter", "register_dataset_filter"],
    )
    res3 = BoundedResult(
        "C08.from-config",
        rule="(also: the same request twice through a local cache directory - generated-and-saved, then served from the file) MazeDataset.from_config(cfg with applied_filters, load_local=False, save_local=False, do_download=False) vs MazeDataset.generate(cfg without filters) followed by the same "
        "filters by hand: 5 generators x grid_n {3,4} x 8 filter lists (0..3 entries, args and kwargs styles, incl. metadata filters and an empty result); same mazes in the same order, "
        "recorded filters == requested, n_mazes == len, the given cfg object unchanged",
        exhaustive=False,
        functions=["GPTDataset.from_config", "GPTDataset._apply_filters_from_config", "_check_filter_equality"],
    )
    recipes = dataset_recipes(tier)
    t0 = time.time()
    try:
        for recipe in recipes:
            ds = U.build(recipe)
            parts = U.arrays_of(ds)
            lengths = [len(p[1]) for p in parts]
            dists = [abs(int(p[2][0]) - int(p[3][0])) + abs(int(p[2][1]) - int(p[3][1])) for p in parts]
            for spec in single_steps(len(parts), lengths, dists):
                try:
                    run_steps(res, recipe, [spec])
                except Exception as e:  # noqa: BLE001
                    res.errors.append(f"{recipe} {spec}: {type(e).__name__}: {e}\n{traceback.format_exc(limit=5)}")
                    if len(res.errors) > 5:
                        raise
            # the same filters on a dataset whose metadata is already collected (collect returns its input then)
            rc = dict(recipe, meta="collected")
            for spec in [{"f": "collect_generation_meta"}, {"f": "collect_generation_meta", "kwargs": {"inplace": False}}, {"f": "remove_duplicates"}, {"f": "path_length", "args": [2]}, {"f": "truncate_count", "args": [2]}, {"f": "strip_generation_meta"}]:
                run_steps(res, rc, [spec])
    except Exception as e:  # noqa: BLE001
        res.errors.append(f"{type(e).__name__}: {e}\n{traceback.format_exc(limit=5)}")
    res.seconds = time.time() - t0
    t1 = time.time()
    try:
        chain_recipes = (recipes[:11] + recipes[-5:]) if tier == "thorough" else [recipes[i] for i in (0, 1, 2, 4, 10)]
        pairs = list(itertools.product(range(len(CHAIN_POOL)), repeat=2))
        triples = list(itertools.product(range(len(CHAIN_POOL)), repeat=3))
        for recipe in chain_recipes:
            if tier == "thorough":
                sel2 = pairs
                sel3 = [triples[int(i)] for i in rng.choice(len(triples), size=150, replace=False)]
            else:
                sel2 = [pairs[int(i)] for i in rng.choice(len(pairs), size=70, replace=False)]
                sel3 = [triples[int(i)] for i in rng.choice(len(triples), size=40, replace=False)]
            for idxs in list(sel2) + list(sel3):
                steps = [CHAIN_POOL[i] for i in idxs]
                try:
                    run_steps(res2, recipe, steps)
                except Exception as e:  # noqa: BLE001
                    res2.errors.append(f"{recipe} {steps}: {type(e).__name__}: {e}\n{traceback.format_exc(limit=5)}")
                    if len(res2.errors) > 5:
                        raise
    except Exception as e:  # noqa: BLE001
        res2.errors.append(f"{type(e).__name__}: {e}\n{traceback.format_exc(limit=5)}")
    res2.seconds = time.time() - t1
    t2 = time.time()
    try:
        for gen in U.GENS:
            for g in (3, 4):
                for li, steps in enumerate(FC_LISTS):
                    fc = {"gen": gen, "grid_n": g, "n": 8, "seed": 42 + li if tier == "quick" else 42 + li + int(seed), "steps": steps, "name": f"fc-{gen}"}
                    try:
                        run_from_config(res3, fc)
                    except Exception as e:  # noqa: BLE001
                        res3.errors.append(f"{fc}: {type(e).__name__}: {e}\n{traceback.format_exc(limit=5)}")
    except Exception as e:  # noqa: BLE001
        res3.errors.append(f"{type(e).__name__}: {e}\n{traceback.format_exc(limit=5)}")
    res3.seconds = time.time() - t2
    return [res, res2, res3]


def replay(check, inp):
    """re-run one recorded input; True iff it now passes"""
    warnings.simplefilter("ignore")
    res = BoundedResult("replay", "replay")
    if "from_config" in inp:
        run_from_config(res, inp["from_config"], count=False)
    else:
        run_steps(res, inp["recipe"], inp["steps"], count=False)
    want = inp.get("failed_key") if isinstance(inp, dict) else None
    mine = [f for f in res.failures if want is None or f["key"] == want]
    for f in mine:
        print("  still failing:", f["key"], f["what"])
    for f in res.failures:
        if f not in mine:
            print("  (another check fails on this input:", f["key"] + ")")
    for e in res.errors:
        print("  replay error:", e)
    return not mine and not res.errors
