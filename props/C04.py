"""C04 - serial dataset generation is a pure function of the configuration."""
ID = "C04"
LEVEL = "other"
LEVEL_TEXT = (
    "A two-run (hyper)property: decided by three pieces, none of which alone is a proof of the statement. (1) PROVED (z3): constructing / loading a configuration seeds the global random sources with the "
    "configuration's own seed (GPTDatasetConfig.__post_init__: exactly one set_reproducibility(self.seed), the seed kept unless it was None), and the serial branch of _maze_gen_init_worker reseeds nothing "
    "(np.random.seed is called exactly when the process has a worker identity). (2) EFFECT INVENTORY (static, exhaustive over the call sites of the real AST of generation/generators.py and of the "
    "solver / endpoint-selection / item-construction functions it feeds): every call is classified; only the global seeded streams random.* / np.random.* may be drawn from - a private generator object "
    "(default_rng / RandomState / Random), a clock, a process id, os.urandom, uuid, id() or hash() on that path is a failed frame obligation. (3) BOUNDED two-run experiments: "
    + 'Bounded two-run experiments: generate twice in one process under perturbed global RNG histories (python, numpy, torch, other generations, other config constructions) and in subprocesses with different PYTHONHASHSEED, compare bytes; from_config without cache against generate + filters by hand; the passed configuration is compared before/after. A hyperproperty over histories is not expressible as a single-run contract; the contract-side argument (only seeded global streams are read between seeding and return) is documented in DESIGN.md, not machine-checked.'
)
LEVEL_NOTE = ("Trusted: muutils set_reproducibility seeds python/numpy/torch; the effect inventory resolves calls by name (dynamic dispatch is not followed: the generator is looked up in GENERATORS_MAP, all of "
              "whose members live in the scanned file); iteration order of sets of int tuples does not depend on PYTHONHASHSEED (bounded check with 3 hash seeds).")
TECHNIQUE = "contracts on the seeding functions discharged by z3 + static effect inventory over the generation path (frame obligations on the real AST) + bounded two-run experiments (level other: no single piece proves the hyperproperty)"
CONTRACT_MODULES = ["contracts.configs"]
PROVE = [("maze_dataset/dataset/dataset.py", "GPTDatasetConfig.__post_init__"), ("maze_dataset/dataset/maze_dataset.py", "_maze_gen_init_worker")]
ASSUMPTIONS = []
EXPLANATION = ("serial generation = load a copy of the configuration (which reseeds, proved) -> draw only from the seeded global streams (effect inventory) -> no reseeding in between (proved); "
               "the two-run experiments check the conclusion itself on an enumerated scope")


def run(run):
    import time

    from props._std import run_bounded
    from vlib.effects import inventory
    from vlib.runner import BoundedResult

    run.prove(PROVE)
    t0 = time.time()
    b = BoundedResult("C04.effect-inventory", "static: every call site in generation/generators.py and in the solver / endpoint-selection / item-construction functions, classified by the effect table "
                      "(vlib/effects.py); distinct = call sites; a draw from anything but the global seeded streams is a violation", exhaustive=True, functions=["(all functions of the generation path)"])
    try:
        sites, bad = inventory(run.repo.root)
        b.evaluations = sites
        b.distinct = set(range(sites))
        b.samples = [{"call_sites_examined": sites}]
        for v in bad:
            b.fail("C04:effects:" + v["site"].split(" in ")[-1], f"{v['site']}: {v['what']}", v, None)
    except Exception as e:  # noqa: BLE001
        b.errors.append(f"{type(e).__name__}: {e}")
    b.seconds = time.time() - t0
    run.bounded.append(b)
    run_bounded(run, "C04")
