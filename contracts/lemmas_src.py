"""Compositions of repository functions whose properties follow from the callees' CONTRACTS alone (property lemmas).
These are not models of repository code: each body only calls real repository functions, and the verifier replaces every
call by the callee's contract (which is itself proved against the real body)."""
from maze_dataset.maze.lattice_maze import LatticeMaze


def bw_roundtrip(m):
    "reading the black/white image of a maze back"
    return LatticeMaze._from_pixel_grid_bw(m._as_pixels_bw())[0]


from maze_dataset.dataset.maze_dataset import MazeDataset


def minimal_roundtrip(ds):
    "loading the minimal serialization of a dataset back (in memory)"
    return MazeDataset._load_minimal(ds._serialize_minimal())


def soln_cat_roundtrip(ds):
    "loading the concatenated-solutions minimal serialization of a dataset back (in memory)"
    d = ds._serialize_minimal_soln_cat()
    return MazeDataset._load_minimal_soln_cat(d)


# ---------------------------------------------------------------------------- C03: one generated item (what _generate_maze_helper composes)
from maze_dataset.generation.generators import LatticeMazeGenerators


def item_dfs(grid_shape, accessible_cells, max_tree_depth, do_forks, randomized_stack, start_coord, allowed_start, allowed_end, deadend_start, deadend_end, endpoints_not_equal):
    maze = LatticeMazeGenerators.gen_dfs(grid_shape, 2, accessible_cells, max_tree_depth, do_forks, randomized_stack, start_coord)
    return maze, maze.generate_random_path(True, allowed_start, allowed_end, deadend_start, deadend_end, endpoints_not_equal)


def item_wilson(grid_shape, allowed_start, allowed_end, deadend_start, deadend_end, endpoints_not_equal):
    maze = LatticeMazeGenerators.gen_wilson(grid_shape)
    return maze, maze.generate_random_path(True, allowed_start, allowed_end, deadend_start, deadend_end, endpoints_not_equal)


# ---------------------------------------------------------------------------- C14: the token-id codec is invertible
from maze_dataset.tokenization.maze_tokenizer import MazeTokenizerModular


def modular_decode_encode(text):
    "tokens -> ids -> tokens"
    return MazeTokenizerModular.decode(MazeTokenizerModular.encode(text))


def modular_encode_decode(token_ids):
    "ids -> tokens -> ids"
    return MazeTokenizerModular.encode(MazeTokenizerModular.decode(token_ids))


def item_prim(grid_shape, accessible_cells, max_tree_depth, do_forks, start_coord, allowed_start, allowed_end, deadend_start, deadend_end, endpoints_not_equal):
    maze = LatticeMazeGenerators.gen_prim(grid_shape, 2, accessible_cells, max_tree_depth, do_forks, start_coord)
    return maze, maze.generate_random_path(True, allowed_start, allowed_end, deadend_start, deadend_end, endpoints_not_equal)


def item_percolation(grid_shape, p, start_coord, allowed_start, allowed_end, deadend_start, deadend_end, endpoints_not_equal):
    maze = LatticeMazeGenerators.gen_percolation(grid_shape, p, 2, start_coord)
    return maze, maze.generate_random_path(True, allowed_start, allowed_end, deadend_start, deadend_end, endpoints_not_equal)


def item_dfs_percolation(grid_shape, p, accessible_cells, max_tree_depth, start_coord, allowed_start, allowed_end, deadend_start, deadend_end, endpoints_not_equal):
    maze = LatticeMazeGenerators.gen_dfs_percolation(grid_shape, p, 2, accessible_cells, max_tree_depth, start_coord)
    return maze, maze.generate_random_path(True, allowed_start, allowed_end, deadend_start, deadend_end, endpoints_not_equal)


def hash_consistent(a, b):
    "C09: equal mazes have equal hashes (python's `a == b` is type(a).__eq__(a, b); hash(a) is type(a).__hash__(a))"
    if a.__eq__(b):
        return a.__hash__() == b.__hash__()
    return True


from maze_dataset.constants import VOCAB  # noqa: E402,F401  (named by the clauses of the lemma's contract)


def prompt_layout(seq, adj_list, origin, target, path, is_untargeted, is_unsolved):
    "C06: the token sequence of a maze = the full region layout, trimmed to the regions the maze kind has"
    return seq._trim_if_unsolved_maze(seq._sequence_tokens(adj_list, origin, target, path), is_untargeted, is_unsolved)


def prompt_layout_aop(seq, adj_list, origin, target, path, is_untargeted, is_unsolved):
    "the same composition for the AOP sequencer"
    return seq._trim_if_unsolved_maze(seq._sequence_tokens(adj_list, origin, target, path), is_untargeted, is_unsolved)


from maze_dataset.token_utils import get_adj_list_tokens, get_origin_tokens, get_path_tokens, get_target_tokens  # noqa: E402


def regions_roundtrip(seq, adj_list, origin, target, path):
    "C06/C07: the region extractors of token_utils recover from a full AOTP sequence exactly the four region token lists it was built from"
    toks = seq._sequence_tokens(adj_list, origin, target, path)
    return get_adj_list_tokens(toks), get_origin_tokens(toks), get_target_tokens(toks), get_path_tokens(toks, True)


def adj_list_roundtrip(m, shuffle_d0, shuffle_d1):
    "C13: rebuilding a maze from its own adjacency list"
    return LatticeMaze.from_adj_list(m.as_adj_list(shuffle_d0, shuffle_d1))


from maze_dataset.token_utils import _coord_to_strings_UT, _coord_to_strings_indexed  # noqa: E402


def coord_tokens_agree(ut, ctt, coord):
    "C07: a legacy tokenizer and its modular equivalent write a cell with the same tokens (ut = CoordTokenizers.UT(), ctt = CoordTokenizers.CTT() with its defaults)"
    return _coord_to_strings_UT(coord), ut.to_tokens(coord), _coord_to_strings_indexed(coord), ctt.to_tokens(coord)
