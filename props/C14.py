"""C14 - token vocabularies and token-id codecs are fixed, duplicate-free, invertible."""
ID = "C14"
LEVEL = "exploration"
LEVEL_TEXT = 'Complete evaluation over the finite domain (labelled bounded, exhaustive=true): all 4096 positions against the published layout restated independently, encode/decode on every token, unknown tokens and out-of-range ids, all legacy modes x max_grid_size 1..50, corner-first ordering permutation and prefix property for all n<m<=50.'
LEVEL_NOTE = 'Trusted: nothing beyond CPython.'
TECHNIQUE = "bounded stand-in of the contract-based verifier: run-time checking of the real code against an independent executable statement over an enumerated scope (no function of this property is in the verified subset yet)"
CONTRACT_MODULES = []
PROVE = []
ASSUMPTIONS = []
EXPLANATION = "see DESIGN.md C14"


def run(run):
    from props._std import run_bounded

    if PROVE:
        run.prove(PROVE)
    run_bounded(run, "C14")
