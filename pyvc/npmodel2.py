"""Library models, part 2: indexing, attributes, iteration, comprehensions."""
from __future__ import annotations

import ast
import itertools

import z3

from . import values as V
from .values import (
    Arr,
    CDict,
    CSet,
    GList,
    Grid,
    Outside,
    Rec,
    SymList,
    as_int,
    b_and,
    b_implies,
    b_not,
    b_or,
    is_scalar,
    is_sym,
    ite,
    merge,
    to_z3,
)


def _M():
    from . import npmodel

    return npmodel


def _I():
    from . import interp

    return interp


# ----------------------------------------------------------------------------- getitem
def _oblige_index(interp, st, ok, node, what="index"):
    if ok is True or interp.ctx.options.get("spec_mode"):
        return
    exc = "KeyError" if what == "key" else "IndexError"
    I = _I()
    catching = any(any(I.exc_is_subclass(exc, h) for h in hs) for hs in getattr(interp.ctx, "try_handlers", []))
    if catching and interp.ctx.inline_depth == 0:
        # inside a `try` whose handler catches this lookup error: the failing lookup is a path into the handler, not an obligation
        binders = list(getattr(st, "binders", []))
        if binders:
            est = st.copy()
            est.excs = []
            est.pc.extend(to_z3(g) for g in st.guards)
            est.pc.append(to_z3(b_not(ok)))
            est.guards = []
            est.binders = []
            est.trace.append(f"raises:{exc}@{getattr(node, 'lineno', '?')}")
            if interp.ctx.feasible(est):
                st.excs.append((exc, est))
            g = z3.And(*[to_z3(x) for x in st.guards]) if st.guards else z3.BoolVal(True)
            st.pc.append(z3.ForAll(binders, z3.Implies(g, to_z3(ok))))
        else:
            interp.raise_if(st, b_not(ok), exc, node)
        return
    interp.ctx.oblige(st, ok, f"no-{exc}@{getattr(node, 'lineno', '?')}:{getattr(node, 'col_offset', '?')}", node, "index")
    st.assume(ok)


def getitem(interp, st, base, idx, node=None):
    M = _M()
    I = _I()
    if type(base).__name__ == "RecDictView":
        if isinstance(idx, str) and idx in base.rec.fields:
            return base.rec.fields[idx]
        if isinstance(idx, str):
            # an attribute stored by an earlier call: an unknown object
            return z3.Const(V.fresh_name(f"attr_{idx}"), I.OBJ_SORT)
        raise Outside("obj.__dict__[...] with a non-constant name", node)
    if isinstance(base, I.ObjMethod):
        base = base.value
    if I.is_obj(base):
        # subscript of an opaque object: an unknown function of the object and the key
        key = z3.StringVal(idx) if isinstance(idx, str) else to_z3(idx)
        return z3.Function("obj.getitem!" + str(key.sort()), I.OBJ_SORT, key.sort(), I.OBJ_SORT)(base, key)
    if isinstance(base, Rec) and "__getitem__" in base.fields.get("__methods__", ()):  # pragma: no cover
        raise Outside("__getitem__ on record", node)
    if isinstance(base, tuple) or isinstance(base, list):
        if isinstance(idx, slice) and isinstance(base, list) and base and idx.step == -1 and idx.start is None and idx.stop is None:
            return base[::-1]
        if isinstance(idx, slice):
            if any(is_sym(x) for x in (idx.start, idx.stop, idx.step) if x is not None):
                if isinstance(base, list):
                    sl = SymList.from_pylist("lst", base) if base else None
                    if sl is None:
                        raise Outside("symbolic slice of empty list", node)
                    return getitem(interp, st, sl, idx, node)
                raise Outside("symbolic slice of tuple", node)
            return base[idx]
        if is_sym(idx):
            if not base:
                raise Outside("symbolic index into empty sequence", node)
            j, ok = M.norm_index(idx, len(base))
            _oblige_index(interp, st, ok, node)
            out = base[-1]
            for k in range(len(base) - 2, -1, -1):
                out = merge(j == k, base[k], out)
            return out
        if isinstance(idx, bool) or not isinstance(idx, int):
            raise Outside(f"sequence index of type {type(idx).__name__}", node)
        if not (-len(base) <= idx < len(base)):
            _oblige_index(interp, st, False, node)
            raise Outside("constant index out of range (path infeasible or IndexError)", node)
        return base[idx]
    if isinstance(base, dict):
        if isinstance(idx, (str, int)) or (isinstance(idx, tuple) and not any(is_sym(x) for x in idx)):
            if idx not in base:
                _oblige_index(interp, st, False, node, "key")
                raise Outside(f"missing key {idx!r} (KeyError)", node)
            return base[idx]
        # symbolic tuple key against concrete keys
        keys = list(base)
        conds = [M.tuple_eq((idx,), (k,)) for k in keys]
        _oblige_index(interp, st, b_or(*conds), node, "key")
        out = base[keys[-1]]
        for k in range(len(keys) - 2, -1, -1):
            out = merge(conds[k], base[keys[k]], out) if conds[k] is not True else base[keys[k]]
        return out
    if isinstance(base, str):
        if isinstance(idx, (int, slice)):
            return base[idx]
        raise Outside("symbolic index into string", node)
    if isinstance(base, Arr):
        return arr_getitem(interp, st, base, idx, node)
    if isinstance(base, Grid):
        return grid_getitem(interp, st, base, idx, node)
    if isinstance(base, SymList):
        if isinstance(idx, slice):
            return symlist_slice(interp, st, base, idx, node)
        j, ok = M.norm_index(idx, base.length)
        _oblige_index(interp, st, ok, node)
        return base.get(j)
    if isinstance(base, GList):
        if isinstance(idx, slice):
            raise Outside("slice of guarded list", node)
        n = base.length()
        j, ok = M.norm_index(idx, n)
        _oblige_index(interp, st, ok, node)
        return base.get(j)
    if isinstance(base, V.SDict):
        key = idx if is_sym(idx) else (z3.StringVal(idx) if isinstance(idx, str) else None)
        if key is None or key.sort() != z3.StringSort():
            raise Outside("string-keyed dict indexed by a non-string", node)
        _oblige_index(interp, st, base.has(key), node, what="key")
        return base.get(key)
    if isinstance(base, CDict):
        key = M.as_key(idx, node)
        _oblige_index(interp, st, base.has(key), node, "key")
        return base.get(key)
    if isinstance(base, M.RowsShape):
        n = M.rows_len(interp, st, base.rows, node)
        if idx == 0:
            return n
        if idx == 1:
            _oblige_index(interp, st, M.s_cmp(ast.Gt(), n, 0), node)
            return base.rows.width
        raise Outside("index into shape of rows array", node)
    if isinstance(base, M.Rows):
        if isinstance(idx, tuple) and isinstance(base.src, SymList):
            # a multi-dimensional index needs the 2-d shape (n, width), which the array has only when it is not empty (with no rows numpy made a
            # 1-d empty array and raises IndexError: too many indices): an obligation, then the (n, width) grid is indexed
            n = M.rows_len(interp, st, base, node)
            _oblige_index(interp, st, M.s_cmp(ast.Gt(), n, 0), node)
            elem = base.src.get(z3.Int(V.fresh_name("rk")))
            a = elem if isinstance(elem, Arr) else Arr.from_nested(list(elem))
            kq = z3.Int(V.fresh_name("rq"))
            ek = base.src.get(kq)
            ak = ek if isinstance(ek, Arr) else Arr.from_nested(list(ek))

            def fn(ix):
                row = [z3.substitute(to_z3(v), (kq, ix[0])) for v in ak.flat]
                out = row[-1]
                for c in range(len(row) - 2, -1, -1):
                    out = z3.If(ix[1] == c, row[c], out)
                return out

            g = M.grid_lambda([n, base.width], a.kind, fn)
            return grid_getitem(interp, st, g, idx, node)
        if isinstance(idx, tuple) or isinstance(idx, slice):
            raise Outside("multi-dimensional index into rows array", node)
        v = getitem(interp, st, base.src, idx, node)
        return v if isinstance(v, Arr) else Arr.from_nested(list(v))
    if isinstance(base, Rec):
        f = interp.lib.find_method(interp, base.cls, "__getitem__", st)
        if f is not None:
            return interp.lib.call_function(interp, st, f, [base, idx], {}, node)
    raise Outside(f"subscript of {type(base).__name__}", node)


def arr_getitem(interp, st, a: Arr, idx, node):
    M = _M()
    if isinstance(idx, Arr) and idx.kind == "bool" and idx.ndim == 1 and a.ndim >= 1 and idx.shape[0] == a.shape[0]:
        # boolean row mask: the rows whose mask bit holds, in order
        items = [(g, r) for g, r in zip(idx.flat, a.rows() if a.ndim > 1 else a.flat)]
        if a.ndim == 2:
            return M.Rows(GList(items), a.shape[1])
        return GList(items)
    if not isinstance(idx, tuple):
        idx = (idx,)
    if any(x is Ellipsis for x in idx):
        k = idx.index(Ellipsis)
        fill = a.ndim - (len(idx) - 1)
        idx = idx[:k] + (slice(None),) * fill + idx[k + 1 :]
    if len(idx) > a.ndim:
        _oblige_index(interp, st, False, node)
        raise Outside("too many indices", node)
    idx = idx + (slice(None),) * (a.ndim - len(idx))

    # per-dim selection lists: either ('i', scalar) or ('s', [positions])
    def rec(sub, k):
        if k == len(idx):
            return sub
        ix = idx[k]
        n = a.shape[k]
        if isinstance(ix, slice):
            if any(is_sym(x) for x in (ix.start, ix.stop, ix.step) if x is not None):
                raise Outside("symbolic slice of constant-shape array", node)
            pos = list(range(n))[ix]
            parts = [rec(_sub(sub, p), k + 1) for p in pos]
            return ("stack", parts)
        if isinstance(ix, Arr):
            raise Outside("fancy indexing of constant-shape array", node)
        if is_sym(ix):
            j, ok = M.norm_index(ix, n)
            _oblige_index(interp, st, ok, node)
            parts = [rec(_sub(sub, p), k + 1) for p in range(n)]
            out = parts[-1]
            for p in range(n - 2, -1, -1):
                out = _merge_tree(j == p, parts[p], out)
            return out
        if isinstance(ix, bool) or not isinstance(ix, int):
            raise Outside(f"array index of type {type(ix).__name__}", node)
        if not (-n <= ix < n):
            _oblige_index(interp, st, False, node)
            raise Outside("constant index out of range", node)
        return rec(_sub(sub, ix % n if n else 0), k + 1)

    def _sub(sub, p):
        return sub.sub(p) if isinstance(sub, Arr) else sub

    def _merge_tree(c, x, y):
        if isinstance(x, tuple) and x and x[0] == "stack":
            return ("stack", [_merge_tree(c, p, q) for p, q in zip(x[1], y[1])])
        return merge(c, x, y)

    def build(t):
        if isinstance(t, tuple) and t and t[0] == "stack":
            parts = [build(p) for p in t[1]]
            if not parts:
                return Arr((0,), [], a.kind)
            return Arr.from_nested(parts) if not all(is_scalar(p) for p in parts) else Arr((len(parts),), parts, a.kind)
        return t

    out = build(rec(a, 0))
    if isinstance(out, Arr) and out.kind != a.kind:
        out.kind = a.kind
    return out


def grid_getitem(interp, st, g: Grid, idx, node):
    M = _M()
    if not isinstance(idx, tuple):
        idx = (idx,)
    if any(x is Ellipsis for x in idx):
        k = idx.index(Ellipsis)
        fill = g.rank - (len(idx) - 1)
        idx = idx[:k] + (slice(None),) * fill + idx[k + 1 :]
    if len(idx) > g.rank:
        raise Outside("too many indices for grid", node)
    # boolean mask / fancy indexing
    if any(isinstance(x, (Grid, Arr)) for x in idx):
        return grid_fancy_get(interp, st, g, idx, node)
    idx = idx + (slice(None),) * (g.rank - len(idx))
    fixed = []  # per source dim: ('i', j) or ('s', SliceSpec)
    out_dims = []
    for k, ix in enumerate(idx):
        n = g.dims[k]
        if isinstance(ix, slice):
            sp = M.norm_slice(ix, n)
            fixed.append(("s", sp))
            out_dims.append(sp.length)
        else:
            j, ok = M.norm_index(ix, n)
            _oblige_index(interp, st, ok, node)
            fixed.append(("i", j))
    if not out_dims:
        return g.select([f[1] for f in fixed])
    # pure prefix indexing with full trailing slices -> partial select (no lambda needed)
    trailing_full = all(
        f[0] == "i" or _is_full(f[1], g.dims[k]) for k, f in enumerate(fixed)
    ) and all(f[0] == "i" for f in fixed[: len([f for f in fixed if f[0] == "i"])])
    if trailing_full:
        t = g.arr
        for f in fixed:
            if f[0] == "i":
                t = z3.Select(t, to_z3(f[1]))
        res = Grid(out_dims, t, g.kind, None, g.dtype)
        return M.grid_to_arr_if_const(res)

    def fn(vars_):
        src = []
        it = iter(vars_)
        for f in fixed:
            if f[0] == "i":
                src.append(f[1])
            else:
                v = next(it)
                sp = f[1]
                src.append(M.s_add(sp.lo, M.s_mul(sp.step, v)))
        return g.select(src)

    res = M.grid_lambda(out_dims, g.kind, fn, g.dtype)
    return M.grid_to_arr_if_const(res)


def _is_full(sp, n):
    return (not is_sym(sp.lo)) and sp.lo == 0 and sp.step == 1 and (sp.hi is n or (not is_sym(sp.hi) and not is_sym(n) and sp.hi == n))


def grid_fancy_get(interp, st, g, idx, node):
    """a[i0, i1, ...] with one integer index array per dimension (all 1-d, same length): out[k] = a[i0[k], i1[k], ...]"""
    M = _M()
    if isinstance(idx[0], Arr) and idx[0].ndim == 1 and idx[0].kind != "bool" and all(isinstance(x, slice) and x == slice(None) for x in idx[1:]):
        # a[[i0, i1, ...]] with a constant number of row indices: the rows a[i0], a[i1], ... stacked
        rows = [grid_getitem(interp, st, g, e, node) for e in idx[0].flat]
        if all(isinstance(r, Arr) for r in rows):
            return Arr.from_nested([r if r.ndim else r.flat[0] for r in rows]) if rows[0].ndim == 0 else Arr((len(rows),) + rows[0].shape, [x for r in rows for x in r.flat], rows[0].kind)
        return rows
    if len(idx) != g.rank or not all(isinstance(x, Grid) and x.rank == 1 and x.kind == "int" for x in idx):
        raise Outside("fancy / mask indexing read of grid outside (one 1-d integer index array per dimension)", node)
    n = idx[0].dims[0]
    for x in idx[1:]:
        interp.ctx.oblige(st, M.s_cmp(ast.Eq(), x.dims[0], n), f"index-arrays-same-length@{getattr(node,'lineno','?')}", node, "shape")
    k = z3.Int(V.fresh_name("k"))
    conds = []
    for d, x in enumerate(idx):
        j, ok = M.norm_index(x.select([k]), g.dims[d])
        conds.append(ok)
    rng = z3.And(k >= 0, k < to_z3(n))
    goal = z3.ForAll([k], z3.Implies(rng, to_z3(b_and(*conds))))
    if not interp.ctx.options.get("spec_mode"):
        interp.ctx.oblige(st, goal, f"no-IndexError@{getattr(node,'lineno','?')}:fancy", node, "index")
        st.assume(goal)

    def fn(vars_):
        return g.select([M.norm_index(x.select([vars_[0]]), g.dims[d])[0] for d, x in enumerate(idx)])

    return M.grid_lambda([n], g.kind, fn, g.dtype)


def symlist_slice(interp, st, lst: SymList, sl: slice, node):
    M = _M()
    if sl.start is None and sl.stop is None and sl.step == -1:
        k = z3.Int(V.fresh_name("k"))
        n = to_z3(lst.length)
        arrs = [a if (a is None or isinstance(a, (str, bool, int, float))) else z3.Lambda([k], z3.Select(a, n - 1 - k)) for a in lst.arrs]
        return SymList(lst.tmpl, arrs, lst.length)
    sp = M.norm_slice(sl, lst.length)
    if sp.step != 1:
        raise Outside("list slice with step", node)
    if not is_sym(sp.lo) and sp.lo == 0:
        return SymList(lst.tmpl, lst.arrs, sp.length)
    k = z3.Int(V.fresh_name("k"))
    arrs = []
    for a in lst.arrs:
        if a is None or isinstance(a, (str, bool, int, float)):
            arrs.append(a)
        else:
            arrs.append(z3.Lambda([k], z3.Select(a, k + to_z3(sp.lo))))
    return SymList(lst.tmpl, arrs, sp.length)


# ----------------------------------------------------------------------------- setitem
def setitem(interp, st, base, idx, v, node=None):
    M = _M()
    if isinstance(base, M.RecDictView):
        if not isinstance(idx, str):
            raise Outside("__dict__ store with non-constant name", node)
        cref = M.find_class(interp, base.rec.cls, st)
        r = M.class_attr(interp, cref, idx) if cref is not None else None
        is_prop = isinstance(r, tuple) and ((r[0] == "property-lambda") or (hasattr(r[0], "is_property") and r[0].is_property))
        if is_prop:
            # the class defines a property of that name: a data descriptor, so attribute reads keep going to the property and the entry stored
            # in the instance dictionary is only visible through __dict__ itself
            return M.RecDictView(base.rec.with_field("__dict__:" + idx, v), base.node)
        return M.RecDictView(base.rec.with_field(idx, v), base.node)
    if isinstance(base, dict):
        if is_sym(idx) or (isinstance(idx, tuple) and any(is_sym(x) for x in idx)):
            if base:
                raise Outside("store into a non-empty python dict with symbolic key", node)
            key = M.as_key(idx, node)
            return CDict.fresh("dict", len(key), v, empty=True).set(key, v)
        d = dict(base)
        d[idx] = v
        return d
    if isinstance(base, list):
        if is_sym(idx):
            raise Outside("store into constant list at symbolic index", node)
        l = list(base)
        l[idx] = v
        return l
    if isinstance(base, CDict):
        return base.set(M.as_key(idx, node), v)
    if isinstance(base, SymList):
        j, ok = M.norm_index(idx, base.length)
        _oblige_index(interp, st, ok, node)
        return base.set(j, v)
    if isinstance(base, Arr):
        return arr_setitem(interp, st, base, idx, v, node)
    if isinstance(base, Grid):
        return grid_setitem(interp, st, base, idx, v, node)
    raise Outside(f"subscript store into {type(base).__name__}", node)


def arr_setitem(interp, st, a: Arr, idx, v, node):
    if not isinstance(idx, tuple):
        idx = (idx,)
    if any(isinstance(x, slice) or is_sym(x) for x in idx):
        # go through the grid representation
        g = _M().arr_to_grid(a)
        g2 = grid_setitem(interp, st, g, idx, v, node)
        return _M().grid_to_arr_if_const(g2)
    sub = a
    flat = list(a.flat)
    strides = a._strides()
    off = 0
    for k, ix in enumerate(idx):
        n = a.shape[k]
        if not (-n <= ix < n):
            _oblige_index(interp, st, False, node)
            raise Outside("constant index out of range", node)
        off += (ix % n) * strides[k]
    if len(idx) == a.ndim:
        if not is_scalar(v):
            raise Outside("store of non-scalar into array cell", node)
        flat[off] = v
    else:
        va = Arr.from_nested(v) if not isinstance(v, Arr) else v
        sub_shape = a.shape[len(idx) :]
        va = V.broadcast_to(va, sub_shape)
        size = len(va.flat)
        flat[off : off + size] = va.flat
    return Arr(a.shape, flat, a.kind)


def _check_dtype_range(interp, st, g, v, node):
    rng = {"int8": (-128, 127), "uint8": (0, 255), "int32": (-(2**31), 2**31 - 1)}.get(g.dtype)
    if rng is None or not is_scalar(v):
        return
    v = as_int(v)
    if is_sym(v) and v.sort() != z3.IntSort():
        return
    ok = b_and(v >= rng[0], v <= rng[1])
    if ok is not True:
        interp.ctx.oblige(st, ok, f"{g.dtype}-range@{getattr(node,'lineno','?')}", node, "dtype")


def grid_setitem(interp, st, g: Grid, idx, v, node):
    M = _M()
    if not isinstance(idx, tuple):
        idx = (idx,)
    if any(x is Ellipsis for x in idx):
        k = idx.index(Ellipsis)
        fill = g.rank - (len(idx) - 1)
        idx = idx[:k] + (slice(None),) * fill + idx[k + 1 :]
    if len(idx) == 1 and isinstance(idx[0], Grid) and idx[0].kind == "bool":
        return grid_mask_set(interp, st, g, idx[0], v, node)
    if any(isinstance(x, (Grid, Arr)) for x in idx):
        raise Outside("fancy-index store into grid", node)
    idx = idx + (slice(None),) * (g.rank - len(idx))
    if all(not isinstance(x, slice) for x in idx):
        js = []
        for k, ix in enumerate(idx):
            j, ok = M.norm_index(ix, g.dims[k])
            _oblige_index(interp, st, ok, node)
            js.append(j)
        if not is_scalar(v):
            raise Outside("store of non-scalar into grid cell", node)
        _check_dtype_range(interp, st, g, v, node)
        return g.store(js, v)
    # slice store
    fixed = []
    for k, ix in enumerate(idx):
        n = g.dims[k]
        if isinstance(ix, slice):
            fixed.append(("s", M.norm_slice(ix, n)))
        else:
            j, ok = M.norm_index(ix, n)
            _oblige_index(interp, st, ok, node)
            fixed.append(("i", j))
    slice_dims = [f[1].length for f in fixed if f[0] == "s"]
    if isinstance(v, (list, tuple)):
        v = Arr.from_nested(list(v))
    if isinstance(v, Arr) and v.ndim == 0:
        v = v.flat[0]
    # narrow integer dtypes: every stored element must fit (numpy would wrap silently)
    if isinstance(v, Grid) and g.dtype in ("int8", "uint8", "int32") and v.kind == "int" and not interp.ctx.options.get("spec_mode"):
        rng_ = {"int8": (-128, 127), "uint8": (0, 255), "int32": (-(2**31), 2**31 - 1)}[g.dtype]
        qs = [z3.Int(V.fresh_name("q")) for _ in v.dims]
        inr = z3.And(*[z3.And(q >= 0, q < to_z3(d)) for q, d in zip(qs, v.dims)])
        interp.ctx.oblige(st, z3.ForAll(qs, z3.Implies(inr, z3.And(v.select(qs) >= rng_[0], v.select(qs) <= rng_[1]))), f"{g.dtype}-range@{getattr(node,'lineno','?')}", node, "dtype")
    # shape agreement (numpy broadcasting of the value to the slice region, aligned from the right)
    if isinstance(v, Grid):
        if v.rank > len(slice_dims):
            raise Outside("store of higher-rank value into slice", node)
        off = len(slice_dims) - v.rank
        for k in range(v.rank):
            interp.ctx.oblige(st, M.s_cmp(ast.Eq(), v.dims[k], slice_dims[off + k]), f"shape-match@{getattr(node,'lineno','?')}.{k}", node, "shape")
    elif isinstance(v, Arr):
        if v.ndim > len(slice_dims):
            raise Outside("store of higher-rank value into slice", node)
        off = len(slice_dims) - v.ndim
        for k in range(v.ndim):
            if v.shape[k] != 1:
                interp.ctx.oblige(st, M.s_cmp(ast.Eq(), v.shape[k], slice_dims[off + k]), f"shape-match@{getattr(node,'lineno','?')}.{k}", node, "shape")
        v = M.arr_to_grid(v)
    elif is_scalar(v):
        _check_dtype_range(interp, st, g, v, node)
    else:
        raise Outside(f"slice store of {type(v).__name__}", node)

    def fn(vars_):
        conds = []
        rel = []  # position inside the slice region, per sliced dim
        for k, f in enumerate(fixed):
            x = vars_[k]
            if f[0] == "i":
                conds.append(x == to_z3(f[1]))
            else:
                sp = f[1]
                conds.append(x >= to_z3(sp.lo))
                conds.append(x < to_z3(sp.hi))
                if sp.step != 1:
                    conds.append((x - to_z3(sp.lo)) % sp.step == 0)
                    rel.append((x - to_z3(sp.lo)) / sp.step)
                else:
                    rel.append(x - to_z3(sp.lo))
        inside = z3.And(*conds) if conds else z3.BoolVal(True)
        if isinstance(v, Grid):
            off = len(rel) - v.rank
            val = v.select(rel[off:])
        else:
            val = v
        zval = to_z3(val)
        s = V.sort_for_kind(g.kind)
        if zval.sort() != s:
            if s == z3.RealSort() and zval.sort() == z3.IntSort():
                zval = z3.ToReal(zval)
            elif s == z3.IntSort() and zval.sort() == z3.BoolSort():
                zval = z3.If(zval, 1, 0)
            else:
                raise Outside(f"slice store of {zval.sort()} into {g.kind} grid", node)
        return z3.If(inside, zval, g.select(vars_))

    out = M.grid_lambda(g.dims, g.kind, fn, g.dtype)
    return out


def grid_mask_set(interp, st, g: Grid, mask: Grid, v, node):
    """a[mask] = v with a boolean mask over the leading dims of a"""
    M = _M()
    if mask.rank > g.rank:
        raise Outside("mask of higher rank than array", node)
    for k in range(mask.rank):
        interp.ctx.oblige(st, M.s_cmp(ast.Eq(), mask.dims[k], g.dims[k]), f"mask-shape@{getattr(node,'lineno','?')}.{k}", node, "shape")
    rest = g.rank - mask.rank
    if isinstance(v, (tuple, list)):
        v = Arr.from_nested(list(v))
    if isinstance(v, Arr):
        if v.ndim != rest and not (v.ndim == 0):
            raise Outside("mask store value of wrong rank", node)
        if v.ndim:
            for k in range(v.ndim):
                interp.ctx.oblige(st, M.s_cmp(ast.Eq(), v.shape[k], g.dims[mask.rank + k]), f"mask-value-shape@{getattr(node,'lineno','?')}.{k}", node, "shape")
            vg = M.arr_to_grid(v)
        else:
            vg = None
            v = v.flat[0]
    elif is_scalar(v):
        vg = None
    else:
        raise Outside(f"mask store of {type(v).__name__}", node)

    def fn(vars_):
        m = mask.select(vars_[: mask.rank])
        val = vg.select(vars_[mask.rank :]) if vg is not None else v
        zval = to_z3(val)
        s = V.sort_for_kind(g.kind)
        if zval.sort() != s and s == z3.IntSort() and zval.sort() == z3.BoolSort():
            zval = z3.If(zval, 1, 0)
        return z3.If(m, zval, g.select(vars_))

    return M.grid_lambda(g.dims, g.kind, fn, g.dtype)


# ----------------------------------------------------------------------------- iteration
def iter_values(interp, st, v, node=None):
    """-> python list of values (constant length), a GList, or a symbolic iterable (SymList/SymRange/Grid/...)"""
    I = _I()
    if isinstance(v, (list, tuple)):
        return list(v)
    if isinstance(v, dict):
        return list(v.keys())
    if isinstance(v, str):
        return list(v)
    if isinstance(v, range):
        return list(v)
    if isinstance(v, Arr):
        if v.ndim == 0:
            raise Outside("iteration over 0-d array", node)
        return v.rows()
    if type(v).__name__ == "NdIndex":
        return v
    if isinstance(v, (GList, SymList, I.SymRange, Grid)):
        if isinstance(v, Grid) and isinstance(v.dims[0], int):
            return [grid_getitem(interp, st, v, k, node) for k in range(v.dims[0])]
        return v
    if isinstance(v, SymIter):
        return v
    if isinstance(v, _M().Rows):
        return iter_values(interp, st, v.src, node)
    if isinstance(v, Rec):
        f = interp.lib.find_method(interp, v.cls, "__iter__", st)
        g = interp.lib.find_method(interp, v.cls, "__getitem__", st)
        if f is None and g is not None:
            # python's legacy iteration protocol: __getitem__(0), (1), ... until IndexError.  Supported when the REAL __getitem__ is
            # literally `return self.<attr>[<index parameter>]` (checked on the current AST): the iteration is that of self.<attr>.
            body = [n_ for n_ in g.node.body if not (isinstance(n_, ast.Expr) and isinstance(getattr(n_, "value", None), ast.Constant))]
            params = [a_.arg for a_ in g.node.args.args]
            if (len(body) == 1 and isinstance(body[0], ast.Return) and isinstance(body[0].value, ast.Subscript)
                    and isinstance(body[0].value.value, ast.Attribute) and isinstance(body[0].value.value.value, ast.Name)
                    and body[0].value.value.value.id == params[0] and isinstance(body[0].value.slice, ast.Name) and len(params) == 2
                    and body[0].value.slice.id == params[1]):
                from .npmodel4 import _trust

                _trust("python's legacy iteration protocol: iterating an object without __iter__ calls __getitem__(0), (1), ... until IndexError")
                return iter_values(interp, st, v.fields[body[0].value.value.attr], node)
            raise Outside("legacy __getitem__ iteration over record", node)
    raise Outside(f"iteration over {type(v).__name__}", node)


class SymIter:
    """symbolic-length iterable built from enumerate / zip over symbolic sequences"""

    def __init__(self, kind, parts, start=0):
        self.kind = kind  # 'enumerate' | 'zip'
        self.parts = parts
        self.start = start


def sym_len(interp, st, v, node=None):
    I = _I()
    if isinstance(v, I.ObjMethod):
        v = v.value
    if I.is_obj(v):
        n_ = z3.Function("obj.len", I.OBJ_SORT, z3.IntSort())(v)
        st.assume(n_ >= 0)
        return n_
    if isinstance(v, (list, tuple, dict, str)):
        return len(v)
    if isinstance(v, Arr):
        if v.ndim == 0:
            raise Outside("len of 0-d array", node)
        return v.shape[0]
    if isinstance(v, Grid):
        return v.dims[0]
    if isinstance(v, SymList):
        return v.length
    if isinstance(v, GList):
        return v.length()
    if isinstance(v, CSet):
        return v.card
    if isinstance(v, CDict):
        return v.dom.card
    if isinstance(v, I.SymRange):
        return _M().s_max(_M().s_sub(v.hi, v.lo), 0)
    if type(v).__name__ == "NdIndex":
        return _M().ndindex_len(v)
    if isinstance(v, SymIter):
        if v.kind == "enumerate":
            return sym_len(interp, st, v.parts[0], node)
        if v.kind == "zip":
            out = None
            for p_ in v.parts:
                n_ = sym_len(interp, st, p_, node)
                out = n_ if out is None else _M().s_min(out, n_)
            return out
    if isinstance(v, _M().Rows):
        return sym_len(interp, st, v.src, node)
    from .filt import FiltList, flen

    if isinstance(v, FiltList):
        n_ = flen(v)
        st.assume(z3.And(n_ >= 0, n_ <= to_z3(sym_len(interp, st, v.src, node) if not hasattr(v.src, "n") else v.src.n)))
        return n_
    if isinstance(v, Rec):
        f = interp.lib.find_method(interp, v.cls, "__len__", st)
        if f is not None:
            return interp.lib.call_function(interp, st, f, [v], {}, node)
    raise Outside(f"len of {type(v).__name__}", node)


def sym_item(interp, st, seq, k, node=None):
    """k-th element of a symbolic iterable (0 <= k < len assumed by the caller)"""
    I = _I()
    if isinstance(seq, SymList):
        return seq.get(k)
    if isinstance(seq, I.SymRange):
        return _M().s_add(seq.lo, k)
    if type(seq).__name__ == "NdIndex":
        return _M().ndindex_item(seq, k)
    if isinstance(seq, Grid):
        return grid_getitem(interp, st, seq, k, node)
    if isinstance(seq, GList):
        return seq.get(k)
    if isinstance(seq, (list, tuple)):
        return getitem(interp, st, seq, k, node)
    if isinstance(seq, SymIter):
        if seq.kind == "enumerate":
            return (_M().s_add(k, seq.start), sym_item(interp, st, seq.parts[0], k, node))
        if seq.kind == "zip":
            return tuple(sym_item(interp, st, p, k, node) for p in seq.parts)
    raise Outside(f"element of {type(seq).__name__}", node)


# ----------------------------------------------------------------------------- comprehensions
def comprehension(interp, st, node, kind):
    I = _I()
    if len(node.generators) != 1:
        if len(node.generators) == 2 and kind in ("list", "gen"):
            return _nested_comprehension(interp, st, node, kind)
        raise Outside("comprehension with several generators", node)
    gen = node.generators[0]
    if gen.is_async:
        raise Outside("async comprehension", node)
    it = interp.ev(gen.iter, st)
    if isinstance(it, CSet) and kind == "set" and not gen.ifs:
        # {f(x) for x in s}: supported when f is the identity on integer tuples (e.g. tuple(int(v) for v in x))
        key = tuple(z3.Int(V.fresh_name("e")) for _ in range(it.arity))
        saved0 = dict(st.env)
        interp.assign(gen.target, key, st)
        val = interp.ev(node.elt, st)
        st.env.clear()
        st.env.update(saved0)
        if isinstance(val, tuple) and len(val) == len(key) and all(is_sym(a) and a.eq(b) for a, b in zip(val, key)):
            return it
        raise Outside("set comprehension over a set with a non-identity element", node)
    seq = iter_values(interp, st, it, node)
    saved = dict(st.env)
    try:
        if isinstance(seq, list) or isinstance(seq, GList):
            pairs = [(True, x) for x in seq] if isinstance(seq, list) else list(seq.items)
            items = []
            for g0, x in pairs:
                pushed = 0
                if g0 is not True:
                    st.guards.append(g0)
                    pushed += 1
                try:
                    interp.assign(gen.target, x, st)
                    g = g0
                    for cond in gen.ifs:
                        c = I.truthy_value(interp, st, interp.ev(cond, st))
                        if c is False:
                            g = False
                            break
                        if c is not True:
                            st.guards.append(c)
                            pushed += 1
                            g = b_and(g, c)
                    if g is False:
                        continue
                    if kind == "dict":
                        val = (interp.ev(node.key, st), interp.ev(node.value, st))
                    else:
                        val = interp.ev(node.elt, st)
                    items.append((g, val))
                finally:
                    for _ in range(pushed):
                        st.guards.pop()
            if kind == "dict":
                if any(g is not True for g, _ in items):
                    raise Outside("filtered dict comprehension", node)
                d = {}
                for _, (k, v) in items:
                    if not isinstance(k, (str, int, tuple)) or (isinstance(k, tuple) and any(is_sym(x) for x in k)):
                        raise Outside("dict comprehension with symbolic keys", node)
                    d[k] = v
                return d
            if kind == "set":
                s = None
                for g, val in items:
                    key = _M().as_key(val, node)
                    if s is None:
                        s = CSet.empty(len(key))
                    s2 = s.add(key)
                    s = s2 if g is True else merge(g, s2, s)
                if s is None:
                    raise Outside("empty set comprehension (arity unknown)", node)
                return s
            if all(g is True for g, _ in items):
                return [v for _, v in items]
            return GList(items)
        # symbolic-length source: pure map (no filter) -> lambda-defined list
        if gen.ifs and kind in ("list", "gen") and isinstance(seq, (SymList, Grid, I.SymRange)):
            # [x for x in src if cond(x)]: the filtered view of src with keep[k] = cond(src[k]); the element must be the item itself
            from .filt import FiltList, RangeSrc

            if isinstance(seq, I.SymRange):
                if not (isinstance(seq.lo, int) and seq.lo == 0):
                    raise Outside("filtered comprehension over a range not starting at 0", node)
                fsrc = RangeSrc(seq.hi)
            else:
                fsrc = seq
            n = sym_len(interp, st, seq, node)
            k = z3.Int(V.fresh_name("k"))
            st.guards.append(z3.And(k >= 0, k < to_z3(n)))
            st.binders.append(k)
            try:
                x = sym_item(interp, st, seq, k, node)
                interp.assign(gen.target, x, st)
                g = True
                for cond in gen.ifs:
                    g = b_and(g, I.truthy_value(interp, st, interp.ev(cond, st)))
                val = interp.ev(node.elt, st)
            finally:
                st.guards.pop()
                st.binders.pop()
            lv, lx = V.leaves_of(val), V.leaves_of(x)
            same = len(lv) == len(lx) and all((a is b) or (is_sym(a) and is_sym(b) and a.eq(b)) or (not is_sym(a) and not is_sym(b) and a == b) for a, b in zip(lv, lx))
            if not same:
                raise Outside("filtered comprehension over a symbolic-length sequence whose element is not the item itself", node)
            return FiltList(fsrc, z3.Lambda([k], z3.And(k >= 0, k < to_z3(n), to_z3(g))))
        if kind == "dict" and not gen.ifs:
            # {key(x): value(x) for x in <symbolic-length sequence>} with string keys and integer values: a token -> id map.  A key is in the
            # map iff some element produces it; its value is the one produced by the LAST such element (later entries overwrite earlier ones)
            n = sym_len(interp, st, seq, node)
            k = z3.Int(V.fresh_name("dk"))
            st.guards.append(z3.And(k >= 0, k < to_z3(n)))
            st.binders.append(k)
            try:
                interp.assign(gen.target, sym_item(interp, st, seq, k, node), st)
                key_k = interp.ev(node.key, st)
                val_k = interp.ev(node.value, st)
            finally:
                st.guards.pop()
                st.binders.pop()
            if isinstance(key_k, str):
                key_k = z3.StringVal(key_k)
            if not (is_sym(key_k) and key_k.sort() == z3.StringSort() and (isinstance(val_k, int) or (is_sym(val_k) and val_k.sort() == z3.IntSort()))):
                raise Outside("dict comprehension over a symbolic-length sequence other than string -> int", node)
            j, t = z3.Int(V.fresh_name("dj")), z3.String(V.fresh_name("dt"))
            key_j = z3.substitute(key_k, (k, j))
            nz = to_z3(n)
            dom = z3.Lambda([t], z3.Exists([k], z3.And(k >= 0, k < nz, key_k == t)))
            out = V.SDict.fresh("dictcomp")
            st.assume(z3.ForAll([t], z3.Select(out.dom, t) == z3.Exists([k], z3.And(k >= 0, k < nz, key_k == t))))
            last = z3.ForAll([j], z3.Implies(z3.And(j > k, j < nz), key_j != key_k))
            st.assume(z3.ForAll([k], z3.Implies(z3.And(k >= 0, k < nz, last), z3.Select(out.val, key_k) == to_z3(val_k))))
            return out
        if gen.ifs or kind in ("dict", "set"):
            spec = interp.ctx.registry.comprehension_spec(interp.ctx, node, st)
            if spec is not None:
                return spec(interp, st, node, seq)
            raise Outside("filtered comprehension over symbolic-length sequence", node)
        n = sym_len(interp, st, seq, node)
        k = z3.Int(V.fresh_name("k"))
        st.guards.append(z3.And(k >= 0, k < to_z3(n)))
        st.binders.append(k)
        try:
            x = sym_item(interp, st, seq, k, node)
            interp.assign(gen.target, x, st)
            val = interp.ev(node.elt, st)
        finally:
            st.guards.pop()
            st.binders.pop()
        leaves = V.leaves_of(val)
        arrs = []
        for l in leaves:
            if l is None or isinstance(l, (str, bool, int, float)):
                arrs.append(l)  # a python constant is shared by every element (e.g. a fixed array dimension)
            else:
                arrs.append(V.lam_array(k, l))
        return SymList(val, arrs, n)
    finally:
        # comprehension variables do not leak
        names = {n_.id for n_ in ast.walk(gen.target) if isinstance(n_, ast.Name)}
        for nm in names:
            if nm in saved:
                st.env[nm] = saved[nm]
            else:
                st.env.pop(nm, None)


def _nested_comprehension(interp, st, node, kind):
    g1, g2 = node.generators
    inner = ast.ListComp(elt=node.elt, generators=[g2])
    ast.copy_location(inner, node)
    outer = ast.ListComp(elt=inner, generators=[g1])
    ast.copy_location(outer, node)
    ast.fix_missing_locations(outer)
    res = comprehension(interp, st, outer, "list")
    if not isinstance(res, list) or not all(isinstance(r, list) for r in res):
        raise Outside("nested comprehension over symbolic sequences", node)
    return [x for r in res for x in r]


from .npmodel3 import *  # noqa: E402,F401,F403
