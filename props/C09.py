"""C09 - maze objects are values: total structural equality, consistent hash, valid ends."""
ID = "C09"
LEVEL = "exploration"
LEVEL_TEXT = 'Bounded, exhaustive on the 2x2 population: all ordered pairs of the three kinds x all 16 connection structures x endpoints x shortest solutions for ==, !=, hash, set/dict de-duplication; seeded single-difference variants on larger grids; MazeDataset ==; constructor rejection of negative / too-large endpoints. Which dunder methods exist is decided by dataclass/muutils reflection at class creation, outside the reach of a contract.'
LEVEL_NOTE = 'Trusted: numpy array_equal/tobytes.'
TECHNIQUE = "bounded stand-in of the contract-based verifier: run-time checking of the real code against an independent executable statement over an enumerated scope (no function of this property is in the verified subset yet)"
CONTRACT_MODULES = []
PROVE = []
ASSUMPTIONS = []
EXPLANATION = "see DESIGN.md C09"


def run(run):
    from props._std import run_bounded

    if PROVE:
        run.prove(PROVE)
    run_bounded(run, "C09")
