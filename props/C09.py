"""C09 - maze objects are values: total structural equality, consistent hash, valid ends."""
ID = "C09"
LEVEL = "proof"
LEVEL_TEXT = 'Every clause of the statement is proved against the real function it rests on, for all grids and all maze kinds; what stays bounded is only WHICH dunder methods python finds on the classes (decided by the dataclass / muutils decorators, outside the prover) and the set / dict behaviour that follows from == and hash. PROVED (unbounded, z3): LatticeMaze.__eq__ returns exactly `same kind and identical connection structure, start, end, solution` for all nine kind pairs and all array shapes and never raises; equal mazes have equal hashes for all nine kind pairs (lemma hash_consistent: __eq__ through its proved contract, the real LatticeMaze.__hash__ / SolvedMaze.__hash__ bodies executed symbolically, bytes and hash() uninterpreted - a hash that reads the solution without the int64 cast, or any field __eq__ ignores, fails it); TargetedLatticeMaze.__post_init__ returns normally only with both endpoints inside the grid and raises ValueError otherwise; SolvedMaze.__init__ takes start and end from the two ends of the solution as given (a narrowing integer cast of the solution is a range obligation: values must fit) and returns only with both in the grid; the two from_lattice_maze class methods (what the generation pipeline and the conversions call) keep the connection structure, store the given ends / the ends of the solution, and raise ValueError exactly when an end is outside the grid. Bounded, exhaustive on the 2x2 population: all ordered pairs of the three kinds x all 16 connection structures x endpoints x shortest solutions for ==, !=, hash, set/dict de-duplication; seeded single-difference variants on larger grids; MazeDataset ==; constructor rejection of negative / too-large endpoints. Which dunder methods exist is decided by dataclass/muutils reflection at class creation, outside the reach of a contract.'
LEVEL_NOTE = 'Trusted: numpy array_equal; list == list is equal lengths and pairwise == (MazeDataset.__eq__ is proved on that reading: equal configurations, equal lengths, pairwise equal mazes); ndarray.tobytes() is a function of dtype, shape and entries; hash() of equal objects is equal; python dispatches == / hash() to the dunder methods of the class (which ones are installed is decided by the decorators: bounded).'
TECHNIQUE = "contract-based deductive verification of the real equality / hash / constructor functions (AST-derived VCs, z3) with the hash law as a lemma over them; bounded run-time checking (exhaustive on the 2x2 population) as cross-check and for what the decorators install"
CONTRACT_MODULES = ['contracts.mazevalues', 'contracts.serialization', 'contracts.paths']
PROVE = [('maze_dataset/maze/lattice_maze.py', 'LatticeMaze.__eq__'), ('maze_dataset/maze/lattice_maze.py', 'TargetedLatticeMaze.__post_init__'), ('/verif/contracts/lemmas_src.py', 'hash_consistent'), ('maze_dataset/maze/lattice_maze.py', 'SolvedMaze.__init__'), ('maze_dataset/dataset/maze_dataset.py', 'MazeDataset.__eq__'), ('maze_dataset/maze/lattice_maze.py', 'TargetedLatticeMaze.from_lattice_maze'), ('maze_dataset/maze/lattice_maze.py', 'SolvedMaze.from_lattice_maze')]
ASSUMPTIONS = []
EXPLANATION = "see DESIGN.md C09"


def run(run):
    from props._std import run_bounded

    if PROVE:
        run.prove(PROVE)
    run_bounded(run, "C09")
