"""C06 - modular tokenization is a faithful, decodable encoding of the maze."""
ID = "C06"
LEVEL = "exploration"
LEVEL_TEXT = (
    "PROVED (z3, unbounded in the solution length): the leaves that carry the MEANING of the path tokens. get_cardinal_direction / get_relative_direction (NORTH/SOUTH/WEST/EAST with rows growing "
    "southwards and columns eastwards; FORWARD/BACKWARD/LEFT/RIGHT/STAY with left and right as seen on the drawn maze; ValueError exactly for non-steps); StepTokenizers.Cardinal.to_tokens (one token: the "
    "direction in which the path LEAVES the step's start) and StepTokenizers.Relative.to_tokens (one token: the turn relative to the direction of arrival, the agent facing north before the first step); "
    "StepSizes.Singles (every solution index), StepSizes.Forks (exactly the forks of the solution plus both ends, by the forking-point contract of C13) and step_start_end_indices (steps are the consecutive "
    "pairs of step ends, for any step size); is_connection (the connector / wall mark of an edge is edge(a,b), under C13). "
    "REGION LAYOUT (first clause of the property): PromptSequencers.AOTP / AOP._sequence_tokens put each region between its own pair of delimiters, once, in the order adjacency - origin - target - path "
    "(AOP keeps the empty target region's delimiters), for token lists of any length; tokens_between is the slice between the FIRST occurrences of its two delimiters with the documented exceptions, exactly; and the lemma "
    "prompt_layout (for AOTP and AOP): _trim_if_unsolved_maze(_sequence_tokens(...)) - the real bodies - is the full layout for a solved maze, the layout up to TARGET_END for a targeted maze and "
    "[ADJLIST_START, *adjacency, ADJLIST_END] for an untargeted one, never raising, provided no region token is itself one of the eight delimiters (the real constants of maze_dataset.constants). "
    "EDGE SET: lattice_connection_array(n) / EdgeSubsets.AllLatticeEdges._get_edges list every unit edge of the n x n lattice exactly once, lesser endpoint first (n(n-1) horizontal edges in row-major order, then n(n-1) vertical ones: "
    "np.meshgrid, 2-d slices, ravel, np.column_stack, reshape, np.concatenate through their library contracts and the row-major index algebra); EdgeSubsets.ConnectionEdges._get_edges lists precisely the selected edge set - every row a lattice edge inside the grid whose connection bit is the selected kind (connections, or walls with walls=True), "
    "lesser endpoint first, every such edge in some row, none in two (through the adjacency-list contract connection_list_to_adj_list, proved under C13; grids up to 127x127); EdgePermuters.BothCoords._permute lists the edges it is given followed by the same edges with their "
    "coordinates exchanged (`in both orientations`); EdgePermuters.RandomCoords._permute keeps every unit lattice edge in place in one of its two orientations, whatever Generator.permuted draws "
    "(it permutes the two row entries and the two column entries of a pair independently - harmless exactly because the two cells of a lattice edge agree in one coordinate: a precondition of the contract). "
    "COORDINATES: CoordTokenizers.UT.to_tokens is the single token `(row,col)` in decimal, row first; CoordTokenizers.CTT.to_tokens is the row number then the column number as separate decimal tokens with exactly the delimiters "
    "its three parameters ask for (all eight combinations). "
    "DECODABLE REGIONS: lemma regions_roundtrip - token_utils.get_adj_list_tokens / get_origin_tokens / get_target_tokens / get_path_tokens(trim_end=True) (real bodies) recover from a full AOTP sequence exactly "
    "the four region lists it was built from (non-empty adjacency, origin and target regions: tokens_between refuses an empty slice). "
    "The composition of the region tokenizers themselves (dynamic dispatch, coordinate tokens, the Distance vocabulary lookup) is outside the verified subset and is decided by the bounded stand-in, "
    "which implements the statement's own quantifier: an independent decoder configured only from the tokenizer's parameters recovers regions, edge sets with marks, origin, target and step sequences, "
    "exhaustively per region over all 216 adjacency-list and 1008 path element configurations (a stratified slice in the quick tier) plus a pairwise-covering set of full configurations, on mazes of all three kinds."
)
LEVEL_NOTE = "Trusted: pyvc encoding; np.concatenate / np.expand_dims / np.column_stack / reshape / np.flip / np.append library models. The dynamic composition of tokenizer elements is outside the verified subset; the bounded decoder is the harness's own."
TECHNIQUE = "bounded run-time checking of the real tokenizers against an independent decoder over enumerated element configurations and mazes + contracts on the direction / step-size / step-token leaves discharged by z3"
CONTRACT_MODULES = ["contracts.lattice_maze", "contracts.token_utils", "contracts.steps", "contracts.sequencing", "contracts.adjlist", "contracts.coordtok"]
TU = "maze_dataset/token_utils.py"
MT = "maze_dataset/tokenization/maze_tokenizer.py"
PROVE = [(TU, "get_cardinal_direction"), (TU, "get_relative_direction"), (MT, "StepTokenizers.Cardinal.to_tokens"), (MT, "StepTokenizers.Relative.to_tokens"),
         (MT, "StepSizes.Singles._step_single_indices"), (MT, "StepSizes.Forks._step_single_indices"), (MT, "StepSizes._StepSize.step_start_end_indices"),
         (TU, "tokens_between"), (MT, "PromptSequencers.AOTP._sequence_tokens"), (MT, "PromptSequencers.AOP._sequence_tokens"),
         ("/verif/contracts/lemmas_src.py", "prompt_layout"), ("/verif/contracts/lemmas_src.py", "prompt_layout_aop"),
         ("/verif/contracts/lemmas_src.py", "regions_roundtrip"),
         ("maze_dataset/token_utils.py", "connection_list_to_adj_list"), (MT, "EdgeSubsets.ConnectionEdges._get_edges"), (MT, "EdgePermuters.BothCoords._permute"), (MT, "EdgePermuters.RandomCoords._permute"),
         (MT, "CoordTokenizers.UT.to_tokens"), (MT, "CoordTokenizers.CTT.to_tokens"), ("maze_dataset/utils.py", "lattice_connection_array"), (MT, "EdgeSubsets.AllLatticeEdges._get_edges")]
ASSUMPTIONS = ["region token lists contain none of the eight region delimiters (coordinate, connector, direction and distance tokens are other vocabulary entries: checked by the bounded decoder, not proved)", "consecutive solution cells are lattice-adjacent (what SolvedMaze solutions are); start_index + 1 < len(solution)"]
EXPLANATION = "see DESIGN.md C06"


def run(run):
    from props._std import run_bounded

    if PROVE:
        run.prove(PROVE)
    run_bounded(run, "C06")
