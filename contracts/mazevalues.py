"""Sidecar contracts for maze objects as values (C09): equality and endpoint validation."""
from pyvc.contracts import contract, Loop, REGISTRY
from pyvc import tys as T

F = "maze_dataset/maze/lattice_maze.py"
REGISTRY.class_files.update({"LatticeMaze": F, "TargetedLatticeMaze": F, "SolvedMaze": F})

CONN = T.GridT("bool", [2, None, None])
# at call sites (SolvedMaze.__init__ -> dataclass initialiser -> __post_init__) the real body is executed; the contract below is verified on its own
REGISTRY.inlinable.update({(F, "TargetedLatticeMaze.__post_init__")})


def _kinds():
    return T.OneOf(
        T.RecT("LatticeMaze", connection_list=CONN),
        T.RecT("TargetedLatticeMaze", connection_list=CONN, start_pos=T.Coord, end_pos=T.Coord),
        T.RecT("SolvedMaze", connection_list=CONN, start_pos=T.Coord, end_pos=T.Coord, solution=T.GridT("int", [None, 2])),
    )


@contract(F, "LatticeMaze.__eq__")
class maze_eq:
    params = dict(self=_kinds(), other=_kinds())
    ensures = {"C09.eq": "result == maze_equal(self, other)"}
    # no `raises`: comparing two mazes never raises (shapes may differ)
    result = T.Bool
    props = ["C09"]


@contract(F, "TargetedLatticeMaze.__post_init__")
class targeted_post_init:
    params = dict(self=T.RecT("TargetedLatticeMaze", connection_list=CONN, start_pos=T.Coord, end_pos=T.Coord))
    modifies = ["self"]
    ensures = {
        # a targeted or solved maze can never hold a start or end outside its grid
        "C09.start-in-grid": "in_grid(self, self.start_pos)",
        "C09.end-in-grid": "in_grid(self, self.end_pos)",
        "C09.kept": "same_grid(self.connection_list, old(self).connection_list)"
        " and self.start_pos[0] == old(self).start_pos[0] and self.start_pos[1] == old(self).start_pos[1]"
        " and self.end_pos[0] == old(self).end_pos[0] and self.end_pos[1] == old(self).end_pos[1]",
    }
    raises = {"ValueError": "not in_grid(self, self.start_pos) or not in_grid(self, self.end_pos)"}
    props = ["C09"]


L = "/verif/contracts/lemmas_src.py"
# the real __hash__ bodies are executed symbolically inside the lemma (no contract between the lemma and the code)
REGISTRY.inlinable.update({(F, "LatticeMaze.__hash__"), (F, "SolvedMaze.__hash__")})


@contract(L, "hash_consistent")
class hash_consistent:
    """Lemma C09.hash: for all mazes a, b of all nine kind pairs, a == b implies hash(a) == hash(b).  __eq__ is used through its proved
    contract (result == maze_equal), the two __hash__ bodies are the real ones; bytes and hash() are uninterpreted (equal arrays of one
    dtype give equal bytes, equal objects equal hashes)."""
    params = dict(a=_kinds(), b=_kinds())
    ensures = {"C09.hash-consistent": "result == True"}
    result = T.Bool
    options = dict(no_concrete=True)
    props = ["C09"]


MDF = "maze_dataset/dataset/maze_dataset.py"
_SOLVED = T.RecT("SolvedMaze", connection_list=CONN, start_pos=T.Coord, end_pos=T.Coord, solution=T.GridT("int", [None, 2]))
_DSV = T.RecT("MazeDataset", cfg=T.ObjT("cfg"), mazes=T.ListT(_SOLVED))


@contract(MDF, "MazeDataset.__eq__")
class dataset_eq:
    """C09: `datasets compare equal exactly when configurations and maze lists are equal` - equal configurations (whatever the configuration's own ==
    says: opaque) and maze lists of the same length that are pairwise equal mazes"""
    params = dict(self=_DSV, other=_DSV)
    ensures = {
        "C09.dataset-eq": "result == ((self.cfg == other.cfg) and len(self.mazes) == len(other.mazes)"
        " and forall(lambda k: maze_equal(self.mazes[k], other.mazes[k]), (0, len(self.mazes))))",
    }
    options = dict(no_concrete=True)
    props = ["C09"]
