"""Bounded stand-in for C18: dataset configurations round-trip exactly (also through JSON text), their hash depends
only on the serialized content, is identical across processes / hash seeds and separates configurations that differ in
one field, and the cache file name has the documented form.  The real MazeDatasetConfig code is run (muutils does
the field walk); expectations are built from the constructor arguments.  Labelled bounded, never counted as proved."""
from __future__ import annotations

import hashlib
import itertools
import json
import os
import subprocess
import sys
import time
import traceback
import warnings

import numpy as np

from vlib.runner import BoundedResult

PER_KEY = 3
GENS = ["gen_dfs", "gen_wilson", "gen_percolation", "gen_dfs_percolation", "gen_prim"]

# ----------------------------------------------------------------------------- the factors of the cross product (JSON-able)
KWARGS_SETS = [
    {},
    {"do_forks": False},
    {"p": 0.3},
    {"accessible_cells": 5, "max_tree_depth": 3},
    {"accessible_cells": 0.5, "randomized_stack": True},
    {"start_coord": [1, 1], "max_tree_depth": None},
]
# coordinate lists are given as lists of pairs here and turned into lists of TUPLES when the config is constructed
ENDPOINT_SETS = [
    {},
    {"deadend_start": True},
    {"deadend_end": True, "endpoints_not_equal": True},
    {"deadend_start": True, "deadend_end": True, "except_when_invalid": True},
    {"allowed_start": [[0, 0], [1, 2]]},
    {"allowed_end": [[1, 1]]},
    {"allowed_start": [[0, 0]], "allowed_end": [[1, 1], [0, 1], [1, 0]], "deadend_end": False},
    {"allowed_start": None, "allowed_end": [[0, 1]], "deadend_start": False},
]
SEEDS = [42, 0, 12345]
FILTER_LISTS = [
    [],
    [{"name": "path_length", "args": [3], "kwargs": {}}],
    [{"name": "path_length", "args": [], "kwargs": {"min_length": 2}}, {"name": "truncate_count", "args": [7], "kwargs": {}}],
    [
        {"name": "remove_duplicates", "args": [], "kwargs": {"minimum_difference_connection_list": None, "minimum_difference_solution": 2}},
        {"name": "collect_generation_meta", "args": [], "kwargs": {}},
        {"name": "cut_percentile_shortest", "args": [25.0], "kwargs": {}},
        {"name": "start_end_distance", "args": [2], "kwargs": {}},
    ],
]
BASICS = [["t", 3, 5], ["a b/c:d", 2, 1], ["long-name_x.y", 6, 1000], ["T2", 4, 1234567]]

# alternatives used to build "differs in exactly one field" neighbours
ALT = {
    "name": ["t_", "tt", "u"],
    "grid_n": [7, 1],
    "n_mazes": [6, 50, 10 ** 6 + 1],
    "maze_ctor": GENS,
    "maze_ctor_kwargs": KWARGS_SETS + [{"p": 0.31}, {"do_forks": True}],
    "endpoint_kwargs": ENDPOINT_SETS + [{"allowed_start": [[0, 0], [2, 1]]}, {"allowed_start": [[1, 2], [0, 0]]}, {"deadend_start": False}],
    "seed": SEEDS + [1, 43],
    "applied_filters": FILTER_LISTS
    + [
        [{"name": "path_length", "args": [4], "kwargs": {}}],
        [{"name": "path_length", "args": [], "kwargs": {"min_length": 3}}],
        [{"name": "truncate_count", "args": [7], "kwargs": {}}, {"name": "path_length", "args": [], "kwargs": {"min_length": 2}}],
        [{"name": "path_length", "args": [3], "kwargs": {}}, {"name": "path_length", "args": [3], "kwargs": {}}],
    ],
}
FIELDS = ["name", "grid_n", "n_mazes", "maze_ctor", "maze_ctor_kwargs", "endpoint_kwargs", "seed", "applied_filters"]


def _fail(res, key, what, inp=None, observed=None):
    if sum(1 for f in res.failures if f["key"] == key) < PER_KEY:
        # the key travels with the input so that replay() judges exactly this failure and not another one on the same input
        res.fail(key, what, dict(inp, failed_key=key) if isinstance(inp, dict) else inp, observed)


def want_endpoint(ek):
    return {k: (v if (isinstance(v, bool) or v is None) else [tuple(int(x) for x in c) for c in v]) for k, v in ek.items()}


def want_filters(fl):
    return [{"name": f["name"], "args": tuple(f["args"]), "kwargs": dict(f["kwargs"])} for f in fl]


def make(spec):
    """spec (JSON-able dict over FIELDS) -> MazeDatasetConfig; built from fresh copies each time"""
    from maze_dataset.dataset.maze_dataset import MazeDatasetConfig
    from maze_dataset.generation.generators import GENERATORS_MAP

    return MazeDatasetConfig(
        name=spec["name"],
        grid_n=int(spec["grid_n"]),
        n_mazes=int(spec["n_mazes"]),
        maze_ctor=GENERATORS_MAP[spec["maze_ctor"]],
        maze_ctor_kwargs=json.loads(json.dumps(spec["maze_ctor_kwargs"])),
        endpoint_kwargs=want_endpoint(spec["endpoint_kwargs"]),
        seed=int(spec["seed"]),
        applied_filters=want_filters(spec["applied_filters"]),
    )


def spec_of(g, kw, ek, seed, fl, basic):
    return {"name": basic[0], "grid_n": basic[1], "n_mazes": basic[2], "maze_ctor": g, "maze_ctor_kwargs": kw, "endpoint_kwargs": ek, "seed": seed, "applied_filters": fl}


def canon_spec(spec):
    return json.dumps(spec, sort_keys=True)


def own_hash(cfg):
    """statement: the hash is a function of the serialized content only - sha256 of its JSON text, read as an integer"""
    return int.from_bytes(hashlib.sha256(json.dumps(cfg.serialize()).encode("utf-8")).digest(), "big")


def own_fname(spec, h):
    from muutils.misc import sanitize_fname, shorten_numerical_to_str

    gen = spec["maze_ctor"]
    gen_short = gen[len("gen_"):] if gen.startswith("gen_") else gen
    return sanitize_fname(f"{spec['name']}-g{spec['grid_n']}-n{shorten_numerical_to_str(spec['n_mazes'])}-a_{gen_short}-h{h % 10 ** 5}")


def check_loaded(res, pre, spec, cfg, loaded, inp, cfg_hash=None):
    from maze_dataset.dataset.maze_dataset import MazeDatasetConfig
    from maze_dataset.generation.generators import GENERATORS_MAP

    if not isinstance(loaded, MazeDatasetConfig):
        _fail(res, f"{pre}:type", f"loaded a {type(loaded).__name__}", inp, None)
        return
    wants = {
        "name": spec["name"],
        "grid_n": spec["grid_n"],
        "n_mazes": spec["n_mazes"],
        "maze_ctor_kwargs": spec["maze_ctor_kwargs"],
        "endpoint_kwargs": want_endpoint(spec["endpoint_kwargs"]),
        "seed": spec["seed"],
        "applied_filters": want_filters(spec["applied_filters"]),
    }
    for field, want in wants.items():
        got = getattr(loaded, field)
        if got != want or type(got) is not type(want):
            _fail(res, f"{pre}:{field}", f"{field} came back as {got!r}, constructed with {want!r}", inp, repr(got)[:300])
    if loaded.maze_ctor is not GENERATORS_MAP[spec["maze_ctor"]]:
        _fail(res, f"{pre}:maze_ctor", f"generator came back as {getattr(loaded.maze_ctor, '__name__', loaded.maze_ctor)!r}, not the registered {spec['maze_ctor']}", inp, repr(loaded.maze_ctor)[:200])
    # container element types: coordinates are tuples of ints, filter args are tuples
    for k, v in loaded.endpoint_kwargs.items():
        if isinstance(v, list) and not all(type(c) is tuple and all(isinstance(x, int) and not isinstance(x, bool) for x in c) for c in v):
            _fail(res, f"{pre}:endpoint_kwargs", f"endpoint option {k} does not hold tuples of ints after loading: {v!r}", inp, repr(v))
    for f in loaded.applied_filters:
        if not (isinstance(f, dict) and type(f.get("args")) is tuple and isinstance(f.get("kwargs"), dict)):
            _fail(res, f"{pre}:applied_filters", f"recorded filter does not hold args as a tuple after loading: {f!r}", inp, repr(f))
    try:
        eq = loaded == cfg
        eq2 = cfg == loaded
    except Exception as e:  # noqa: BLE001
        _fail(res, f"{pre}:eq", f"comparing the loaded configuration with the original raised {type(e).__name__}: {e}", inp, None)
        return
    if eq is not True or eq2 is not True:
        _fail(res, f"{pre}:eq", f"loaded == cfg is {eq!r} / cfg == loaded is {eq2!r}", inp, None)
    try:
        d = cfg.diff(loaded)
        d2 = cfg.diff(loaded, of_serialized=True)
        if d or d2:
            _fail(res, f"{pre}:diff", f"cfg.diff(loaded) is not empty: {list(d) or list(d2)}", inp, repr(d or d2)[:300])
    except Exception as e:  # noqa: BLE001
        _fail(res, f"{pre}:diff", f"cfg.diff(loaded) raised {type(e).__name__}: {str(e)[:100]}", inp, None)
    try:
        if loaded.stable_hash_cfg() != (cfg.stable_hash_cfg() if cfg_hash is None else cfg_hash):
            _fail(res, "C18:hash:roundtrip", "hash of the loaded configuration differs from the original's", inp, None)
    except Exception as e:  # noqa: BLE001
        _fail(res, "C18:hash:raised", f"hash of the loaded configuration raised {type(e).__name__}: {e}", inp, None)


def check_config(res, spec, count=True):
    """round trips, hash definition, file name for one configuration; returns (hash, fname) or None"""
    from maze_dataset.dataset.maze_dataset import MazeDatasetConfig

    inp = {"spec": spec}
    if count:
        res.seen(canon_spec(spec), nontrivial=True, sample=spec)
    try:
        cfg = make(spec)
    except Exception as e:  # noqa: BLE001
        res.errors.append(f"cannot construct {spec}: {type(e).__name__}: {e}")
        return None
    try:
        ser = cfg.serialize()
        text0 = json.dumps(ser)
    except Exception as e:  # noqa: BLE001
        _fail(res, "C18:roundtrip:raised", f"serialize()/json.dumps raised {type(e).__name__}: {str(e)[:160]}", inp, traceback.format_exc(limit=3)[-400:])
        return None
    h0 = int.from_bytes(hashlib.sha256(text0.encode("utf-8")).digest(), "big")  # statement: a function of the serialized content only
    try:
        loaded = MazeDatasetConfig.load(ser)
    except Exception as e:  # noqa: BLE001
        _fail(res, "C18:roundtrip:raised", f"load(serialize()) raised {type(e).__name__}: {str(e)[:160]}", inp, traceback.format_exc(limit=3)[-400:])
        loaded = None
    try:
        loaded_j = MazeDatasetConfig.load(json.loads(text0))
    except Exception as e:  # noqa: BLE001
        _fail(res, "C18:roundtrip-json:raised", f"load(json.loads(json.dumps(serialize()))) raised {type(e).__name__}: {str(e)[:160]}", inp, traceback.format_exc(limit=3)[-400:])
        loaded_j = None
    # hash: function of the serialized content only; equal for an independently constructed equal configuration
    out = None
    try:
        h = cfg.stable_hash_cfg()
        if not isinstance(h, int) or h != h0:
            _fail(res, "C18:hash:definition", "stable_hash_cfg() is not sha256 of the JSON text of serialize() read as an integer (or serialising twice gives different text)", inp, h)
        twin = make(json.loads(json.dumps(spec)))
        if twin.stable_hash_cfg() != h or not (twin == cfg):
            _fail(res, "C18:hash:equal-configs", "two configurations constructed from the same field values have different hashes / compare unequal", inp, None)
        fn = cfg.to_fname()
        want_fn = own_fname(spec, h0)
        if fn != want_fn:
            _fail(res, "C18:fname", f"to_fname() = {fn!r}, documented form gives {want_fn!r}", inp, fn)
        out = (h, fn)
    except Exception as e:  # noqa: BLE001
        _fail(res, "C18:hash:raised", f"stable_hash_cfg()/to_fname() raised {type(e).__name__}: {str(e)[:160]}", inp, traceback.format_exc(limit=3)[-400:])
    if loaded is not None:
        check_loaded(res, "C18:roundtrip", spec, cfg, loaded, inp, h0)
    if loaded_j is not None:
        check_loaded(res, "C18:roundtrip-json", spec, cfg, loaded_j, inp, h0)
    return out


def neighbours(spec, field):
    out = []
    for alt in ALT[field]:
        if alt != spec[field]:
            s = dict(spec)
            s[field] = alt
            out.append(s)
    return out


def check_discrimination(res, spec, count=True):
    """every configuration differing from `spec` in exactly one field has a different hash (and compares unequal, except
    for n_mazes which the library documents as not compared)"""
    try:
        base = make(spec)
        hb = base.stable_hash_cfg()
    except Exception as e:  # noqa: BLE001
        _fail(res, "C18:hash:raised", f"{type(e).__name__}: {e}", {"spec": spec}, None)
        return
    for field in FIELDS:
        for other in neighbours(spec, field):
            inp = {"spec": spec, "field": field, "other_value": other[field]}
            if count:
                res.seen((canon_spec(spec), field, json.dumps(other[field], sort_keys=True)), nontrivial=True, sample={"field": field, "a": spec[field], "b": other[field]})
            try:
                o = make(other)
                ho = o.stable_hash_cfg()
            except Exception as e:  # noqa: BLE001
                _fail(res, "C18:hash:raised", f"{type(e).__name__}: {e}", inp, None)
                continue
            if ho == hb:
                _fail(res, f"C18:hash:collision:{field}", f"configurations differing only in {field} ({spec[field]!r} vs {other[field]!r}) have the same hash", inp, ho)
            # multi-step: the identity of a config object follows its CONTENT - ask for hash and file name, edit the object in place, ask again
            try:
                edited = make(spec)
                edited.stable_hash_cfg()
                edited.to_fname()
                setattr(edited, field, getattr(make(other), field))
                he, fe = edited.stable_hash_cfg(), edited.to_fname()
                if he != ho or fe != o.to_fname():
                    _fail(res, f"C18:hash:stale-after-edit:{field}", f"a configuration whose {field} was edited in place after its hash / file name had been asked for has hash {he} / name {fe}, "
                          f"an equal fresh configuration has {ho} / {o.to_fname()}", inp, he)
            except Exception as e:  # noqa: BLE001
                _fail(res, "C18:hash:raised", f"in-place edit of {field}: {type(e).__name__}: {e}", inp, None)
            if field != "n_mazes":
                try:
                    if o == base:
                        _fail(res, f"C18:eq:blind:{field}", f"configurations differing only in {field} compare equal", inp, None)
                except Exception as e:  # noqa: BLE001
                    _fail(res, f"C18:eq:blind:{field}", f"comparison raised {type(e).__name__}: {e}", inp, None)


# ----------------------------------------------------------------------------- other processes / hash seeds
CHILD_CODE = "import sys, json, warnings; warnings.simplefilter('ignore'); from bounded import C18; C18._child()"


def _child():
    warnings.simplefilter("ignore")
    specs = json.loads(sys.stdin.read())
    out = []
    for s in specs:
        c = make(s)
        out.append([str(c.stable_hash_cfg()), c.to_fname()])
    sys.stdout.write("@@RESULT@@" + json.dumps(out))


def check_processes(res, specs, count=True):
    here = [[str(make(s).stable_hash_cfg()), make(s).to_fname()] for s in specs]
    procs = []
    for hs in ("0", "1", "12345"):
        env = dict(os.environ)
        env["PYTHONHASHSEED"] = hs
        env["PYTHONPATH"] = os.pathsep.join(p for p in sys.path if p)
        env["PYTHONDONTWRITEBYTECODE"] = "1"
        p = subprocess.Popen([sys.executable, "-W", "ignore", "-c", CHILD_CODE], stdin=subprocess.PIPE, stdout=subprocess.PIPE, stderr=subprocess.PIPE, env=env, text=True)
        p.stdin.write(json.dumps(specs))
        p.stdin.close()
        procs.append((hs, p))
    for hs, p in procs:
        outtxt = p.stdout.read()
        err = p.stderr.read()
        p.wait()
        if "@@RESULT@@" not in outtxt:
            res.errors.append(f"child with PYTHONHASHSEED={hs} failed: rc={p.returncode} {err[-600:]}")
            continue
        there = json.loads(outtxt.split("@@RESULT@@", 1)[1])
        for s, a, b in zip(specs, here, there):
            if count:
                res.seen((canon_spec(s), hs), nontrivial=True, sample={"PYTHONHASHSEED": hs, "fname": b[1]})
            if a[0] != b[0]:
                _fail(res, "C18:hash:process-dependent", f"hash differs in a fresh process with PYTHONHASHSEED={hs}", {"spec": s, "hashseed": hs}, b[0])
            if a[1] != b[1]:
                _fail(res, "C18:fname:process-dependent", f"file name differs in a fresh process with PYTHONHASHSEED={hs}: {a[1]} vs {b[1]}", {"spec": s, "hashseed": hs}, b[1])


# ----------------------------------------------------------------------------- collection configurations
def check_collection(res, member_specs, name, seed, count=True):
    from maze_dataset.dataset.collected_dataset import MazeDatasetCollectionConfig
    from maze_dataset.generation.generators import GENERATORS_MAP

    inp = {"collection": member_specs, "name": name, "seed": seed}
    if count:
        res.seen((name, seed, json.dumps(member_specs, sort_keys=True)), nontrivial=len(member_specs) > 0, sample={"name": name, "members": len(member_specs)})
    cfg = MazeDatasetCollectionConfig(name=name, seed=seed, maze_dataset_configs=[make(s) for s in member_specs])
    try:
        ser = cfg.serialize()
        variants = [("C18:collection:roundtrip", MazeDatasetCollectionConfig.load(ser)), ("C18:collection:roundtrip-json", MazeDatasetCollectionConfig.load(json.loads(json.dumps(ser))))]
    except Exception as e:  # noqa: BLE001
        _fail(res, "C18:collection:raised", f"collection configuration round trip raised {type(e).__name__}: {str(e)[:160]}", inp, traceback.format_exc(limit=3)[-400:])
        return
    for pre, loaded in variants:
        if not isinstance(loaded, MazeDatasetCollectionConfig):
            _fail(res, f"{pre}:type", f"loaded a {type(loaded).__name__}", inp, None)
            continue
        if loaded.name != name or loaded.seed != seed or len(loaded.maze_dataset_configs) != len(member_specs):
            _fail(res, f"{pre}:fields", f"name/seed/member count came back as {loaded.name!r}/{loaded.seed!r}/{len(loaded.maze_dataset_configs)}", inp, None)
        for k, (s, m) in enumerate(zip(member_specs, loaded.maze_dataset_configs)):
            sub = BoundedResult("sub", "sub")
            check_loaded(sub, pre + ":member", s, cfg.maze_dataset_configs[k], m, {**inp, "member": k})
            for f in sub.failures:
                _fail(res, f["key"], f["what"], f["input"], f["observed"])
        try:
            if not (loaded == cfg) or cfg.diff(loaded):
                _fail(res, f"{pre}:eq", "loaded collection configuration is not equal to the original", inp, None)
            if loaded.stable_hash_cfg() != cfg.stable_hash_cfg() or loaded.to_fname() != cfg.to_fname():
                _fail(res, f"{pre}:hash", "hash / file name of the loaded collection configuration differs", inp, None)
            if loaded.n_mazes != sum(s["n_mazes"] for s in member_specs):
                _fail(res, f"{pre}:fields", "total maze count differs", inp, loaded.n_mazes)
        except Exception as e:  # noqa: BLE001
            _fail(res, f"{pre}:eq", f"comparison raised {type(e).__name__}: {str(e)[:120]}", inp, None)
    # identity separates collections that differ in one member field / name / seed
    try:
        h = cfg.stable_hash_cfg()
        if h != own_hash(cfg):
            _fail(res, "C18:collection:hash-definition", "collection hash is not sha256 of the JSON text of serialize()", inp, None)
        alts = [MazeDatasetCollectionConfig(name=name + "x", seed=seed, maze_dataset_configs=[make(s) for s in member_specs]), MazeDatasetCollectionConfig(name=name, seed=seed + 1, maze_dataset_configs=[make(s) for s in member_specs])]
        if member_specs:
            for field in ("grid_n", "seed", "maze_ctor", "endpoint_kwargs", "applied_filters"):
                ms = [dict(s) for s in member_specs]
                ms[-1] = neighbours(ms[-1], field)[0]
                alts.append(MazeDatasetCollectionConfig(name=name, seed=seed, maze_dataset_configs=[make(s) for s in ms]))
            alts.append(MazeDatasetCollectionConfig(name=name, seed=seed, maze_dataset_configs=[make(s) for s in member_specs[:-1]]))
        for o in alts:
            if o.stable_hash_cfg() == h:
                _fail(res, "C18:collection:hash-collision", "two different collection configurations have the same hash", inp, None)
    except Exception as e:  # noqa: BLE001
        _fail(res, "C18:collection:raised", f"hash of a collection configuration raised {type(e).__name__}: {str(e)[:160]}", inp, traceback.format_exc(limit=3)[-400:])


# ----------------------------------------------------------------------------- scope
def all_specs():
    for g, kw, ek, seed, fl, basic in itertools.product(GENS, KWARGS_SETS, ENDPOINT_SETS, SEEDS, FILTER_LISTS, BASICS):
        yield spec_of(g, kw, ek, seed, fl, basic)


def _worker(args):
    """check a list of configurations; returns (evaluations, distinct, samples, failures, errors, identities)"""
    warnings.simplefilter("ignore")
    specs = args
    res = BoundedResult("w", "w")
    ident = []
    for s in specs:
        r = check_config(res, s)
        if r is not None:
            ident.append((canon_spec(s), str(r[0]), r[1]))
    return res.evaluations, res.distinct, res.samples, res.failures, res.errors, ident


def run(tier, seed):
    warnings.simplefilter("ignore")
    rng = np.random.default_rng(seed)
    full = list(all_specs())
    res = BoundedResult(
        "C18.config-roundtrip",
        rule="cross product generators(5) x maze_ctor_kwargs sets(6) x endpoint option sets(8, incl. coordinate lists such as allowed_start=[(0,0),(1,2)]) x seeds(3) x "
        "applied_filters lists(4, args tuples and kwargs incl. None) x name/grid_n/n_mazes(4) = 11520 configurations: "
        + ("all of them" if tier == "thorough" else "a seeded sample of 1400 plus every configuration that differs from the first one in at most one factor")
        + "; each: load(serialize()) and load(json.loads(json.dumps(serialize()))) give back every field (value AND type: coordinate tuples, args tuples, the generator "
        "function object registered in GENERATORS_MAP), loaded == cfg, cfg.diff(loaded) empty, equal hash and file name; stable_hash_cfg() == sha256 of the JSON text; "
        "to_fname() == sanitize(name-g<grid_n>-n<short count>-a_<generator without gen_>-h<hash mod 10^5>) built independently; over all checked configurations the hash is "
        "injective on the field tuple; distinct by field tuple",
        exhaustive=False,  # exhaustive over the stated cross product only in the thorough tier, never over all configurations
        functions=["MazeDatasetConfig.serialize", "MazeDatasetConfig.load", "_load_maze_ctor", "_load_applied_filters", "MazeDatasetConfig.stable_hash_cfg", "MazeDatasetConfig.to_fname", "GPTDatasetConfig.__post_init__"],
    )
    t0 = time.time()
    try:
        if tier == "thorough":
            chosen = full
        else:
            first = full[0]
            def factors(s):
                return [s["maze_ctor"], s["maze_ctor_kwargs"], s["endpoint_kwargs"], s["seed"], s["applied_filters"], [s["name"], s["grid_n"], s["n_mazes"]]]

            f0 = factors(first)
            near = [s for s in full if sum(1 for x, y in zip(factors(s), f0) if x != y) <= 1]
            idx = rng.choice(len(full), size=1400, replace=False)
            chosen, seen_c = [], set()
            for s in near + [full[int(i)] for i in idx]:
                c = canon_spec(s)
                if c not in seen_c:
                    seen_c.add(c)
                    chosen.append(s)
        ident = []
        parts = [_worker(chosen)]  # single process: forked workers re-seeding torch are slower than one process
        for ev, dist, samples, fails, errs, idn in parts:
            res.evaluations += ev
            res.distinct |= dist
            for smp in samples:
                if len(res.samples) < 3:
                    res.samples.append(smp)
            for f in fails:
                _fail(res, f["key"], f["what"], f["input"], f["observed"])
            res.errors.extend(errs[:3])
            ident.extend(idn)
        # injectivity of the hash over everything checked (every pair, not only one-field neighbours)
        by_hash = {}
        for c, h, fn in ident:
            by_hash.setdefault(h, set()).add(c)
        for h, cs in by_hash.items():
            if len(cs) > 1:
                a, b = sorted(cs)[:2]
                sa, sb = json.loads(a), json.loads(b)
                diff = [f for f in FIELDS if sa[f] != sb[f]]
                _fail(res, "C18:hash:collision:" + (diff[0] if len(diff) == 1 else "multi"), f"two configurations differing in {diff} have the same hash", {"spec": sa, "other": sb}, h)
    except Exception as e:  # noqa: BLE001
        res.errors.append(f"{type(e).__name__}: {e}\n{traceback.format_exc(limit=5)}")
    res.seconds = time.time() - t0

    res2 = BoundedResult(
        "C18.hash-discriminates",
        rule=("120" if tier == "thorough" else "24") + " seeded base configurations from the cross product (plus the all-default one) x every alternative value of exactly ONE of name, grid_n, n_mazes, "
        "maze_ctor, maze_ctor_kwargs, endpoint_kwargs (incl. same coordinates in another order / one coordinate changed), seed, applied_filters (incl. same filters in another order, "
        "args vs kwargs spelling, a repeated filter): hashes must differ, and == must be False (n_mazes excepted, documented as not compared); distinct by (base, field, value)",
        exhaustive=False,
        functions=["MazeDatasetConfig.stable_hash_cfg"],
    )
    t1 = time.time()
    try:
        bases = [full[0]] + [full[int(i)] for i in rng.choice(len(full), size=(120 if tier == "thorough" else 24), replace=False)]
        for b in bases:
            check_discrimination(res2, b)
    except Exception as e:  # noqa: BLE001
        res2.errors.append(f"{type(e).__name__}: {e}\n{traceback.format_exc(limit=5)}")
    res2.seconds = time.time() - t1

    res3 = BoundedResult(
        "C18.hash-across-processes",
        rule=("60" if tier == "thorough" else "30") + " configurations (seeded from the cross product, covering every generator, endpoint option set and filter list) constructed again in 3 fresh interpreter "
        "processes with PYTHONHASHSEED in {0,1,12345}: stable_hash_cfg() and to_fname() identical to this process",
        exhaustive=False,
        functions=["MazeDatasetConfig.stable_hash_cfg", "MazeDatasetConfig.to_fname"],
    )
    t2 = time.time()
    try:
        k = 60 if tier == "thorough" else 30
        cover = [spec_of(GENS[i % 5], KWARGS_SETS[i % 6], ENDPOINT_SETS[i % 8], SEEDS[i % 3], FILTER_LISTS[i % 4], BASICS[i % 4]) for i in range(k // 2)]
        cover += [full[int(i)] for i in rng.choice(len(full), size=k - len(cover), replace=False)]
        check_processes(res3, cover)
    except Exception as e:  # noqa: BLE001
        res3.errors.append(f"{type(e).__name__}: {e}\n{traceback.format_exc(limit=5)}")
    res3.seconds = time.time() - t2

    res4 = BoundedResult(
        "C18.collection-config",
        rule="MazeDatasetCollectionConfig with 0..4 member configurations drawn from the cross product (all generators, coordinate-list endpoint options, filter lists): "
        "load(serialize()) and through JSON text give back name, seed and every member field by field (same checks as single configurations), equal hash/file name; "
        "hash == sha256 of the JSON text and differs when the name, the seed, one member field or the member count differs",
        exhaustive=False,
        functions=["MazeDatasetCollectionConfig.serialize", "MazeDatasetCollectionConfig.load", "MazeDatasetCollectionConfig.stable_hash_cfg"],
    )
    t3 = time.time()
    try:
        n_coll = 40 if tier == "thorough" else 12
        for k in range(n_coll):
            size = k % 5
            members = [dict(full[int(i)]) for i in rng.choice(len(full), size=size, replace=False)]
            for j, m in enumerate(members):
                m["name"] = f"{m['name']}-{j}"
            check_collection(res4, members, f"coll {k}", [42, 7][k % 2])
    except Exception as e:  # noqa: BLE001
        res4.errors.append(f"{type(e).__name__}: {e}\n{traceback.format_exc(limit=5)}")
    res4.seconds = time.time() - t3
    return [res, res2, res3, res4]


def replay(check, inp):
    """re-run one recorded input; True iff it now passes"""
    warnings.simplefilter("ignore")
    res = BoundedResult("replay", "replay")
    if "collection" in inp:
        check_collection(res, inp["collection"], inp["name"], int(inp["seed"]), count=False)
    elif "hashseed" in inp:
        check_processes(res, [inp["spec"]], count=False)
    elif "field" in inp:
        spec = inp["spec"]
        base, other = make(spec), dict(spec)
        other[inp["field"]] = inp["other_value"]
        o = make(other)
        if o.stable_hash_cfg() == base.stable_hash_cfg():
            res.fail(f"C18:hash:collision:{inp['field']}", "same hash", inp, None)
        if inp["field"] != "n_mazes" and o == base:
            res.fail(f"C18:eq:blind:{inp['field']}", "compare equal", inp, None)
    elif "other" in inp:
        if make(inp["spec"]).stable_hash_cfg() == make(inp["other"]).stable_hash_cfg():
            res.fail(inp.get("failed_key", "C18:hash:collision"), "same hash", inp, None)
    else:
        check_config(res, inp["spec"], count=False)
    want = inp.get("failed_key") if isinstance(inp, dict) else None
    mine = [f for f in res.failures if want is None or f["key"] == want]
    for f in mine:
        print("  still failing:", f["key"], f["what"])
    for f in res.failures:
        if f not in mine:
            print("  (another check fails on this input:", f["key"] + ")")
    for e in res.errors:
        print("  replay error:", e)
    return not mine and not res.errors
