"""C03 - every item of a generated dataset is a correctly solved maze."""
ID = "C03"
LEVEL = "exploration"
LEVEL_TEXT = 'Bounded (run-time contract checking of the real generate pipeline): the per-item contract (grid size, solution endpoints = start/end, in grid, along connections, simple, shortest by BFS, endpoint options, dataset length) is evaluated on every element of datasets generated serially and with worker pools of sizes 1,2,3,5 over a cross product of generators, kwargs, grid sizes, seeds and endpoint options. The per-item facts themselves rest on the generator contracts (C01/C12) and the solver contract (C02), which are proved for every RNG state.'
LEVEL_NOTE = 'Trusted: multiprocessing.Pool.imap delivers one result per task in task order. Optimality of solutions is bounded (C02).'
TECHNIQUE = "bounded stand-in of the contract-based verifier: run-time checking of the real code against an independent executable statement over an enumerated scope (no function of this property is in the verified subset yet)"
CONTRACT_MODULES = []
PROVE = []
ASSUMPTIONS = []
EXPLANATION = "see DESIGN.md C03"


def run(run):
    from props._std import run_bounded

    if PROVE:
        run.prove(PROVE)
    run_bounded(run, "C03")
