#!/bin/sh
# usage: tools/run_bounded.sh <ID> [quick|thorough] [seed]     (VERIF_REPO=<scratch copy root> to test a modified tree)
HERE="$(cd "$(dirname "$0")/.." && pwd)"
"$HERE/tools/mkvenv.sh" >/dev/null 2>&1
REPO="${VERIF_REPO:-/repo}"
cd "$HERE"
PYTHONPATH="$REPO:$HERE" PYTHONDONTWRITEBYTECODE=1 MPLBACKEND=Agg exec "$HERE/.venv312/bin/python" -W ignore tools/run_bounded.py "$@"
