"""Sidecar contracts for the leaves of tokenization in maze_dataset/token_utils.py (C06, C13)."""
from pyvc.contracts import contract, Loop
from pyvc import tys as T

F = "maze_dataset/token_utils.py"


@contract(F, "get_cardinal_direction")
class get_cardinal_direction:
    params = dict(coords=T.ArrT((2, 2), "int"))
    requires = ["abs(coords[1][0] - coords[0][0]) + abs(coords[1][1] - coords[0][1]) == 1"]
    # rows grow southwards, columns eastwards (the drawing convention of the maze)
    ensures = {
        "C06.north": "implies(coords[1][0] == coords[0][0] - 1, result == 'NORTH')",
        "C06.south": "implies(coords[1][0] == coords[0][0] + 1, result == 'SOUTH')",
        "C06.west": "implies(coords[1][1] == coords[0][1] - 1, result == 'WEST')",
        "C06.east": "implies(coords[1][1] == coords[0][1] + 1, result == 'EAST')",
    }
    result = T.Str
    props = ["C06"]


_STEP1 = "abs(coords[1][0] - coords[0][0]) + abs(coords[1][1] - coords[0][1])"
_STEP2 = "abs(coords[2][0] - coords[1][0]) + abs(coords[2][1] - coords[1][1])"
_D1 = "(coords[1][0] - coords[0][0], coords[1][1] - coords[0][1])"
_D2 = "(coords[2][0] - coords[1][0], coords[2][1] - coords[1][1])"
# turning left on the drawn maze (rows down, columns right): heading (dr, dc) -> (-dc, dr);  right: (dc, -dr)
_LEFT = f"({_D2}[0] == -{_D1}[1] and {_D2}[1] == {_D1}[0])"
_RIGHT = f"({_D2}[0] == {_D1}[1] and {_D2}[1] == -{_D1}[0])"


@contract(F, "get_relative_direction")
class get_relative_direction:
    params = dict(coords=T.ArrT((3, 2), "int"))
    ensures = {
        "C06.stay": f"implies({_STEP2} == 0, result == 'STAY')",
        "C06.backward": f"implies({_STEP1} == 1 and {_STEP2} == 1 and coords[0][0] == coords[2][0] and coords[0][1] == coords[2][1], result == 'BACKWARD')",
        "C06.forward": f"implies({_STEP1} == 1 and {_STEP2} == 1 and {_D1}[0] == {_D2}[0] and {_D1}[1] == {_D2}[1], result == 'FORWARD')",
        "C06.left": f"implies({_STEP1} == 1 and {_STEP2} == 1 and {_LEFT}, result == 'LEFT')",
        "C06.right": f"implies({_STEP1} == 1 and {_STEP2} == 1 and {_RIGHT}, result == 'RIGHT')",
    }
    raises = {"ValueError": f"{_STEP1} > 1 or {_STEP2} > 1 or ({_STEP1} == 0 and {_STEP2} != 0)"}
    result = T.Str
    props = ["C06"]


@contract(F, "is_connection")
class is_connection:
    params = dict(edges=T.GridT("int", [None, 2, 2]), connection_list=T.GridT("bool", [2, None, None]))
    lets = dict(n="edges.shape[0]", m="maze_of(connection_list)")
    # every row is a unit lattice edge inside the grid (callers pass lattice edges)
    requires = ["forall(lambda k: in_grid(m, edges[k, 0]) and in_grid(m, edges[k, 1]) and lat_adj(edges[k, 0], edges[k, 1]), (0, n))"]
    ensures = {
        "C13.is_connection.shape": "result.shape == (n,)",
        # the batch edge test describes the same graph as the connection structure
        "C13.is_connection": "forall(lambda k: result[k] == edge(m, edges[k, 0], edges[k, 1]), (0, n))",
    }
    result = lambda env: T.GridT("bool", [env["n"]])
    props = ["C13", "C06"]
