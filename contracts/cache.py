"""Sidecar contract for the on-disk dataset cache (C11): the decision logic of GPTDataset.from_config against an ADVERSARIAL cache file.

Everything from_config talks to is an opaque object (the dataset class, the configuration, paths, the ZANJ handle, datasets): their
methods are unknown functions, except that the contract lets `cls.read` raise ANY Exception (a missing, empty, truncated or corrupted
file - whatever the damage, the library call either raises or returns some dataset object with some stored configuration) and lets
`cls.download` raise NotImplementedError. What is proved is what from_config does with those outcomes."""
from pyvc.contracts import contract
from pyvc import tys as T

F = "maze_dataset/dataset/dataset.py"
_DIFF = "cfg.diff(result.cfg, of_serialized=True)"
# the one tolerated difference: the stored configuration records, AFTER exactly the requested filters, the collect_generation_meta entry that the minimal
# storage formats add on save - and nothing else differs
_TOLERATED = (f"(list({_DIFF}.keys()) == ['applied_filters'] and {_DIFF}['applied_filters']['other'] == list({_DIFF}['applied_filters']['self'])"
              " + [{'name': 'collect_generation_meta', 'args': (), 'kwargs': {}}])")
_FRESH = "cls.generate(cfg, verbose=False, **kwargs)._apply_filters_from_config()"


@contract(F, "GPTDataset.from_config")
class from_config:
    params = dict(cls=T.ObjT("cls"), cfg=T.ObjT("cfg"), do_generate=T.Bool, load_local=T.Bool, save_local=T.Bool, zanj=T.OneOf(T.NoneT(), T.ObjT("zanj")),
                  do_download=T.Bool, local_base_path=T.ObjT("path"), except_on_config_mismatch=T.Bool, allow_generation_metadata_filter_mismatch=T.Bool,
                  verbose=T.Const(False), kwargs=T.ObjT("kwargs"))
    ext_raises = {"read": ["Exception"], "download": ["NotImplementedError"]}
    ext_bool = ("exists",)
    ext_events = ("read", "download", "generate", "save", "_apply_filters_from_config")
    ensures = {
        # (a) whatever is returned has the requested configuration in every compared field, up to the one tolerated difference
        #     (cfg.diff ignores exactly the maze count) - unless the caller asked for a warning instead of an error
        "C11.config-matches": f"(not {_DIFF}) or (allow_generation_metadata_filter_mismatch and {_TOLERATED}) or (not except_on_config_mismatch)",
        # (b) nothing was read successfully (no file, or read raised) and nothing downloaded: the result is a fresh generation with the configured filters applied
        "C11.regenerates": f"implies(n_calls('generate') == 1, same_value(result, {_FRESH}))",
        "C11.generate-at-most-once": "n_calls('generate') <= 1 and n_calls('read') <= 1",
        # (c) a loadable file is left behind: the returned dataset is saved whenever it did not come from the file and saving is enabled
        # (c) a loadable file is left behind: the returned dataset itself is saved exactly when saving is enabled and it did not come from the file
        #     (a `read` that returned is recorded as a call; a `read` that raised is not)
        "C11.saved": "n_calls('save') == ite(save_local and n_calls('read') == 0, 1, 0)",
        "C11.saved-what": "(call_receiver('save', 0) == result) if n_calls('save') == 1 else True",
        # ... under the very name the request is looked up by (the file a later identical request will find), not a name derived from anything else
        "C11.saved-where": "(call_arg('save', 0, 0) == Path(local_base_path) / Path(f'{cfg.to_fname()}.zanj')) if n_calls('save') == 1 else True",
        "C11.read-where": "(call_arg('read', 0, 0) == Path(local_base_path) / Path(f'{cfg.to_fname()}.zanj')) if n_calls('read') == 1 else True",
        # a dataset read from the file is served as it is (after the check above)
        "C11.served-from-file": "(call_result('read', 0) == result) if n_calls('read') == 1 else True",
    }
    # the only exception that leaves from_config is the documented ValueError (no way to load / nothing obtained / configuration mismatch) -
    # in particular nothing `read` raises propagates - and nothing has been saved when it is raised (check before save)
    raises = {"ValueError": "n_calls('save') == 0"}
    props = ["C11"]
