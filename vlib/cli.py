import argparse
import os
import sys


def main():
    ap = argparse.ArgumentParser()
    ap.add_argument("pid")
    ap.add_argument("--tier", default=os.environ.get("VERIF_TIER", "quick"), choices=["quick", "thorough"])
    ap.add_argument("--replay", default=None)
    a = ap.parse_args()
    seed = int(os.environ.get("VERIF_SEED", "0") or 0)
    if a.replay:
        from vlib.replay import run_replay_file

        sys.exit(run_replay_file(a.pid, a.replay))
    from vlib.runner import run_property

    sys.exit(run_property(a.pid, a.tier, seed))


if __name__ == "__main__":
    main()
