"""Copy a confirmed seeded change from /tmp/mut/<PID>/<mN>/ into /verif/seeded/<PID>-<mN>/ with meta.json.
usage: seed_keep.py <PID> <mN> "<what it needs to manifest>" "<what breaks>" """
import json, os, re, shutil, sys
pid, m, needs, breaks = sys.argv[1:5]
src = f"/tmp/mut/{pid}/{m}"
dst = f"/verif/seeded/{pid}-{m}"
os.makedirs(dst, exist_ok=True)
for f in ("patch.diff", "demo.py"):
    shutil.copy(os.path.join(src, f), os.path.join(dst, f))
if os.path.exists(os.path.join(src, "notes.md")):
    shutil.copy(os.path.join(src, "notes.md"), os.path.join(dst, "author_notes.md"))
res = open(f"/tmp/mut/results/{pid}-{m}.txt").read()
def grab(pat, default=None):
    mm = re.search(pat, res)
    return mm.group(1) if mm else default
checks = {}
for mm in re.finditer(r"check_(C\d+) exit=(\d+) (\d+) violation lines; ?(.*)", res):
    checks[mm.group(1)] = {"exit": int(mm.group(2)), "violation_lines": int(mm.group(3)), "first": mm.group(4).strip()}
    try:
        log = open(f"/tmp/mut/results/{pid}-{m}.check_{mm.group(1)}.log").read()
        names = [os.path.basename(x) for x in re.findall(r"^VIOLATION property=\S+ replay=(\S+)", log, re.M)]
        checks[mm.group(1)]["violations"] = [re.sub(r"-[0-9a-f]{10}\.json$", "", n) for n in names]
        checks[mm.group(1)]["by"] = sorted({"bounded stand-in" if re.match(r"C\d\d_", n) else "proof obligation" for n in names})
    except OSError:
        pass
def _tests_from_log():
    try:
        last = open(f"/tmp/mut/results/{pid}-{m}.tests.log").read().strip().splitlines()[-1]
        rt = grab(r"retest_exit=\d+ (.*)", None)
        return last + " (full suite run of the first evaluation of this change)" + (f"; the one failing test re-run alone: {rt}" if rt else "")
    except OSError:
        return "not re-run in this evaluation (see note)"


extra = json.loads(sys.argv[5]) if len(sys.argv) > 5 else {}
meta = {
    "id": f"{pid}-{m}",
    "property": pid[:3],
    "breaks": breaks,
    "needs_to_manifest": needs,
    "files": sorted(set(re.findall(r"^\+\+\+ b/(\S+)", open(os.path.join(dst, "patch.diff")).read(), re.M))),
    "confirmed_by_me": {
        "how": "tools/seed_eval.sh in a scratch git worktree of /repo (removed afterwards): demo on the clean tree, patch applied with git apply, demo on the patched tree, "
               "full test suite on the patched tree (pytest -n 8), then the listed checks with VERIF_REPO=<patched worktree>",
        "demo_exit_clean_tree": int(grab(r"demo_clean_exit=(\d+)", -1)),
        "demo_exit_patched_tree": int(grab(r"demo_patched_exit=(\d+)", -1)),
        "test_suite_patched": (grab(r"tests_exit=\d+ (.*)", None) + (f"; test_all_instances_tokenizerelement (memory-hungry, fails under load on the unchanged tree too) re-run alone: {grab(r'retest_exit=[0-9]+ (.*)', '')}" if grab(r"retest_exit=\d+ (.*)", None) else "")) if grab(r"tests_exit=\d+ (.*)", None) else _tests_from_log(),
    },
    "checks_run_against_it": checks,
    "detected": any(c["exit"] == 1 and c["violation_lines"] > 0 for c in checks.values()),
}
meta.update(extra)
json.dump(meta, open(os.path.join(dst, "meta.json"), "w"), indent=1)
print(dst, "detected" if meta["detected"] else "NOT DETECTED", checks)
