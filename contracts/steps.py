"""Sidecar contracts for the path part of modular tokenization (C06): which solution cells are step ends, and how one step is described."""
from pyvc.contracts import contract
from pyvc import tys as T
import contracts.lattice_maze as CL  # noqa: F401
import contracts.token_utils  # noqa: F401

MT = "maze_dataset/tokenization/maze_tokenizer.py"
SOLVED_M = CL.SOLVED_M
_N = "maze.solution.shape[0]"


@contract(MT, "StepSizes.Singles._step_single_indices")
class singles_indices:
    params = dict(self=T.RecT("Singles"), maze=SOLVED_M)
    ensures = {"C06.singles": f"len(result) == {_N} and forall(lambda k: result[k] == k, (0, {_N}))"}
    props = ["C06"]


@contract(MT, "StepSizes.Forks._step_single_indices")
class forks_indices:
    params = dict(self=T.RecT("Forks"), maze=SOLVED_M)
    requires = [r.replace("self", "maze") for r in CL.get_solution_forking_points.requires]
    # the forks of the solution and always both of its ends
    ensures = {"C06.forks": "is_filter(result, maze.solution.shape[0], lambda k: " + CL._FORK.replace("self", "maze").replace("always_include_endpoints", "True") + ")"}
    props = ["C06"]


@contract(MT, "StepSizes._StepSize.step_start_end_indices")
class step_start_end_indices:
    """steps are the consecutive pairs of the step-end indices, whatever the step size"""
    params = dict(self=T.RecT("_StepSize", _step_single_indices=T.FuncT(T.ListT(T.Int))), maze=T.ObjT("maze"))
    ensures = {
        "C06.steps.count": "len(result) == ite(len(self._step_single_indices(maze)) >= 1, len(self._step_single_indices(maze)) - 1, 0)",
        "C06.steps.pairs": "forall(lambda k: result[k][0] == self._step_single_indices(maze)[k] and result[k][1] == self._step_single_indices(maze)[k + 1], (0, len(result)))",
    }
    options = dict(no_concrete=True)
    props = ["C06"]


_S = "maze.solution[start_index]"
_S1 = "maze.solution[start_index + 1]"
_STEP_OK = f"abs({_S1}[0] - {_S}[0]) + abs({_S1}[1] - {_S}[1]) == 1"


@contract(MT, "StepTokenizers.Cardinal.to_tokens")
class cardinal_to_tokens:
    params = dict(self=T.RecT("Cardinal"), maze=SOLVED_M, start_index=T.Nat, end_index=T.Nat, kwargs=T.Const({}))
    requires = [f"start_index + 1 < {_N}", _STEP_OK]
    # one token: the direction in which the path LEAVES the step's start (rows grow southwards, columns eastwards)
    ensures = {
        "C06.cardinal.one-token": "len(result) == 1",
        "C06.cardinal.north": f"implies({_S1}[0] == {_S}[0] - 1, result[0] == 'NORTH')",
        "C06.cardinal.south": f"implies({_S1}[0] == {_S}[0] + 1, result[0] == 'SOUTH')",
        "C06.cardinal.west": f"implies({_S1}[1] == {_S}[1] - 1, result[0] == 'WEST')",
        "C06.cardinal.east": f"implies({_S1}[1] == {_S}[1] + 1, result[0] == 'EAST')",
    }
    props = ["C06"]


import contracts.token_utils as TU  # noqa: E402

# the cell the path came from: the previous solution cell, or - for the very first step - the cell SOUTH of the start (the agent is assumed to face north)
_P0 = "(ite(start_index == 0, maze.solution[0][0] + 1, maze.solution[start_index - 1][0]))"
_P1 = "(ite(start_index == 0, maze.solution[0][1], maze.solution[start_index - 1][1]))"


def _subst(clause):
    return (clause.replace("coords[0][0]", _P0).replace("coords[0][1]", _P1)
            .replace("coords[1][0]", f"{_S}[0]").replace("coords[1][1]", f"{_S}[1]")
            .replace("coords[2][0]", f"{_S1}[0]").replace("coords[2][1]", f"{_S1}[1]").replace("result ==", "result[0] =="))


@contract(MT, "StepTokenizers.Relative.to_tokens")
class relative_to_tokens:
    params = dict(self=T.RecT("Relative"), maze=SOLVED_M, start_index=T.Nat, end_index=T.Nat, kwargs=T.Const({}))
    requires = [f"start_index + 1 < {_N}", _STEP_OK,
                f"start_index == 0 or abs({_S}[0] - maze.solution[start_index - 1][0]) + abs({_S}[1] - maze.solution[start_index - 1][1]) == 1"]
    # one token: the turn the path makes when it LEAVES the step's start, relative to the direction it arrived from
    ensures = dict({"C06.relative.one-token": "len(result) == 1"}, **{lab.replace("C06.", "C06.relative."): _subst(cl) for lab, cl in TU.get_relative_direction.ensures.items()})
    props = ["C06"]

