"""C02 - the shortest-path solver is sound, optimal and complete on every maze."""
ID = "C02"
LEVEL = "proof"
LEVEL_TEXT = (
    "Soundness and completeness are proved without bound for all grids, connection structures and cell pairs: the returned array starts at "
    "the start, ends at the end, stays in the grid, moves only along connections, repeats no cell, is the one-cell path for a self query, and "
    "is returned only if the end is reachable; ValueError is raised only if it is unreachable; no other exception escapes (KeyError/IndexError "
    "obligations). The A* loop invariant (open/closed disjoint, predecessor structure with g decreasing by one, closed set edge-closed into the "
    "discovered set, scores defined where read) is a sidecar contract on the real AST. OPTIMALITY (minimum number of steps) is NOT proved: it is "
    "decided by the bounded stand-in (all graphs up to 2x3/3x2, sampled or all 4096 graphs on 3x3, all ordered pairs, random larger graphs, against BFS)."
)
LEVEL_NOTE = (
    "Trusted: pyvc encoding; min(set, key=) and list(set) library contracts; lemma reach_induction; floats of the score tables as reals. "
    "Optimality only bounded. Termination not proved."
)
TECHNIQUE = "contract-based deductive verification (A* loop invariants over the real AST, z3) + bounded comparison with BFS for optimality"
CONTRACT_MODULES = ["contracts.lattice_maze", "contracts.solver"]
F = "maze_dataset/maze/lattice_maze.py"
PROVE = [
    (F, "LatticeMaze.heuristic"),
    (F, "LatticeMaze.nodes_connected"),
    (F, "LatticeMaze.get_coord_neighbors"),
    (F, "LatticeMaze.find_shortest_path"),
]
ASSUMPTIONS = ["start and end are in-grid cells (callers pass cells of the maze)"]
EXPLANATION = "see DESIGN.md C02"


def run(run):
    from props._std import run_bounded

    run.prove(PROVE)
    run_bounded(run, "C02")
