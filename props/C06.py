"""C06 - modular tokenization is a faithful, decodable encoding of the maze."""
ID = "C06"
LEVEL = "exploration"
LEVEL_TEXT = "PROVED (unbounded, z3): the two leaf functions that give direction tokens their meaning - get_cardinal_direction (rows grow southwards, columns eastwards) and get_relative_direction (STAY/BACKWARD/FORWARD and LEFT/RIGHT as rotations on the drawn maze, ValueError exactly for non-neighbouring or indeterminate inputs). Bounded, with the statement's own quantifier: an independent decoder configured only from the tokenizer's parameters recovers regions, edge sets with marks, origin, target and step sequences, exhaustively per region over all 216 adjacency-list and 1008 path element configurations (a stratified slice in the quick tier) plus a pairwise-covering set of full configurations, on mazes of all three kinds."
LEVEL_NOTE = "Trusted: nothing beyond the harness's own decoder; the dynamic composition of tokenizer elements is outside the verified subset."
TECHNIQUE = "contracts on the leaf functions discharged by z3 (pyvc) + bounded stand-in of the contract-based verifier: run-time checking of the real code against an independent executable statement over an enumerated scope (the proved leaf functions are listed in evidence; the property as a whole is decided by the bounded stand-in)"
CONTRACT_MODULES = ['contracts.token_utils']
PROVE = [('maze_dataset/token_utils.py', 'get_cardinal_direction'), ('maze_dataset/token_utils.py', 'get_relative_direction')]
ASSUMPTIONS = []
EXPLANATION = "see DESIGN.md C06"


def run(run):
    from props._std import run_bounded

    if PROVE:
        run.prove(PROVE)
    run_bounded(run, "C06")
