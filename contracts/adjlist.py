"""Sidecar contract for the adjacency-list view (C13): connection_list_to_adj_list lists every connection exactly once, in either orientation."""
from pyvc.contracts import contract, Loop, REGISTRY
from pyvc import tys as T
import contracts.lattice_maze  # noqa: F401

TU = "maze_dataset/token_utils.py"
CONN = T.GridT("bool", [2, None, None], count=True)
_R, _C = "conn_list.shape[1]", "conn_list.shape[2]"
_M = "maze_of(conn_list)"
_N = f"(2 * {_R} * {_C})"


def _pair_at(adj, k, d, x, y, oriented=False):
    """row k of `adj` is the connection stored at cell (d, x, y): {(x, y), (x + [d == 0], y + [d == 1])}, lesser endpoint first or (unless oriented) second"""
    ex, ey = f"({x} + ite({d} == 0, 1, 0))", f"({y} + ite({d} == 1, 1, 0))"
    fwd = f"({adj}[{k}, 0, 0] == {x} and {adj}[{k}, 0, 1] == {y} and {adj}[{k}, 1, 0] == {ex} and {adj}[{k}, 1, 1] == {ey})"
    bwd = f"({adj}[{k}, 1, 0] == {x} and {adj}[{k}, 1, 1] == {y} and {adj}[{k}, 0, 0] == {ex} and {adj}[{k}, 0, 1] == {ey})"
    return fwd if oriented else f"({fwd} or {bwd})"


def _pair(adj, k, t, oriented=False):
    """the same for the cell at row-major position t"""
    return _pair_at(adj, k, f"nd3_d(conn_list, {t})", f"nd3_x(conn_list, {t})", f"nd3_y(conn_list, {t})", oriented)


@contract(TU, "connection_list_to_adj_list")
class connection_list_to_adj_list:
    """one row per connection: as many rows as True cells; every row is a connection of the maze; every connection has its row; no connection has two.
    Orientation: lesser endpoint first unless shuffle_d1; order: row-major order of the cells unless shuffle_d0 (then an unknown permutation)."""
    FLAG = T.OneOf(T.Const(True), T.Const(False))
    params = dict(conn_list=CONN, shuffle_d0=FLAG, shuffle_d1=FLAG)
    requires = [f"{_R} >= 1", f"{_C} >= 1", f"{_R} <= 127", f"{_C} <= 127", f"wf({_M})"]
    entry_lemmas = ["true_before_lemma(conn_list)"]
    exit_lemmas = ["nd3_cells_lemma(conn_list)"]
    ensures = {
        "C13.adj.shape": "result.shape == (count(conn_list), 2, 2)",
        "C13.adj.sound": f"forall(lambda k: edge({_M}, (result[k, 0, 0], result[k, 0, 1]), (result[k, 1, 0], result[k, 1, 1])), (0, count(conn_list)))",
        "C13.adj.complete": "forall(lambda d, x, y: implies(conn_list[d, x, y], exists(lambda k: "
        + _pair_at("result", "k", "d", "x", "y") + f", (0, count(conn_list)))), (0, 2), (0, {_R}), (0, {_C}))",
        "C13.adj.once": "forall(lambda a, b: implies(a != b, not ((result[a, 0, 0] == result[b, 0, 0] and result[a, 0, 1] == result[b, 0, 1] and result[a, 1, 0] == result[b, 1, 0] and result[a, 1, 1] == result[b, 1, 1])"
        " or (result[a, 0, 0] == result[b, 1, 0] and result[a, 0, 1] == result[b, 1, 1] and result[a, 1, 0] == result[b, 0, 0] and result[a, 1, 1] == result[b, 0, 1]))), (0, count(conn_list)), (0, count(conn_list)))",
        "C13.adj.oriented": "implies(not shuffle_d1, forall(lambda k: (result[k, 1, 0] == result[k, 0, 0] + 1 and result[k, 1, 1] == result[k, 0, 1]) or (result[k, 1, 0] == result[k, 0, 0] and result[k, 1, 1] == result[k, 0, 1] + 1), (0, count(conn_list))))",
    }
    loops = {
        0: Loop(
            head="for d, x, y in np.ndindex(conn_list.shape)",
            havoc=dict(adj_list=T.GridT("int", [None, 2, 2], dtype="int8"), i=T.Int, g_pos=T.ListT(T.Int)),
            inv={
                "shape": "adj_list.shape == (count(conn_list), 2, 2)",
                "i": "i == true_before(conn_list, _k) and 0 <= i and i <= count(conn_list) and len(g_pos) == i",
                # g_pos[k] is the row-major position of the cell row k was written for
                "pos": "forall(lambda k: 0 <= g_pos[k] and g_pos[k] < _k and bit_at(conn_list, g_pos[k]), (0, i))",
                "pos.increasing": "forall(lambda a, b: implies(a < b, g_pos[a] < g_pos[b]), (0, i), (0, i))",
                "rows": "forall(lambda k: " + _pair("adj_list", "k", "g_pos[k]") + ", (0, i))",
                "rows.edges": f"forall(lambda k: edge({_M}, (adj_list[k, 0, 0], adj_list[k, 0, 1]), (adj_list[k, 1, 0], adj_list[k, 1, 1])), (0, i))",
                "rows.oriented": "implies(not shuffle_d1, forall(lambda k: " + _pair("adj_list", "k", "g_pos[k]", oriented=True) + ", (0, i)))",
                # the row written for the True cell at position t is row number true_before(t)
                "all-listed": "forall(lambda t: implies(bit_at(conn_list, t), true_before(conn_list, t) < i and g_pos[true_before(conn_list, t)] == t), (0, _k))",
            },
            focus={"rows.edges": ["inv:rows.edges", "inv:shape", "inv:i"]},
            no_merge=True,
        )
    }
    ghost_after = {"i: int = 0": {"g_pos": "[]"}, "i += 1": {"g_pos": "[*g_pos, _k]"}}
    result = T.GridT("int", [None, 2, 2])
    props = ["C13"]


# ------------------------------------------------------------------------------------------- lemma: from_adj_list(as_adj_list(m)) is m
L = "/verif/contracts/lemmas_src.py"
LM = "maze_dataset/maze/lattice_maze.py"
REGISTRY.inlinable.update({(LM, "LatticeMaze.as_adj_list")})
REGISTRY.class_files.update({"LatticeMaze": LM})
_G = "m.connection_list.shape[1]"


@contract(L, "adj_list_roundtrip")
class adj_list_roundtrip:
    """Lemma C13.adj-roundtrip: for a square well-formed maze in which the highest row index or the highest column index occurs in some connection,
    from_adj_list(as_adj_list(m)) has the identical connection structure - whatever the two shuffle options draw.  Pure consequence of the two contracts."""
    params = dict(m=T.RecT("LatticeMaze", connection_list=CONN), shuffle_d0=T.Bool, shuffle_d1=T.Bool)
    requires = [
        f"{_G} >= 1", f"{_G} <= 127", f"m.connection_list.shape[2] == {_G}", "wf(m)",
        # some connection touches the last row or the last column (so that the grid size can be read off the adjacency list)
        f"exists(lambda d, x, y: m.connection_list[d, x, y] and (x + ite(d == 0, 1, 0) == {_G} - 1 or y + ite(d == 1, 1, 0) == {_G} - 1), (0, 2), (0, {_G}), (0, {_G}))",
    ]
    ensures = {
        "C13.adj-roundtrip.size<=": f"result.connection_list.shape[1] <= {_G}",
        "C13.adj-roundtrip.size>=": f"result.connection_list.shape[1] >= {_G}",
        "C13.adj-roundtrip.square": "result.connection_list.shape[0] == 2 and result.connection_list.shape[1] == result.connection_list.shape[2]",
        # (the grid has the size proved above; the two directions are separate obligations)
        "C13.adj-roundtrip.no-extra-bit": f"forall(lambda d, x, y: implies(x < result.connection_list.shape[1] and y < result.connection_list.shape[2] and result.connection_list[d, x, y], m.connection_list[d, x, y]), (0, 2), (0, {_G}), (0, {_G}))",
        "C13.adj-roundtrip.no-lost-bit": f"forall(lambda d, x, y: implies(m.connection_list[d, x, y], x < result.connection_list.shape[1] and y < result.connection_list.shape[2] and result.connection_list[d, x, y]), (0, 2), (0, {_G}), (0, {_G}))",
    }
    options = dict(no_concrete=True)
    props = ["C13"]


# ------------------------------------------------------------------------------------------- C06: the edge set an adjacency-list tokenizer lists
MT = "maze_dataset/tokenization/maze_tokenizer.py"
_MC = "maze.connection_list"
_MR, _MCc = f"{_MC}.shape[1]", f"{_MC}.shape[2]"


def _sel(d, x, y):
    """the lattice edge stored at cell (d, x, y) is inside the grid and belongs to the selected subset (connections, or - walls=True - walls)"""
    return f"((x + ite({d} == 0, 1, 0) < {_MR}) and (y + ite({d} == 1, 1, 0) < {_MCc}) and ({_MC}[{d}, {x}, {y}] != self.walls))"


@contract(MT, "EdgeSubsets.ConnectionEdges._get_edges")
class connection_edges_get_edges:
    """C06: `the adjacency region lists precisely the edge set selected by the tokenizer (only connections, or only walls)`: every row is a lattice edge inside
    the grid whose connection bit is the selected kind, lesser endpoint first; every such edge is some row; no edge is two rows"""
    params = dict(self=T.RecT("ConnectionEdges", walls=T.OneOf(T.Const(False), T.Const(True))), maze=T.RecT("LatticeMaze", connection_list=CONN))
    requires = [f"{_MR} >= 1", f"{_MCc} >= 1", f"{_MR} <= 127", f"{_MCc} <= 127", "wf(maze)"]
    ensures = {
        "C06.edges.selected": "forall(lambda k: exists(lambda d: (0 <= result[k, 0, 0] and 0 <= result[k, 0, 1] and result[k, 1, 0] == result[k, 0, 0] + ite(d == 0, 1, 0)"
        " and result[k, 1, 1] == result[k, 0, 1] + ite(d == 1, 1, 0) and "
        + _sel("d", "result[k, 0, 0]", "result[k, 0, 1]").replace("(x +", "(result[k, 0, 0] +").replace("(y +", "(result[k, 0, 1] +") + "), (0, 2)), (0, result.shape[0]))",
        "C06.edges.all": "forall(lambda d, x, y: implies(" + _sel("d", "x", "y") + ", exists(lambda k: " + _pair_at("result", "k", "d", "x", "y", oriented=True)
        + f", (0, result.shape[0]))), (0, 2), (0, {_MR}), (0, {_MCc}))",
        "C06.edges.once": "forall(lambda a, b: implies(a != b, not (result[a, 0, 0] == result[b, 0, 0] and result[a, 0, 1] == result[b, 0, 1] and result[a, 1, 0] == result[b, 1, 0] and result[a, 1, 1] == result[b, 1, 1])),"
        " (0, result.shape[0]), (0, result.shape[0]))",
    }
    result = T.GridT("int", [None, 2, 2])
    props = ["C06"]


@contract(MT, "EdgePermuters.BothCoords._permute")
class both_coords_permute:
    """C06: `once, or in both orientations`: the listed edges followed by the same edges with their two coordinates exchanged"""
    params = dict(lattice_edges=T.GridT("int", [None, 2, 2]))
    lets = dict(n="lattice_edges.shape[0]")
    ensures = {
        "C06.both.shape": "result.shape == (2 * n, 2, 2)",
        "C06.both.first-half": "forall(lambda k, e, c: result[k, e, c] == lattice_edges[k, e, c], (0, n), (0, 2), (0, 2))",
        "C06.both.second-half": "forall(lambda k, e, c: result[n + k, e, c] == lattice_edges[k, 1 - e, c], (0, n), (0, 2), (0, 2))",
    }
    result = T.GridT("int", [None, 2, 2])
    props = ["C06"]


UT_ = "maze_dataset/utils.py"


@contract(UT_, "lattice_connection_array")
class lattice_connection_array:
    """C06 (`all lattice edges`): the 2n(n-1) unit edges of the n x n lattice, each exactly once, lesser endpoint first: first the n(n-1) horizontal
    ones ((i, j), (i, j+1)) in row-major order of (i, j), then the n(n-1) vertical ones ((i, j), (i+1, j))"""
    params = dict(n=T.Nat)
    requires = ["n >= 1", "n <= 127"]
    lets = dict(N="n * (n - 1)")
    exit_lemmas = ["unravel_lemma(n, n - 1)", "unravel_lemma(n - 1, n)"]
    ensures = {
        "C06.lattice.shape": "result.shape == (2 * N, 2, 2)",
        "C06.lattice.horizontal": "forall(lambda t: result[t, 0, 0] == unravel_row(t, n - 1) and result[t, 0, 1] == unravel_col(t, n - 1)"
        " and result[t, 1, 0] == result[t, 0, 0] and result[t, 1, 1] == result[t, 0, 1] + 1, (0, N))",
        "C06.lattice.vertical": "forall(lambda t: result[N + t, 0, 0] == unravel_row(t, n) and result[N + t, 0, 1] == unravel_col(t, n)"
        " and result[N + t, 1, 0] == result[N + t, 0, 0] + 1 and result[N + t, 1, 1] == result[N + t, 0, 1], (0, N))",
        "C06.lattice.all-horizontal": "forall(lambda i, j: result[ravel_index(i, j, n - 1), 0, 0] == i and result[ravel_index(i, j, n - 1), 0, 1] == j and 0 <= ravel_index(i, j, n - 1) and ravel_index(i, j, n - 1) < N, (0, n), (0, n - 1))",
        "C06.lattice.all-vertical": "forall(lambda i, j: result[N + ravel_index(i, j, n), 0, 0] == i and result[N + ravel_index(i, j, n), 0, 1] == j and 0 <= ravel_index(i, j, n) and ravel_index(i, j, n) < N, (0, n - 1), (0, n))",
    }
    result = T.GridT("int", [None, 2, 2])
    props = ["C06"]


_GN = "maze.connection_list.shape[1]"


@contract(MT, "EdgeSubsets.AllLatticeEdges._get_edges")
class all_lattice_edges_get_edges:
    """C06 (`all lattice edges`): for a square maze, every unit edge of its lattice exactly once (the contract of lattice_connection_array at n = grid size)"""
    params = dict(self=T.RecT("AllLatticeEdges"), maze=T.RecT("LatticeMaze", connection_list=T.GridT("bool", [2, None, None])))
    requires = [f"{_GN} >= 1", f"{_GN} <= 127", f"maze.connection_list.shape[2] == {_GN}"]
    lets = dict(g=_GN)
    ensures = {
        "C06.all-edges.shape": "result.shape == (2 * (g * (g - 1)), 2, 2)",
        "C06.all-edges.horizontal": "forall(lambda t: result[t, 0, 0] == unravel_row(t, g - 1) and result[t, 0, 1] == unravel_col(t, g - 1)"
        " and result[t, 1, 0] == result[t, 0, 0] and result[t, 1, 1] == result[t, 0, 1] + 1, (0, g * (g - 1)))",
        "C06.all-edges.vertical": "forall(lambda t: result[g * (g - 1) + t, 0, 0] == unravel_row(t, g) and result[g * (g - 1) + t, 0, 1] == unravel_col(t, g)"
        " and result[g * (g - 1) + t, 1, 0] == result[g * (g - 1) + t, 0, 0] + 1 and result[g * (g - 1) + t, 1, 1] == result[g * (g - 1) + t, 0, 1], (0, g * (g - 1)))",
    }
    result = T.GridT("int", [None, 2, 2])
    props = ["C06"]


@contract(MT, "EdgePermuters.RandomCoords._permute")
class random_coords_permute:
    """C06: every edge stays in its place with its two coordinates in one of the two orders (whatever the generator draws).  Generator.permuted permutes
    the row entries and the column entries of a pair INDEPENDENTLY; for a unit lattice edge (the two cells agree in one coordinate) that is still the
    same edge - hence the precondition"""
    params = dict(lattice_edges=T.GridT("int", [None, 2, 2]))
    lets = dict(n="lattice_edges.shape[0]")
    requires = ["forall(lambda k: lattice_edges[k, 0, 0] == lattice_edges[k, 1, 0] or lattice_edges[k, 0, 1] == lattice_edges[k, 1, 1], (0, n))"]
    ensures = {
        "C06.random.shape": "result.shape == (n, 2, 2)",
        "C06.random.same-edges": "forall(lambda k: forall(lambda e, c: result[k, e, c] == lattice_edges[k, e, c], (0, 2), (0, 2))"
        " or forall(lambda e, c: result[k, e, c] == lattice_edges[k, 1 - e, c], (0, 2), (0, 2)), (0, n))",
    }
    result = T.GridT("int", [None, 2, 2])
    props = ["C06"]
