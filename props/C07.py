"""C07 - legacy tokenization round-trips and agrees with its modular equivalent."""
ID = "C07"
LEVEL = "exploration"
LEVEL_TEXT = (
    "PROVED (z3; any dataset length, any tokenizer, mazes and tokenizer as opaque objects): dataset-level tokenization MazeDataset.as_tokens returns the per-maze tokenization of the first "
    "min(limit, len) mazes (all of them without a limit) in order, each joined with a single space when asked - for all four limit / join combinations. The delimiter search the parser is built on is proved as well: tokens_between returns the slice between the FIRST occurrences of its delimiters with its documented "
    "exceptions exactly, and (lemma regions_roundtrip) the four region extractors of token_utils recover from a full adjacency-origin-target-path sequence exactly the region lists it was built from, for token lists of any length "
    "that contain no delimiter. The coordinate writers are proved as well: the legacy unique-token modes write a cell as the single token `(row,col)`, the legacy indexed mode as the five tokens ( row , col ), "
    "and (lemma coord_tokens_agree) these are exactly the tokens of the modular equivalents CoordTokenizers.UT / CoordTokenizers.CTT with default delimiters, for every cell. Everything else (coordinate strings, regex splitting, maze reconstruction) is bounded: "
    + 'Bounded: the coordinate string codec is checked completely over all coordinates < 50 (its whole vocabulary range); maze round trips for the three legacy modes and their modular equivalents on all spanning trees of 2x2/3x3 and seeded larger mazes, as token lists and joined strings; legacy vs modular token multisets compared with an independent parser; dataset-level tokenization against per-maze tokenization.'
)
LEVEL_NOTE = "Trusted: regex/str semantics of CPython (outside the SMT-decidable fragment); limit >= 0."
TECHNIQUE = "bounded run-time checking of the real tokenizers (complete coordinate codec, enumerated round trips) + a contract on dataset-level tokenization discharged by z3"
CONTRACT_MODULES = ["contracts.dstokens", "contracts.sequencing", "contracts.coordtok"]
PROVE = [("maze_dataset/dataset/maze_dataset.py", "MazeDataset.as_tokens"), ("maze_dataset/token_utils.py", "tokens_between"), ("/verif/contracts/lemmas_src.py", "regions_roundtrip"),
         ("maze_dataset/token_utils.py", "_coord_to_strings_UT"), ("maze_dataset/token_utils.py", "_coord_to_strings_indexed"), ("/verif/contracts/lemmas_src.py", "coord_tokens_agree")]
ASSUMPTIONS = []
EXPLANATION = "see DESIGN.md C07"


def run(run):
    from props._std import run_bounded

    if PROVE:
        run.prove(PROVE)
    run_bounded(run, "C07")
