"""Symbolic value domain of the pyvc verifier.

Every value is a tree whose leaves are z3 terms or Python constants:
  scalars            python bool/int/float/str/None or z3 Bool/Int/Real terms
  Arr                numpy array of *constant* shape (flat list of scalar leaves)
  Grid               numpy array of known rank with (possibly symbolic) dimensions: nested z3 arrays
  SymList            python list of symbolic length, structure-of-arrays over an element template
  CSet               set of fixed-arity integer tuples: nested characteristic array + ghost cardinality
  CDict              dict keyed by fixed-arity integer tuples
  Rec                object with named fields (dataclass instance / self)
  tuple / list       python tuples and constant-length lists of values
"""
from __future__ import annotations

import itertools
import z3


class Outside(Exception):
    """construct outside the verified subset"""

    def __init__(self, msg, node=None):
        super().__init__(msg)
        self.msg = msg
        self.node = node

    def where(self):
        ln = getattr(self.node, "lineno", None)
        return f"{self.msg}" + (f" (line {ln})" if ln else "")


_counter = itertools.count()
SPEC_MODE = False


def fresh_name(base: str) -> str:
    base = "".join(ch if (ch.isalnum() or ch in "_.@") else "_" for ch in base)
    return f"{base}!{next(_counter)}"


def reset_names():
    global _counter
    _counter = itertools.count()


def is_sym(x) -> bool:
    return isinstance(x, z3.ExprRef)


def is_scalar(x) -> bool:
    return isinstance(x, (bool, int, float)) or (
        is_sym(x) and not z3.is_array(x)
    )


def to_z3(x):
    if is_sym(x):
        return x
    if isinstance(x, bool):
        return z3.BoolVal(x)
    if isinstance(x, int):
        return z3.IntVal(x)
    if isinstance(x, float):
        if x == int(x) and abs(x) < 1e15:
            return z3.RealVal(int(x))
        return z3.RealVal(repr(x))
    if isinstance(x, str):
        return z3.StringVal(x)
    raise Outside(f"cannot lift {type(x).__name__} to z3")


def sort_of(x):
    return to_z3(x).sort()


def kind_of_scalar(x) -> str:
    if isinstance(x, bool):
        return "bool"
    if isinstance(x, int):
        return "int"
    if isinstance(x, float):
        return "float"
    if is_sym(x):
        s = x.sort()
        if s == z3.BoolSort():
            return "bool"
        if s == z3.IntSort():
            return "int"
        if s == z3.RealSort():
            return "float"
        return str(s)
    raise Outside(f"not a scalar: {type(x).__name__}")


def sort_for_kind(kind: str):
    return {"bool": z3.BoolSort(), "int": z3.IntSort(), "float": z3.RealSort()}[kind]


# ---------------------------------------------------------------- boolean helpers
def b_and(*xs):
    out = []
    for x in xs:
        if x is True:
            continue
        if x is False:
            return False
        out.append(x)
    if not out:
        return True
    if len(out) == 1:
        return out[0]
    return z3.And(*out)


def b_or(*xs):
    out = []
    for x in xs:
        if x is False:
            continue
        if x is True:
            return True
        out.append(x)
    if not out:
        return False
    if len(out) == 1:
        return out[0]
    return z3.Or(*out)


def b_not(x):
    if isinstance(x, bool):
        return not x
    return z3.Not(x)


def b_implies(a, b):
    if a is True:
        return b
    if a is False:
        return True
    if b is True:
        return True
    return z3.Implies(a, to_z3(b))


def truthy(x):
    """python truthiness of a scalar as a (possibly symbolic) bool"""
    if x is None:
        return False
    if isinstance(x, bool):
        return x
    if isinstance(x, (int, float)):
        return x != 0
    if isinstance(x, str):
        return len(x) > 0
    if is_sym(x):
        s = x.sort()
        if s == z3.BoolSort():
            return x
        if s in (z3.IntSort(), z3.RealSort()):
            return x != 0
    raise Outside(f"truthiness of {type(x).__name__}")


def ite(c, a, b):
    """scalar if-then-else"""
    if c is True:
        return a
    if c is False:
        return b
    if not is_sym(a) and not is_sym(b) and type(a) == type(b) and a == b:
        return a
    za, zb = to_z3(a), to_z3(b)
    if za.sort() != zb.sort():
        if za.sort() == z3.IntSort() and zb.sort() == z3.RealSort():
            za = z3.ToReal(za)
        elif zb.sort() == z3.IntSort() and za.sort() == z3.RealSort():
            zb = z3.ToReal(zb)
        elif za.sort() == z3.BoolSort() and zb.sort() == z3.IntSort():
            za = z3.If(za, 1, 0)
        elif zb.sort() == z3.BoolSort() and za.sort() == z3.IntSort():
            zb = z3.If(zb, 1, 0)
        else:
            raise Outside(f"ite over different sorts {za.sort()} / {zb.sort()}")
    return z3.If(c, za, zb)


def as_int(x):
    """bool -> int coercion as numpy / python do in arithmetic"""
    if isinstance(x, bool):
        return int(x)
    if is_sym(x) and x.sort() == z3.BoolSort():
        return z3.If(x, 1, 0)
    return x


# ---------------------------------------------------------------- Arr
class Arr:
    """numpy array of constant shape; `flat` holds the scalar leaves in C order"""

    def __init__(self, shape, flat, kind=None):
        self.shape = tuple(shape)
        self.flat = list(flat)
        n = 1
        for d in self.shape:
            n *= d
        assert n == len(self.flat), (shape, len(self.flat))
        if kind is None:
            kinds = {kind_of_scalar(x) for x in self.flat}
            kind = (
                "float"
                if "float" in kinds
                else ("int" if "int" in kinds else ("bool" if kinds else "int"))
            )
        self.kind = kind

    @staticmethod
    def from_nested(obj):
        """nested python lists/tuples/Arr of scalars -> Arr"""
        if isinstance(obj, Arr):
            return obj
        if is_scalar(obj):
            return Arr((), [obj])
        if isinstance(obj, (list, tuple)):
            subs = [Arr.from_nested(o) for o in obj]
            if not subs:
                return Arr((0,), [])
            sh = subs[0].shape
            if any(s.shape != sh for s in subs):
                raise Outside("ragged array literal")
            flat = [x for s in subs for x in s.flat]
            return Arr((len(subs),) + sh, flat)
        raise Outside(f"array literal from {type(obj).__name__}")

    @property
    def ndim(self):
        return len(self.shape)

    def _strides(self):
        st = []
        acc = 1
        for d in reversed(self.shape):
            st.append(acc)
            acc *= d
        return list(reversed(st))

    def sub(self, i: int):
        """a[i] for a python int i (negative allowed)"""
        if self.ndim == 0:
            raise Outside("index into 0-d array")
        n = self.shape[0]
        if i < 0:
            i += n
        if not (0 <= i < n):
            raise IndexError
        size = len(self.flat) // n if n else 0
        if self.ndim == 1:
            return self.flat[i]
        return Arr(self.shape[1:], self.flat[i * size : (i + 1) * size], self.kind)

    def rows(self):
        return [self.sub(i) for i in range(self.shape[0])]

    def map(self, f, kind=None):
        return Arr(self.shape, [f(x) for x in self.flat], kind)

    def leaves(self):
        return self.flat

    def rebuild(self, leaves):
        return Arr(self.shape, leaves, self.kind)

    def sig(self):
        return ("Arr", self.shape, self.kind)

    def __repr__(self):
        return f"Arr{self.shape}{self.flat}"


def broadcast_shapes(s1, s2):
    n = max(len(s1), len(s2))
    a = (1,) * (n - len(s1)) + tuple(s1)
    b = (1,) * (n - len(s2)) + tuple(s2)
    out = []
    for x, y in zip(a, b):
        if x == y or y == 1:
            out.append(x)
        elif x == 1:
            out.append(y)
        else:
            raise Outside(f"cannot broadcast {s1} with {s2}")
    return tuple(out)


def broadcast_to(a: Arr, shape):
    if a.shape == tuple(shape):
        return a
    n = len(shape)
    ash = (1,) * (n - a.ndim) + a.shape
    strides = []
    acc = 1
    for d in reversed(ash):
        strides.append(acc)
        acc *= d
    strides = list(reversed(strides))
    flat = []
    for idx in itertools.product(*[range(d) for d in shape]):
        off = 0
        for k, i in enumerate(idx):
            if ash[k] != 1:
                off += i * strides[k]
        flat.append(a.flat[off])
    return Arr(shape, flat, a.kind)


def arr_binop(a, b, f, kind=None):
    a = Arr.from_nested(a)
    b = Arr.from_nested(b)
    sh = broadcast_shapes(a.shape, b.shape)
    a2, b2 = broadcast_to(a, sh), broadcast_to(b, sh)
    return Arr(sh, [f(x, y) for x, y in zip(a2.flat, b2.flat)], kind)


# ---------------------------------------------------------------- Grid
def nested_array_sort(rank: int, elem_sort):
    s = elem_sort
    for _ in range(rank):
        s = z3.ArraySort(z3.IntSort(), s)
    return s


class Grid:
    """ndarray of known rank with symbolic dims. `arr` is a nested z3 array Int->...->elem.
    `count` is an optional ghost integer: the number of True cells (bool grids only)."""

    def __init__(self, dims, arr, kind, count=None, dtype=None):
        self.dims = list(dims)
        self.arr = arr
        self.kind = kind
        self.count = count
        self.dtype = dtype  # e.g. 'int8' -> store range obligations

    @property
    def rank(self):
        return len(self.dims)

    @staticmethod
    def fresh(name, dims, kind, with_count=False, dtype=None):
        arr = z3.Const(fresh_name(name), nested_array_sort(len(dims), sort_for_kind(kind)))
        cnt = z3.Int(fresh_name(name + "_count")) if with_count else None
        return Grid(dims, arr, kind, cnt, dtype)

    @staticmethod
    def const(dims, value, kind, dtype=None):
        s = sort_for_kind(kind)
        arr = to_z3(value)
        if arr.sort() != s:
            if s == z3.RealSort():
                arr = z3.ToReal(arr)
            else:
                raise Outside("grid constant of wrong sort")
        for _ in dims:
            arr = z3.K(z3.IntSort(), arr)
        cnt = None
        if kind == "bool" and value is False:
            cnt = 0
        return Grid(dims, arr, kind, cnt, dtype)

    def select(self, idxs):
        t = self.arr
        for i in idxs:
            t = z3.Select(t, to_z3(i))
        return t

    def store(self, idxs, v):
        """functional store of a scalar at a full index"""
        assert len(idxs) == self.rank

        def rec(t, k):
            if k == len(idxs):
                return to_z3(v)
            i = to_z3(idxs[k])
            return z3.Store(t, i, rec(z3.Select(t, i), k + 1))

        v = to_z3(v)
        s = sort_for_kind(self.kind)
        if v.sort() != s:
            if s == z3.RealSort() and v.sort() == z3.IntSort():
                v = z3.ToReal(v)
            elif s == z3.IntSort() and v.sort() == z3.BoolSort():
                v = z3.If(v, 1, 0)
            else:
                raise Outside(f"store of {v.sort()} into {self.kind} grid")
        cnt = self.count
        if cnt is not None and self.kind == "bool":
            old = self.select(idxs)
            cnt = cnt + z3.If(z3.And(v, z3.Not(old)), 1, 0) - z3.If(z3.And(z3.Not(v), old), 1, 0)
        return Grid(self.dims, rec(self.arr, 0), self.kind, cnt, self.dtype)

    def leaves(self):
        out = list(self.dims) + [self.arr]
        if self.count is not None:
            out.append(self.count)
        return out

    def rebuild(self, leaves):
        n = len(self.dims)
        cnt = leaves[n + 1] if self.count is not None else None
        return Grid(leaves[:n], leaves[n], self.kind, cnt, self.dtype)

    def sig(self):
        return ("Grid", self.rank, self.kind, self.count is not None)

    def __repr__(self):
        return f"Grid(dims={self.dims}, kind={self.kind})"


# ---------------------------------------------------------------- generic tree helpers
def leaves_of(v):
    if v is None or isinstance(v, (bool, int, float, str)) or is_sym(v):
        return [v]
    if isinstance(v, (tuple, list)):
        return [x for e in v for x in leaves_of(e)]
    if isinstance(v, dict):
        return [x for k in sorted(v, key=repr) for x in leaves_of(v[k])]
    if hasattr(v, "leaves"):
        out = []
        for e in v.leaves():
            out.extend(leaves_of(e) if not (is_sym(e) or isinstance(e, (bool, int, float, str)) or e is None) else [e])
        return out
    raise Outside(f"leaves of {type(v).__name__}")


def sig_of(v):
    if v is None:
        return ("None",)
    if isinstance(v, str) or (is_sym(v) and v.sort() == z3.StringSort()):
        return ("str",)
    if isinstance(v, (bool, int, float)) or is_sym(v):
        return ("scalar", str(sort_of(v)))
    if isinstance(v, tuple):
        return ("tuple",) + tuple(sig_of(e) for e in v)
    if isinstance(v, list):
        return ("list",) + tuple(sig_of(e) for e in v)
    if isinstance(v, dict):
        return ("dict",) + tuple((repr(k), sig_of(v[k])) for k in sorted(v, key=repr))
    if hasattr(v, "sig"):
        return v.sig()
    raise Outside(f"signature of {type(v).__name__}")


def rebuild_from(v, it):
    """rebuild a value of the same structure as v taking leaves from iterator it"""
    if v is None or isinstance(v, (bool, int, float, str)) or is_sym(v):
        return next(it)
    if isinstance(v, tuple):
        return tuple(rebuild_from(e, it) for e in v)
    if isinstance(v, list):
        return [rebuild_from(e, it) for e in v]
    if isinstance(v, dict):
        return {k: rebuild_from(v[k], it) for k in sorted(v, key=repr)}
    if hasattr(v, "leaves"):
        inner = v.leaves()
        new = [rebuild_from(e, it) for e in inner]
        return v.rebuild(new)
    raise Outside(f"rebuild of {type(v).__name__}")


def merge(c, a, b):
    """value-level if-then-else; raises Outside if the two values are not of the same structure"""
    if a is b:
        return a
    if a is None and b is None:
        return None
    if isinstance(a, str) and isinstance(b, str) and a == b:
        return a
    sa, sb = sig_of(a), sig_of(b)
    if sa != sb:
        # int/bool/real coercions between scalars
        if sa[0] == "scalar" and sb[0] == "scalar":
            return ite(c, a, b)
        raise Outside(f"merge of different structures {sa} / {sb}")
    la, lb = leaves_of(a), leaves_of(b)
    assert len(la) == len(lb)
    out = []
    for x, y in zip(la, lb):
        if x is y:
            out.append(x)
        elif x is None and y is None:
            out.append(None)
        elif isinstance(x, str) or isinstance(y, str):
            if isinstance(x, str) and isinstance(y, str) and x == y:
                out.append(x)
            else:
                # different strings (e.g. two token constants): a symbolic string
                zx = z3.StringVal(x) if isinstance(x, str) else x
                zy = z3.StringVal(y) if isinstance(y, str) else y
                out.append(z3.If(c, zx, zy))
        elif is_sym(x) and is_sym(y) and x.eq(y):
            out.append(x)
        else:
            out.append(ite(c, x, y))
    return rebuild_from(a, iter(out))


def values_equal(a, b):
    """structural equality of two values as a (possibly symbolic) bool; arrays compare elementwise"""
    sa, sb = sig_of(a), sig_of(b)
    if sa != sb:
        if sa[0] == "scalar" and sb[0] == "scalar":
            return as_int(a) == as_int(b)
        return False
    la, lb = leaves_of(a), leaves_of(b)
    conj = []
    for x, y in zip(la, lb):
        if x is None or isinstance(x, str):
            if x != y:
                return False
            continue
        if is_sym(x) or is_sym(y):
            zx, zy = to_z3(x), to_z3(y)
            if zx.sort() != zy.sort():
                zx, zy = to_z3(as_int(x)), to_z3(as_int(y))
            conj.append(zx == zy)
        else:
            if x != y:
                return False
    return b_and(*conj)


def lam_array(k, body):
    """Lambda k. body, eta-reduced when body is `select(A, k)` with A independent of k (so equal lists get equal terms)"""
    body = to_z3(body)
    if z3.is_select(body) and body.num_args() == 2:
        a, i = body.arg(0), body.arg(1)
        if i.eq(k) and not _mentions(a, k):
            return a
    return z3.Lambda([k], body)


def _mentions(e, v):
    if e.eq(v):
        return True
    return any(_mentions(c, v) for c in e.children())


def _coerce_objs(tmpl, v):
    """a python constant (tuple / dict / list without symbolic parts) stored where the template has an opaque object: the interned
    object constant for that literal (equal literals give the same constant)"""
    if is_sym(tmpl) and str(tmpl.sort()) == "Obj":
        if is_sym(v):
            return v
        try:
            if any(is_sym(l) for l in leaves_of(v)):
                return None
        except Outside:
            return None
        return z3.Const("obj:" + repr(v), tmpl.sort())
    if isinstance(tmpl, dict) and isinstance(v, dict) and set(tmpl) == set(v):
        out = {}
        for k in tmpl:
            c = _coerce_objs(tmpl[k], v[k])
            if c is None:
                return None
            out[k] = c
        return out
    if isinstance(tmpl, tuple) and isinstance(v, tuple) and len(tmpl) == len(v):
        parts = [_coerce_objs(a, b) for a, b in zip(tmpl, v)]
        return None if any(p is None and b is not None for p, b in zip(parts, v)) else tuple(parts)
    return v


# ---------------------------------------------------------------- SymList
class SymList:
    """python list with symbolic length. tmpl: a value giving the structure of one element;
    arrs: for every leaf of tmpl a z3 array Int -> sort(leaf)."""

    def __init__(self, tmpl, arrs, length):
        self.tmpl = tmpl
        self.arrs = list(arrs)
        self.length = length

    @staticmethod
    def fresh(name, tmpl, length=None):
        lv = leaves_of(tmpl)
        arrs = []
        for k, l in enumerate(lv):
            if l is None or isinstance(l, (str, bool, int, float)):
                arrs.append(l)  # a python constant in the template is shared by every element (e.g. a fixed array dimension)
            else:
                arrs.append(z3.Const(fresh_name(f"{name}_{k}"), z3.ArraySort(z3.IntSort(), sort_of(l))))
        if length is None:
            length = z3.Int(fresh_name(name + "_len"))
        return SymList(tmpl, arrs, length)

    @staticmethod
    def from_pylist(name, elems, tmpl=None):
        if tmpl is None:
            if not elems:
                raise Outside("cannot type an empty list without a template")
            tmpl = elems[0]
        out = SymList.fresh(name, tmpl, 0)
        for e in elems:
            out = out.append(e)
        return out

    def get(self, i):
        i = to_z3(i)
        leaves = [a if (a is None or isinstance(a, (str, bool, int, float))) else z3.Select(a, i) for a in self.arrs]
        return rebuild_from(self.tmpl, iter(leaves))

    def _coerce(self, v):
        if sig_of(v) != sig_of(self.tmpl):
            v2 = _coerce_objs(self.tmpl, v)
            if v2 is not None and sig_of(v2) == sig_of(self.tmpl):
                return leaves_of(v2)
            # allow python-constant scalars against symbolic template leaves
            raise Outside(f"list element of structure {sig_of(v)} stored into list of {sig_of(self.tmpl)}")
        return leaves_of(v)

    def set(self, i, v):
        lv = self._coerce(v)
        i = to_z3(i)
        arrs = []
        for a, l in zip(self.arrs, lv):
            if a is None or isinstance(a, (str, bool, int, float)):
                if is_sym(l) or l != a:
                    raise Outside("list element differs from the list's template in a constant position (e.g. an array dimension)")
                arrs.append(a)
            else:
                arrs.append(z3.Store(a, i, to_z3(l)))
        return SymList(self.tmpl, arrs, self.length)

    def append(self, v):
        out = self.set(self.length, v)
        out.length = self.length + 1
        return out

    def leaves(self):
        return [self.length] + [a for a in self.arrs]

    def rebuild(self, leaves):
        return SymList(self.tmpl, leaves[1:], leaves[0])

    def sig(self):
        return ("SymList", sig_of(self.tmpl))

    def __repr__(self):
        return f"SymList(len={self.length})"


# ---------------------------------------------------------------- CSet / CDict
class CSet:
    """set of integer tuples of fixed arity"""

    def __init__(self, arity, mem, card):
        self.arity = arity
        self.mem = mem
        self.card = card

    @staticmethod
    def empty(arity):
        m = z3.BoolVal(False)
        for _ in range(arity):
            m = z3.K(z3.IntSort(), m)
        return CSet(arity, m, 0)

    @staticmethod
    def fresh(name, arity):
        m = z3.Const(fresh_name(name), nested_array_sort(arity, z3.BoolSort()))
        return CSet(arity, m, z3.Int(fresh_name(name + "_card")))

    def contains(self, key):
        t = self.mem
        for k in key:
            t = z3.Select(t, to_z3(k))
        return t

    def _store(self, key, val):
        def rec(t, k):
            if k == len(key):
                return to_z3(val)
            i = to_z3(key[k])
            return z3.Store(t, i, rec(z3.Select(t, i), k + 1))

        return rec(self.mem, 0)

    def add(self, key):
        was = self.contains(key)
        return CSet(self.arity, self._store(key, True), self.card + z3.If(was, 0, 1))

    def discard(self, key):
        was = self.contains(key)
        return CSet(self.arity, self._store(key, False), self.card - z3.If(was, 1, 0))

    def leaves(self):
        return [self.mem, self.card]

    def rebuild(self, leaves):
        return CSet(self.arity, leaves[0], leaves[1])

    def sig(self):
        return ("CSet", self.arity)


class CDict:
    """dict keyed by integer tuples of fixed arity; values of structure tmpl (lifted over the key)"""

    def __init__(self, arity, dom: CSet, tmpl, arrs):
        self.arity = arity
        self.dom = dom
        self.tmpl = tmpl
        self.arrs = list(arrs)

    @staticmethod
    def fresh(name, arity, tmpl, empty=False):
        lv = leaves_of(tmpl)
        arrs = [
            z3.Const(fresh_name(f"{name}_v{k}"), nested_array_sort(arity, sort_of(l)))
            for k, l in enumerate(lv)
        ]
        dom = CSet.empty(arity) if empty else CSet.fresh(name + "_dom", arity)
        return CDict(arity, dom, tmpl, arrs)

    def has(self, key):
        return self.dom.contains(key)

    def get(self, key):
        out = []
        for a in self.arrs:
            t = a
            for k in key:
                t = z3.Select(t, to_z3(k))
            out.append(t)
        return rebuild_from(self.tmpl, iter(out))

    def set(self, key, v):
        if sig_of(v) != sig_of(self.tmpl):
            # scalar coercion int->real
            if sig_of(v)[0] == "scalar" and sig_of(self.tmpl)[0] == "scalar":
                zv = to_z3(v)
                if sort_of(self.tmpl) == z3.RealSort() and zv.sort() == z3.IntSort():
                    v = z3.ToReal(zv)
                else:
                    raise Outside("dict value of wrong sort")
            else:
                raise Outside("dict value of wrong structure")
        lv = leaves_of(v)

        def rec(t, k, val):
            if k == len(key):
                return to_z3(val)
            i = to_z3(key[k])
            return z3.Store(t, i, rec(z3.Select(t, i), k + 1, val))

        arrs = [rec(a, 0, l) for a, l in zip(self.arrs, lv)]
        return CDict(self.arity, self.dom.add(key), self.tmpl, arrs)

    def leaves(self):
        return [self.dom.mem, self.dom.card] + self.arrs

    def rebuild(self, leaves):
        return CDict(self.arity, CSet(self.arity, leaves[0], leaves[1]), self.tmpl, leaves[2:])

    def sig(self):
        return ("CDict", self.arity, sig_of(self.tmpl))


# ---------------------------------------------------------------- Rec
class SDict:
    """python dict with string keys and integer values (a token -> id map): a domain predicate and a value function over strings"""

    def __init__(self, dom, val):
        self.dom = dom  # z3 Array String -> Bool
        self.val = val  # z3 Array String -> Int

    @staticmethod
    def fresh(name):
        return SDict(z3.Const(fresh_name(name + "_dom"), z3.ArraySort(z3.StringSort(), z3.BoolSort())),
                     z3.Const(fresh_name(name + "_val"), z3.ArraySort(z3.StringSort(), z3.IntSort())))

    def has(self, key):
        return z3.Select(self.dom, key)

    def get(self, key):
        return z3.Select(self.val, key)

    def leaves(self):
        return [self.dom, self.val]

    def rebuild(self, leaves):
        return SDict(leaves[0], leaves[1])

    def sig(self):
        return ("SDict",)


class Rec:
    """object with named fields; cls is the (repository) class name used for method lookup"""

    def __init__(self, cls, fields):
        self.cls = cls
        self.fields = dict(fields)

    def with_field(self, name, v):
        f = dict(self.fields)
        f[name] = v
        return Rec(self.cls, f)

    def leaves(self):
        return [self.fields[k] for k in sorted(self.fields)]

    def rebuild(self, leaves):
        return Rec(self.cls, dict(zip(sorted(self.fields), leaves)))

    def sig(self):
        return ("Rec", self.cls) + tuple((k, sig_of(self.fields[k])) for k in sorted(self.fields))

    def __repr__(self):
        return f"Rec<{self.cls}>({list(self.fields)})"


class GList:
    """guarded list: result of a comprehension with a filter over a constant-length iterable.
    items: list of (guard, value); element k is present iff guard k holds; order preserved."""

    def __init__(self, items):
        self.items = [(g, v) for g, v in items if g is not False]

    def length(self):
        n = 0
        for g, _ in self.items:
            n = n + ite(g, 1, 0) if g is not True else n + 1
        return n

    def count_before(self, k):
        n = 0
        for g, _ in self.items[:k]:
            n = n + ite(g, 1, 0) if g is not True else n + 1
        return n

    def get(self, i):
        """element at (symbolic) position i; caller must ensure 0 <= i < length"""
        if not self.items:
            raise Outside("index into empty guarded list")
        out = self.items[-1][1]
        for k in range(len(self.items) - 2, -1, -1):
            g, v = self.items[k]
            here = b_and(g, self.count_before(k) == i)
            out = merge(here, v, out) if here is not True else v
        return out

    def leaves(self):
        out = []
        for g, v in self.items:
            out.append(g)
            out.append(v)
        return out

    def rebuild(self, leaves):
        return GList([(leaves[2 * k], leaves[2 * k + 1]) for k in range(len(self.items))])

    def sig(self):
        return ("GList",) + tuple(sig_of(v) for _, v in self.items)


def guarded_check(solver, timeout_ms):
    """solver.check() bounded by z3's resource limit in addition to its wall-clock timeout: the timeout alone is not always honoured
    (seen: quantifier instantiation loops inside one check), the deterministic rlimit is.  Errors / exhausted limits count as unknown.
    (An interrupting watchdog thread was tried and crashed z3: not used.)"""
    try:
        solver.set("rlimit", max(2000000, int(timeout_ms) * 40000))
    except z3.Z3Exception:
        pass
    try:
        return solver.check()
    except z3.Z3Exception:
        return z3.unknown
