"""C11 - the on-disk dataset cache never serves wrong data."""
ID = "C11"
LEVEL = "proof"
LEVEL_TEXT = (
    "PROVED (unbounded, z3): the decision logic of GPTDataset.from_config against an ADVERSARIAL cache file. Every collaborator (dataset class, configuration, paths, ZANJ handle, "
    "datasets) is an opaque object whose methods are unknown functions; `cls.read` may return ANY dataset object (any stored configuration, any mazes) or raise ANY Exception - which "
    "covers a missing, empty, truncated or corrupted file whatever the damage - and `exists()` is a free boolean. For all 146 paths through the real function: (a) whatever is returned "
    "satisfies `not cfg.diff(result.cfg)` or exactly the one tolerated collect_generation_meta difference, unless the caller asked for a warning instead of an error - a mismatching cached "
    "file raises ValueError, it is never served silently; (b) nothing `read` raises propagates (the only exception that leaves is the documented ValueError), and when nothing was read or "
    "downloaded the result IS cls.generate(cfg)._apply_filters_from_config(); (c) the returned dataset itself is saved exactly when saving is enabled and it did not come from the file, so a "
    "loadable file is left behind; nothing is saved before the configuration check (no save on the ValueError paths); a dataset read from the file is served as it is. "
    "NOT proved (other family / library internals): that every damaged file actually makes zanj.read raise or return an object whose configuration then fails (a) - decided by the bounded "
    "fault experiments on the real from_config: truncations at a dense stride, single-byte corruptions, empty/garbage/directory files, a foreign configuration saved under the requested name, "
    "mismatches in single fields, filtered requests."
)
LEVEL_NOTE = ("Trusted: pyvc encoding; opaque methods other than read/download are assumed not to raise inside from_config (an exception of generate/save would propagate unchanged - not part of the "
              "property); cfg.diff ignores exactly the maze count (muutils, compare=False field); byte-level fault enumeration of the writer is a different technique (bounded conformance runs only).")
TECHNIQUE = "contract-based deductive verification of from_config's decision logic over opaque collaborators with an adversarial read (path-sensitive call events, z3) + bounded fault experiments on real cache files"
CONTRACT_MODULES = ["contracts.cache"]
PROVE = [("maze_dataset/dataset/dataset.py", "GPTDataset.from_config")]
ASSUMPTIONS = ["verbose=False (the print_log branch only formats messages)"]
EXPLANATION = "see DESIGN.md C11"


def run(run):
    from props._std import run_bounded

    if PROVE:
        run.prove(PROVE)
    run_bounded(run, "C11")
