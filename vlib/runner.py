"""Per-property check runner: proof obligations + bounded stand-ins + evidence + verdict."""
from __future__ import annotations

import hashlib
import importlib
import json
import os
import random
import re
import sys
import time
import traceback

VERIF = os.path.dirname(os.path.dirname(os.path.abspath(__file__)))
sys.path.insert(0, VERIF)

from pyvc import spec as _spec  # noqa: E402
from pyvc import npmodel4 as _np4  # noqa: E402
from pyvc.contracts import REGISTRY  # noqa: E402
from pyvc.discharge import discharge  # noqa: E402
from pyvc.driver import verify_contract  # noqa: E402
from pyvc.repo import Repo  # noqa: E402

REGISTRY.spec_functions.update(_spec.SPEC_FUNCTIONS)

EXIT_OK, EXIT_VIOLATION, EXIT_UNDECIDED, EXIT_CRASH = 0, 1, 2, 3


class BoundedResult:
    """what a bounded stand-in reports"""

    def __init__(self, name, rule, exhaustive=False, functions=()):
        self.name = name
        self.rule = rule
        self.exhaustive = exhaustive
        self.functions = list(functions)
        self.evaluations = 0
        self.distinct = set()
        self.samples = []
        self.failures = []  # dict(key=..., what=..., input=..., observed=...)
        self.errors = []
        self.seconds = 0.0

    def seen(self, canonical, nontrivial=True, sample=None):
        self.evaluations += 1
        if nontrivial:
            h = hashlib.blake2b(repr(canonical).encode(), digest_size=8).hexdigest()
            self.distinct.add(h)
        if sample is not None and len(self.samples) < 3:
            self.samples.append(sample)

    def fail(self, key, what, input=None, observed=None):
        if len(self.failures) < 50:
            self.failures.append({"key": key, "what": what, "input": input, "observed": observed})


def load_known_findings():
    path = os.path.join(VERIF, "KNOWN_FINDINGS.txt")
    findings = []
    if os.path.exists(path):
        for line in open(path):
            line = line.strip()
            m = re.match(r"finding:\s+property=(\S+)\s+key=(\S+)\s+(.*)", line)
            if m:
                findings.append({"property": m.group(1), "key": m.group(2), "text": m.group(3)})
    return findings


def ob_key(ob):
    """stable key of an obligation: path index and source positions removed"""
    lab = re.sub(r"#p\d+$", "", ob.label)
    lab = re.sub(r"@\d+(:\d+)?", "", lab)
    return lab


def load_baseline():
    path = os.path.join(VERIF, "baseline_obligations.json")
    if os.path.exists(path):
        return json.load(open(path))
    return {}


def jsonable(x, depth=0):
    import numpy as np

    if depth > 6:
        return repr(x)[:200]
    if isinstance(x, (str, int, float, bool)) or x is None:
        return x
    if isinstance(x, (np.integer,)):
        return int(x)
    if isinstance(x, (np.floating,)):
        return float(x)
    if isinstance(x, (np.bool_,)):
        return bool(x)
    if isinstance(x, np.ndarray):
        return {"__ndarray__": x.tolist(), "dtype": str(x.dtype)}
    if isinstance(x, dict):
        return {str(k): jsonable(v, depth + 1) for k, v in x.items()}
    if isinstance(x, (list, tuple, set, frozenset)):
        return [jsonable(v, depth + 1) for v in x]
    return repr(x)[:300]


def unjson(x):
    import numpy as np

    if isinstance(x, dict):
        if "__ndarray__" in x:
            return np.array(x["__ndarray__"], dtype=x.get("dtype", None))
        return {k: unjson(v) for k, v in x.items()}
    if isinstance(x, list):
        return [unjson(v) for v in x]
    return x


class PropertyRun:
    def __init__(self, pid, tier, seed):
        self.pid = pid
        self.tier = tier
        self.seed = seed
        self.t0 = time.time()
        self.reports = []
        self.bounded = []
        self.violations = []  # dict(key, text, replay)
        self.known = []
        self.undecided = []
        self.crashes = []
        self.notes = []
        self.repo = Repo(os.environ.get("VERIF_REPO", "/repo"))
        self.replay_dir = os.path.join(VERIF, "replays", pid)
        self.baseline = load_baseline()

    # ------------------------------------------------------------------ proofs
    def prove(self, contract_keys, options=None):
        contracts = []
        for key in contract_keys:
            c = REGISTRY.contracts.get(key)
            if c is None:
                self.crashes.append(f"no contract registered for {key}")
                continue
            contracts.append(c)
        all_obs = []
        for c in contracts:
            if c.assumed:
                continue
            rep = verify_contract(REGISTRY, self.repo, c, options)
            self.reports.append(rep)
            if rep.status == "ok":
                all_obs.extend(rep.obligations)
        discharge(all_obs)
        return self.reports

    # ------------------------------------------------------------------ verdicts
    def conclude(self, prop_module):
        from vlib import replay as RP

        findings = [f for f in load_known_findings() if f["property"] == self.pid]
        lines = []
        # proof obligations
        for rep in self.reports:
            if rep.status in ("outside-subset", "missing"):
                self.undecided.append(f"{rep.label}: {rep.status}: {rep.reason}")
                continue
            if rep.status == "error":
                self.crashes.append(f"{rep.label}: {rep.reason}")
                continue
            if not rep.obligations:
                self.crashes.append(f"{rep.label}: zero obligations generated (vacuous)")
            for dp in rep.vacuity.get("dead_paths", []):
                self.crashes.append(f"{rep.label}: contradictory assumptions on path {dp} (vacuous proof)")
            if rep.vacuity.get("requires_sat") not in ("sat",):
                self.undecided.append(f"{rep.label}: satisfiability of the precondition: {rep.vacuity.get('requires_sat')}")
            failed_keys = set()
            searched = {}
            for ob in rep.obligations:
                st = ob.result["status"]
                if st not in ("undecided", "failed"):
                    continue
                k = ob_key(ob)
                if k in failed_keys:
                    continue
                failed_keys.add(k)
                if st == "failed":
                    self._report_failed_obligation(rep, ob, k, findings, RP, searched)
                    continue
                # the solver gave up (unknown / timeout).
                in_baseline = k in self.baseline.get(self.pid, {})
                if in_baseline:
                    # discharged on the unchanged tree: retry once, alone, with a large budget, before saying anything
                    from pyvc.discharge import discharge as _dis

                    _dis([ob], procs=1, timeout_ms=int(os.environ.get("PYVC_RETRY_TIMEOUT_MS", "120000")))
                    if ob.result["status"] == "discharged":
                        self.notes.append(f"{ob.label}: discharged on retry with the large budget")
                        continue
                    if ob.result["status"] == "failed":
                        self._report_failed_obligation(rep, ob, k, findings, RP, searched)
                        continue
                outcome = RP.replay_obligation(self, rep, ob, searched, undecided=not in_baseline)
                kf = [x for x in findings if x["key"] == k]
                if kf and (outcome["found_input"] or in_baseline):
                    self.known.append(f"KNOWN-FINDING: property={self.pid} {k} {kf[0]['text']}")
                elif outcome["found_input"]:
                    self.violations.append({"key": k, "text": f"obligation {ob.label} is not provable and the real function breaks its contract on a concrete input", "replay": outcome["path"], "found_input": True})
                elif in_baseline:
                    # an obligation that was discharged on the unchanged tree can no longer be discharged
                    self.violations.append({"key": k, "text": f"obligation {ob.label} was discharged on the unchanged tree and cannot be discharged now ({ob.result['reason'][:160]})", "replay": outcome["path"], "found_input": False})
                else:
                    self.undecided.append(f"{ob.label}: {ob.result['reason']}")
        # bounded stand-ins
        for b in self.bounded:
            for e in b.errors:
                self.crashes.append(f"bounded[{b.name}]: {e}")
            seen = set()
            for f in b.failures:
                if f["key"] in seen:
                    continue
                seen.add(f["key"])
                kf = [x for x in findings if x["key"] == f["key"]]
                if kf:
                    self.known.append(f"KNOWN-FINDING: property={self.pid} {kf[0]['key']} {kf[0]['text']}")
                    continue
                path = RP.write_replay(self, kind="bounded", key=f["key"], what=f["what"], check=b.name, input=f["input"], observed=f["observed"])
                self.violations.append({"key": f["key"], "text": f["what"], "replay": path, "found_input": True})

    def _report_failed_obligation(self, rep, ob, key, findings, RP, searched=None):
        kf = [x for x in findings if x["key"] == key]
        outcome = RP.replay_obligation(self, rep, ob, searched)
        if kf:
            self.known.append(f"KNOWN-FINDING: property={self.pid} {key} {kf[0]['text']}")
            return
        self.violations.append(
            {"key": key, "text": f"obligation {ob.label} fails ({ob.kind}, line {ob.line})", "replay": outcome["path"], "found_input": outcome["found_input"]}
        )

    def exit_code(self):
        if self.crashes:
            return EXIT_CRASH
        if self.violations:
            return EXIT_VIOLATION
        if self.undecided:
            return EXIT_UNDECIDED
        return EXIT_OK

    # ------------------------------------------------------------------ evidence
    def write_evidence(self, prop_module):
        obs = [ob for rep in self.reports for ob in rep.obligations]
        discharged = [ob for ob in obs if ob.result and ob.result["status"] == "discharged"]
        by_backend = {}
        for ob in discharged:
            by_backend[ob.result["backend"]] = by_backend.get(ob.result["backend"], 0) + 1
        secs = [ob.result["seconds"] for ob in obs if ob.result]
        level = getattr(prop_module, "LEVEL", "proof")
        evaluations = sum(b.evaluations for b in self.bounded)
        distinct = sum(len(b.distinct) for b in self.bounded)
        trusted = sorted(set(_np4.TRUSTED_USED)) + sorted(_spec.LEMMAS_USED) + list(getattr(prop_module, "TRUSTED", []))
        coverage = {
            "obligations": len(obs),
            "discharged": len(discharged),
            "trivially_true_not_counted": sum(rep.trivial for rep in self.reports),
            "checker_cmd": f"./check {self.pid} --tier {self.tier}",
            "trusted_base": [
                "pyvc symbolic executor and its SMT encoding of Python/numpy (DESIGN.md 2)",
                "z3 5.1 / cvc5",
                "A-real: floats as mathematical reals; A-int64: numpy int64 as mathematical ints; A-alias: arrays are values",
                "partial correctness only (no termination proofs)",
            ]
            + trusted,
            "functions_under_contract": [
                {
                    "function": rep.label,
                    "file": rep.file,
                    "source_sha256": rep.sha,
                    "status": rep.status,
                    "reason": rep.reason,
                    "obligations": len(rep.obligations),
                    "paths": rep.paths,
                    "alternatives": rep.alternatives,
                    "precondition_satisfiable": rep.vacuity.get("requires_sat"),
                    "path_canaries": {r: rep.vacuity.get("canaries", []).count(r) for r in set(rep.vacuity.get("canaries", []))},
                    "callee_contracts_used": [f"{f}:{q}" for f, q in rep.callees],
                    "notes": rep.notes,
                }
                for rep in self.reports
            ],
            "by_backend": by_backend,
            "solver_seconds": {
                "total": round(sum(secs), 2),
                "max": round(max(secs), 2) if secs else 0,
                "slow": [ob.label for ob in obs if ob.result and ob.result["seconds"] > 10],
            },
            "assumed_at_call_sites": [
                f"{c.file}:{c.qualname} ({c.notes})" for c in REGISTRY.contracts.values() if c.assumed and any(p == self.pid for p in c.props)
            ],
            "dropped_constructs": "type annotations, docstrings, messages of raise/assert/warn (exception type kept), print/print_log, tqdm wrapper, del",
            "undecided": self.undecided,
            "failed": [v["key"] for v in self.violations],
            "known_findings": self.known,
            "evaluations": evaluations,
            "distinct_nontrivial": distinct,
            "rule": " || ".join(f"[{b.name}] {b.rule}" for b in self.bounded) or "no bounded stand-in in this tier",
            "exhaustive": bool(self.bounded) and all(b.exhaustive for b in self.bounded),
            "bounded_checks": [
                {
                    "name": b.name,
                    "evaluations": b.evaluations,
                    "distinct_nontrivial": len(b.distinct),
                    "exhaustive": b.exhaustive,
                    "functions_covered_only_this_way": b.functions,
                    "seconds": round(b.seconds, 2),
                    "failures": len(b.failures),
                }
                for b in self.bounded
            ],
            "samples": [
                {"obligation": ob.label, "kind": ob.kind, "line": ob.line, "smt2_bytes": len(ob.smt2()), "backend": ob.result["backend"], "seconds": ob.result["seconds"]}
                for ob in obs[:3]
            ]
            + [s for b in self.bounded for s in b.samples[:2]],
            "explanation": getattr(prop_module, "EXPLANATION", ""),
        }
        if not coverage["samples"]:
            coverage["samples"] = ["(nothing explored)"]
        ev = {
            "property_id": self.pid,
            "tier": self.tier,
            "seed": self.seed,
            "level": level,
            "coverage": coverage,
            "assumptions": list(getattr(prop_module, "ASSUMPTIONS", [])) + trusted,
            "wall_s": round(time.time() - self.t0, 2),
            "violations": len(self.violations),
        }
        os.makedirs(os.path.join(VERIF, "evidence"), exist_ok=True)
        path = os.path.join(VERIF, "evidence", f"{self.pid}.json")
        with open(path, "w") as f:
            json.dump(jsonable(ev), f, indent=1)
        return path


def run_property(pid, tier="quick", seed=0):
    random.seed(seed)
    try:
        import numpy as np

        np.random.seed(seed % (2**32))
    except Exception:
        pass
    prop = importlib.import_module(f"props.{pid}")
    for m in getattr(prop, "CONTRACT_MODULES", []):
        importlib.import_module(m)
    run = PropertyRun(pid, tier, seed)
    try:
        prop.run(run)
        run.conclude(prop)
    except Exception as e:  # noqa: BLE001
        run.crashes.append(f"{type(e).__name__}: {e}\n{traceback.format_exc(limit=10)}")
    try:
        run.write_evidence(prop)
    except Exception as e:  # noqa: BLE001
        run.crashes.append(f"evidence: {type(e).__name__}: {e}\n{traceback.format_exc(limit=6)}")
    obs = [ob for rep in run.reports for ob in rep.obligations]
    n_dis = sum(1 for ob in obs if ob.result and ob.result["status"] == "discharged")
    if os.environ.get("VERIF_REBASELINE") == "1":
        base = load_baseline()
        keys = {}
        for ob in obs:
            if ob.result and ob.result["status"] == "discharged":
                k = ob_key(ob)
                keys[k] = max(keys.get(k, 0.0), ob.result["seconds"])
        base[pid] = keys
        json.dump(base, open(os.path.join(VERIF, "baseline_obligations.json"), "w"), indent=0, sort_keys=True)
        print(f"[{pid}] baseline rewritten: {len(keys)} obligation keys")
    print(f"[{pid}] tier={tier} functions={len(run.reports)} obligations={len(obs)} discharged={n_dis} "
          f"bounded_evaluations={sum(b.evaluations for b in run.bounded)} wall={time.time()-run.t0:.1f}s")
    for rep in run.reports:
        if rep.status != "ok":
            print(f"  function {rep.label}: {rep.status}: {rep.reason}")
    for k in run.known:
        print(k)
    for u in run.undecided:
        print(f"UNDECIDED property={pid} {u}"[:600])
    for c in run.crashes:
        print(f"CHECKER-ERROR property={pid} {c}"[:2000])
    for v in run.violations:
        tail = "" if v["found_input"] else " no-failing-input-found"
        print(f"  violated: {v['text']}")
        print(f"VIOLATION property={pid} replay={v['replay']}{tail}")
    return run.exit_code()
