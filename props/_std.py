"""shared shape of a property module: prove the closure of contracts, then run the bounded stand-ins"""
import importlib
import time
import traceback


def run_bounded(run, pid, module=None):
    from vlib.runner import BoundedResult

    try:
        mod = importlib.import_module(module or f"bounded.{pid}")
        t0 = time.time()
        res = mod.run(run.tier, run.seed)
        run.bounded.extend(res)
    except Exception as e:  # noqa: BLE001
        b = BoundedResult(f"{pid}.bounded", "bounded stand-in crashed")
        b.errors.append(f"{type(e).__name__}: {e}\n{traceback.format_exc(limit=6)}")
        run.bounded.append(b)
