/-
Row-major index algebra (DESIGN.md 4.3, "unravel"): the facts about k / C, k % C and i * C + j that the contract of
LatticeMaze.get_nodes uses.  In the SMT encoding (pyvc/npmodel4.py: unravel_axioms) the three functions
unravel_row(k, C) = k / C, unravel_col(k, C) = k % C, ravel_index(i, j, C) = i * C + j are uninterpreted and only these
four statements are given to the solver.  Division and remainder are the Euclidean ones of SMT-LIB, which agree with
Python's // and % for a positive divisor.
-/
import Mathlib

theorem unravel_a1 (C i j : ℤ) (hC : 0 < C) (hi : 0 ≤ i) (hj0 : 0 ≤ j) (hj : j < C) :
    (i * C + j) / C = i ∧ (i * C + j) % C = j ∧ 0 ≤ i * C + j := by
  refine ⟨?_, ?_, add_nonneg (mul_nonneg hi hC.le) hj0⟩
  · rw [add_comm, Int.add_mul_ediv_right _ _ (ne_of_gt hC), Int.ediv_eq_zero_of_lt hj0 hj, zero_add]
  · rw [add_comm, Int.add_mul_emod_self_right, Int.emod_eq_of_lt hj0 hj]

theorem unravel_a2 (C k : ℤ) (hC : 0 < C) (hk : 0 ≤ k) :
    (k / C) * C + k % C = k ∧ 0 ≤ k % C ∧ k % C < C ∧ 0 ≤ k / C := by
  refine ⟨?_, Int.emod_nonneg k (ne_of_gt hC), Int.emod_lt_of_pos k hC, Int.ediv_nonneg hk hC.le⟩
  have := Int.mul_ediv_add_emod k C
  linarith [mul_comm C (k / C)]

theorem unravel_a3 (R C k : ℤ) (hC : 0 < C) (hk : k < R * C) : k / C < R :=
  Int.ediv_lt_of_lt_mul hC hk

theorem unravel_a4 (R C i j : ℤ) (hi : i < R) (hj0 : 0 ≤ j) (hj : j < C) : i * C + j < R * C := by
  have hC : 0 ≤ C := by linarith
  have h1 : i * C ≤ (R - 1) * C := mul_le_mul_of_nonneg_right (by linarith) hC
  nlinarith [h1]

/-
Three-dimensional version (np.ndindex over a (D, R, C) shape): the k-th index triple in row-major order is
(k / C / R, (k / C) % R, k % C) and the position of (d, x, y) is (d * R + x) * C + y.  `nd3_axioms` of pyvc/npmodel4.py gives the
solver exactly nd3_b1 and nd3_b2 about the uninterpreted nd3_d, nd3_x, nd3_y, flat3.
-/
theorem nd3_b1 (D R C k : ℤ) (hR : 0 < R) (hC : 0 < C) (hk0 : 0 ≤ k) (hk : k < D * R * C) :
    0 ≤ k / C / R ∧ k / C / R < D ∧ 0 ≤ (k / C) % R ∧ (k / C) % R < R ∧ 0 ≤ k % C ∧ k % C < C ∧
      ((k / C / R) * R + (k / C) % R) * C + k % C = k := by
  have h1 := unravel_a2 C k hC hk0
  have hq0 : 0 ≤ k / C := h1.2.2.2
  have hq : k / C < D * R := unravel_a3 (D * R) C k hC hk
  have h2 := unravel_a2 R (k / C) hR hq0
  have hd : k / C / R < D := unravel_a3 D R (k / C) hR hq
  refine ⟨h2.2.2.2, hd, h2.2.1, h2.2.2.1, h1.2.1, h1.2.2.1, ?_⟩
  rw [h2.1]; exact h1.1

theorem nd3_b2 (D R C d x y : ℤ) (hd0 : 0 ≤ d) (hd : d < D) (hx0 : 0 ≤ x) (hx : x < R) (hy0 : 0 ≤ y) (hy : y < C) :
    0 ≤ (d * R + x) * C + y ∧ (d * R + x) * C + y < D * R * C ∧ ((d * R + x) * C + y) / C / R = d ∧
      (((d * R + x) * C + y) / C) % R = x ∧ ((d * R + x) * C + y) % C = y := by
  have hR : 0 < R := by linarith
  have hC : 0 < C := by linarith
  have hq0 : 0 ≤ d * R + x := add_nonneg (mul_nonneg hd0 hR.le) hx0
  have a := unravel_a1 C (d * R + x) y hC hq0 hy0 hy
  have b := unravel_a1 R d x hR hd0 hx0 hx
  have hq : d * R + x < D * R := unravel_a4 D R d x hd hx0 hx
  refine ⟨a.2.2, unravel_a4 (D * R) C (d * R + x) y hq hy0 hy, ?_, ?_, a.2.1⟩
  · rw [a.1]; exact b.1
  · rw [a.1]; exact b.2.1

/-- psum_room: a prefix sum of a non-negative sequence, plus the next element, is at most any later prefix sum
    (used as `room` in true_before_lemma: a True cell at position t has fewer True cells before it than there are in total) -/
theorem psum_room (xs : ℕ → ℤ) (hnn : ∀ k, 0 ≤ xs k) (t n : ℕ) (h : t < n) :
    (Finset.range t).sum xs + xs t ≤ (Finset.range n).sum xs := by
  rw [← Finset.sum_range_succ]
  exact Finset.sum_le_sum_of_subset_of_nonneg (Finset.range_mono h) (fun k _ _ => hnn k)
