"""C05 - datasets survive serialization and disk round trips unchanged."""
ID = "C05"
LEVEL = "exploration"
LEVEL_TEXT = 'PROVED (unbounded, z3) for the minimal format: _serialize_minimal writes, for every dataset length, grid size and mix of solution lengths, exactly the connection lists, the solution lengths and the solutions (padded), with shape agreement and int8/int32 range obligations (loop invariant); _load_minimal rebuilds mazes with exactly those arrays and the solution ends as start/end; the round-trip lemma (same count, order, connection structure, solution, start, end) follows from the two contracts. The concatenated-solutions format, the full format, the threshold selection and real files are decided by the bounded stand-in. Bounded: round trips through all three formats, all threshold settings and real .zanj files for enumerated datasets (all generators, mixed solution lengths incl. length-1/2, with/without metadata), and collections member by member; arrays compared with np.array_equal.'
LEVEL_NOTE = 'Trusted: muutils/zanj internals. Configuration equality is judged on the configuration the dataset has after serialize() returned (minimal formats collect metadata in place: documented side effect).'
TECHNIQUE = "contracts on the minimal-format codec discharged by z3 (pyvc) + bounded stand-in of the contract-based verifier: run-time checking of the real code against an independent executable statement over an enumerated scope (the proved functions are listed in evidence)"
CONTRACT_MODULES = ["contracts.serialization"]
PROVE = [("maze_dataset/dataset/maze_dataset.py", "MazeDataset._serialize_minimal"), ("maze_dataset/dataset/maze_dataset.py", "MazeDataset._load_minimal"), ("/verif/contracts/lemmas_src.py", "minimal_roundtrip")]
ASSUMPTIONS = ["assumed contracts (dataclass/torch machinery, not verified against a body): SolvedMaze.__init__, MazeDataset.__init__; MazeDatasetConfig.load(serialize(cfg)) is cfg; json_serialize / load_item_recursive are the identity on in-memory arrays; the branch of _serialize_minimal that first collects generation metadata through the filter machinery is outside the verified subset (precondition: metadata already collected or absent)"]
EXPLANATION = "see DESIGN.md C05"


def run(run):
    from props._std import run_bounded

    if PROVE:
        run.prove(PROVE)
    run_bounded(run, "C05")
