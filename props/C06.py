"""C06 - modular tokenization is a faithful, decodable encoding of the maze."""
ID = "C06"
LEVEL = "exploration"
LEVEL_TEXT = "Bounded, with the statement's own quantifier: an independent decoder configured only from the tokenizer's parameters recovers regions, edge sets with marks, origin, target and step sequences, exhaustively per region over all 216 adjacency-list and 1008 path element configurations (a stratified slice in the quick tier) plus a pairwise-covering set of full configurations, on mazes of all three kinds."
LEVEL_NOTE = "Trusted: nothing beyond the harness's own decoder; the dynamic composition of tokenizer elements is outside the verified subset."
TECHNIQUE = "bounded stand-in of the contract-based verifier: run-time checking of the real code against an independent executable statement over an enumerated scope (no function of this property is in the verified subset yet)"
CONTRACT_MODULES = []
PROVE = []
ASSUMPTIONS = []
EXPLANATION = "see DESIGN.md C06"


def run(run):
    from props._std import run_bounded

    if PROVE:
        run.prove(PROVE)
    run_bounded(run, "C06")
