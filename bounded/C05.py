"""Bounded stand-in for C05: datasets (and collections) survive every storage format, in memory and through a real
.zanj file, unchanged.  The real MazeDataset / MazeDatasetCollection code is run; the comparison is done by hand on
arrays (never maze `==`, see C09).  Labelled bounded, never counted as proved."""
from __future__ import annotations

import json
import os
import shutil
import tempfile
import time
import traceback
import warnings

import numpy as np

from bounded import _dsutil as U
from vlib.runner import BoundedResult

MEM_CASES = [("threshold", "none"), ("threshold", "one"), ("threshold", "len"), ("threshold", "len+1"), ("full", None), ("minimal", None), ("soln_cat", None),
             # every format the library can WRITE goes back through the public dispatching loader as well
             ("minimal-via-load", None), ("soln_cat-via-load", None)]
FILE_CASES = [("file", "none"), ("file", "one"), ("file", "default")]


def _thr_value(code, n, default):
    return {"none": None, "zero": 0, "one": 1, "len": n, "len+1": n + 1, "default": default}[code]


PER_KEY = 3


def _fail(res, key, what, inp=None, observed=None):
    """record at most PER_KEY failures per stable key so that one defect cannot crowd out the others"""
    if sum(1 for f in res.failures if f["key"] == key) < PER_KEY:
        # the key travels with the input so that replay() judges exactly this failure and not another one on the same input
        res.fail(key, what, dict(inp, failed_key=key) if isinstance(inp, dict) else inp, observed)


def _jsonish(x):
    return json.loads(json.dumps(x, default=str))


class _Threshold:
    """set the module-level minimal-serialisation threshold and always restore the previous value"""

    def __init__(self, value, active=True):
        self.value, self.active = value, active

    def __enter__(self):
        import maze_dataset.dataset.maze_dataset as MD

        self.old = MD.SERIALIZE_MINIMAL_THRESHOLD
        if self.active:
            MD.set_serialize_minimal_threshold(self.value)

    def __exit__(self, *a):
        import maze_dataset.dataset.maze_dataset as MD

        MD.set_serialize_minimal_threshold(self.old)
        return False


def compare_dataset(res, pre, orig_arrays, pre_snap, pre_meta, ds, loaded, inp, fmt_used, is_minimal):
    """`ds` is the original AFTER serialisation, `loaded` what came back; keys are pre + ':<what>'"""
    from maze_dataset.dataset.maze_dataset import MazeDataset

    if not isinstance(loaded, MazeDataset):
        _fail(res, f"{pre}:type", f"round trip gave a {type(loaded).__name__}, not a MazeDataset", inp, repr(loaded)[:200])
        return
    # the receiver itself: mazes untouched; config unchanged except for the documented in-place metadata collection
    post_snap = U.snapshot(ds)
    if post_snap["arrays"] != pre_snap["arrays"] or post_snap["len"] != pre_snap["len"]:
        _fail(res, "C05:receiver-mutated:mazes", f"serialising ({fmt_used}) changed the mazes of the dataset being serialised", inp, None)
    if post_snap["cfg"] != pre_snap["cfg"]:
        before = json.loads(pre_snap["cfg"])
        after = json.loads(post_snap["cfg"])
        exp = dict(before)
        exp["applied_filters"] = list(before["applied_filters"]) + [{"name": "collect_generation_meta", "args": [], "kwargs": {}}]
        documented = is_minimal and pre_snap["collected"] == repr(None) and after == exp
        if not documented:
            _fail(res, "C05:receiver-mutated:cfg", f"serialising ({fmt_used}) changed the receiver's configuration other than by the documented collect_generation_meta entry", inp, {"before": before.get("applied_filters"), "after": after.get("applied_filters")})
    # number and order of mazes, arrays
    if len(loaded) != len(orig_arrays) or len(loaded.mazes) != len(orig_arrays):
        _fail(res, f"{pre}:length", f"{len(orig_arrays)} mazes written, {len(loaded)} read back ({fmt_used})", inp, len(loaded))
    for k, (orig, m) in enumerate(zip(orig_arrays, loaded.mazes)):
        got = (m.connection_list, m.solution, m.start_pos, m.end_pos)
        for name, a, b in zip(U.ARRAY_NAMES, orig, got):
            if not U.same_array(a, b):
                _fail(res, f"{pre}:{name}", f"maze {k}: {name} differs after the {fmt_used} round trip (shape {np.asarray(a).shape} -> {np.asarray(b).shape})", {**inp, "maze_index": k}, np.asarray(b).tolist())
                break
    # configuration: against the original's configuration after serialize() returned
    try:
        want = _jsonish(ds.cfg.serialize())
        got = _jsonish(loaded.cfg.serialize())
        if want != got:
            bad = sorted(k for k in set(want) | set(got) if want.get(k) != got.get(k))
            _fail(res, f"{pre}:cfg", f"configuration differs after the {fmt_used} round trip in {bad}", inp, {k: got.get(k) for k in bad if k != "maze_ctor"})
        elif not (loaded.cfg == ds.cfg) or loaded.cfg.n_mazes != ds.cfg.n_mazes or loaded.cfg.maze_ctor is not ds.cfg.maze_ctor:
            _fail(res, f"{pre}:cfg", f"configuration objects compare unequal after the {fmt_used} round trip", inp, None)
    except Exception as e:  # noqa: BLE001
        _fail(res, f"{pre}:cfg", f"configuration of the loaded dataset cannot be compared: {type(e).__name__}: {e}", inp, None)
    # collected metadata keeps keys and counts
    have = ds.generation_metadata_collected
    back = loaded.generation_metadata_collected
    if have is not None:
        if back is None or U.norm_collected(back, True) != U.norm_collected(have, True):
            _fail(res, f"{pre}:meta", f"collected generation metadata differs after the {fmt_used} round trip", inp, repr(back)[:300])
    elif back is not None:
        _fail(res, f"{pre}:meta", f"dataset without collected metadata came back with some ({fmt_used})", inp, repr(back)[:300])
    if pre_meta is not None and have is not None and pre_snap["collected"] == repr(None):
        if U.norm_collected(have, False) != U.norm_collected(U.recount(pre_meta), False):
            _fail(res, f"{pre}:meta-count", f"metadata collected while serialising ({fmt_used}) does not hold the exact value counts of the per-maze metadata", inp, repr(have)[:300])


def run_case(res, recipe, case, tmpdir, count=True):
    """one dataset recipe x one way of writing/reading it"""
    from maze_dataset.dataset.maze_dataset import MazeDataset
    import maze_dataset.dataset.maze_dataset as MD

    kind, code = case[0], case[1]
    inp = {"recipe": recipe, "case": [kind, code]}
    if recipe.get("kind") == "empty":
        from maze_dataset.dataset.maze_dataset import MazeDatasetConfig

        ds = MazeDataset(cfg=MazeDatasetConfig(name=recipe.get("name", "empty"), grid_n=int(recipe["grid_n"]), n_mazes=int(recipe.get("n_cfg", 0))), mazes=[])
    else:
        ds = U.build(recipe)
        if recipe.get("reread"):
            # second generation: the dataset under test was itself read from a file (metadata values have been through JSON: sets and
            # tuples come back as lists), and must survive every format again
            path0 = os.path.join(tmpdir, f"pre_{os.getpid()}_{res.evaluations}.zanj")
            with _Threshold({"file-full": None, "file-minimal": 1}[recipe["reread"]], active=True):
                ds.save(path0)
                ds = MazeDataset.read(path0)
            os.remove(path0)
    n = len(ds)
    orig_arrays = U.arrays_of(ds)
    pre_snap = U.snapshot(ds)
    pre_meta = [U.copy_meta(m.generation_meta) for m in ds.mazes] if all(m.generation_meta is not None for m in ds.mazes) and n else None
    has_meta = pre_meta is not None or ds.generation_metadata_collected is not None
    default_thr = MD.SERIALIZE_MINIMAL_THRESHOLD
    thr = _thr_value(code, n, default_thr) if code is not None else None
    if kind in ("threshold", "file"):
        want_fmt = "minimal" if (thr is not None and n >= thr) else "full"
    else:
        want_fmt = kind.replace("-via-load", "")
    key_fmt = {"threshold": want_fmt, "full": "full", "minimal": "minimal", "soln_cat": "soln_cat", "file": "file", "minimal-via-load": "minimal", "soln_cat-via-load": "soln_cat"}[kind]
    pre = f"C05:{key_fmt}"
    if count:
        res.seen((json.dumps(recipe, sort_keys=True), kind, code), nontrivial=n > 0, sample={"recipe": recipe, "case": [kind, code], "format": want_fmt, "n_mazes": n})
    if want_fmt != "full" and not has_meta:
        # quantifier: "with or without per-maze metadata, with or without collected metadata" x "all thresholds":
        # when the threshold (not the caller) picks the minimal format, the dataset must still be written
        if kind in ("minimal", "soln_cat", "minimal-via-load", "soln_cat-via-load"):
            return  # explicit minimal formats need metadata to collect: outside what the format allows
    try:
        with _Threshold(thr, active=kind in ("threshold", "file")):
            if kind == "threshold":
                data = ds.serialize()
                fmt_got = {"MazeDataset": "full", "MazeDataset:minimal": "minimal", "MazeDataset:minimal_soln_cat": "soln_cat"}.get(data["__format__"], data["__format__"])
                if fmt_got != want_fmt and n > 0:  # (for an empty dataset any format that survives the round trip is acceptable)
                    _fail(res, "C05:threshold:format-selection", f"threshold {thr}, {n} mazes: serialize() chose {fmt_got}, documented {want_fmt}", inp, fmt_got)
                loaded = MazeDataset.load(data)
            elif kind == "full":
                loaded = MazeDataset._load_full(ds._serialize_full())
            elif kind == "minimal":
                loaded = MazeDataset._load_minimal(ds._serialize_minimal())
            elif kind == "soln_cat":
                loaded = MazeDataset._load_minimal_soln_cat(ds._serialize_minimal_soln_cat())
            elif kind == "minimal-via-load":
                loaded = MazeDataset.load(ds._serialize_minimal())
            elif kind == "soln_cat-via-load":
                loaded = MazeDataset.load(ds._serialize_minimal_soln_cat())
            elif kind == "file":
                path = os.path.join(tmpdir, f"ds_{os.getpid()}_{res.evaluations}.zanj")
                ds.save(path)
                if not os.path.exists(path):
                    _fail(res, "C05:file:written", "save() returned without writing the file", inp, None)
                    return
                loaded = MazeDataset.read(path)
                os.remove(path)
            else:
                raise ValueError(kind)
    except Exception as e:  # noqa: BLE001
        tb = traceback.format_exc(limit=4)
        if n == 0:
            _fail(res, "C05:empty-dataset:raised", f"an empty dataset cannot be written/read under threshold {thr} ({kind}): {type(e).__name__}: {str(e)[:120]}", inp, tb[-400:])
        elif want_fmt != "full" and not has_meta:
            _fail(res, "C05:serialize:no-metadata", f"dataset without per-maze and without collected metadata cannot be written when the threshold selects the minimal format: {type(e).__name__}: {str(e)[:120]}", inp, tb[-400:])
        else:
            _fail(res, f"{pre}:raised", f"{kind}/{code} round trip ({want_fmt}) raised {type(e).__name__}: {str(e)[:160]}", inp, tb[-600:])
        return
    if n == 0 and kind in ("threshold", "file"):
        want_fmt = "full"  # nothing to collect or pad: compare as a plain round trip
    fmt_used = f"{want_fmt} format" + (f" selected by threshold={thr}" if kind in ("threshold", "file") else " (explicit)") + (" through a .zanj file" if kind == "file" else " in memory")
    compare_dataset(res, pre, orig_arrays, pre_snap, pre_meta, ds, loaded, inp, fmt_used, want_fmt != "full")


# --------------------------------------------------------------------------------------------- collections
def run_collection(res, member_recipes, thr_code, via, tmpdir, count=True, cfgmode="own"):
    from maze_dataset.dataset.collected_dataset import MazeDatasetCollection, MazeDatasetCollectionConfig
    from maze_dataset.dataset.maze_dataset import MazeDataset, MazeDatasetConfig

    inp = {"collection": member_recipes, "threshold": thr_code, "via": via, "cfgmode": cfgmode}
    pre = "C05:collection" if via == "memory" else "C05:collection-file"
    members = []
    for r in member_recipes:
        if r.get("kind") == "empty":
            members.append(MazeDataset(cfg=MazeDatasetConfig(name=r.get("name", "empty"), grid_n=int(r["grid_n"]), n_mazes=0), mazes=[]))
        else:
            members.append(U.build(r))
    thr = {"none": None, "one": 1, "big": 10 ** 6}[thr_code]
    any_empty = any(len(m) == 0 for m in members)
    fmt_used = ("full" if thr != 1 else "minimal") + f" member format (threshold={thr}), {'file' if via == 'file' else 'memory'}" + (", with an empty member" if any_empty else "")
    if count:
        res.seen((json.dumps(member_recipes, sort_keys=True), thr_code, via, cfgmode), nontrivial=True, sample={"members": [r.get("gen", r["kind"]) for r in member_recipes], "threshold": thr_code, "via": via, "cfgmode": cfgmode})
    snaps = [(U.arrays_of(m), U.snapshot(m), [U.copy_meta(x.generation_meta) for x in m.mazes] if len(m) and all(x.generation_meta is not None for x in m.mazes) else None) for m in members]
    try:
        # "own": the collection config holds the members' own config objects; "copy": equal but distinct objects, which is what
        # MazeDatasetCollection.generate() / load() produce (every member dataset owns a copy of its config)
        import copy as _copy

        cfgs = [m.cfg if cfgmode == "own" else _copy.deepcopy(m.cfg) for m in members]
        coll = MazeDatasetCollection(cfg=MazeDatasetCollectionConfig(name="coll", maze_dataset_configs=cfgs), maze_datasets=members)
    except Exception as e:  # noqa: BLE001
        res.errors.append(f"could not build a collection from {member_recipes}: {type(e).__name__}: {e}")
        return
    try:
        with _Threshold(thr):
            if via == "memory":
                loaded = MazeDatasetCollection.load(coll.serialize())
            else:
                path = os.path.join(tmpdir, f"coll_{os.getpid()}_{res.evaluations}.zanj")
                coll.save(path)
                loaded = MazeDatasetCollection.read(path)
                os.remove(path)
    except Exception as e:  # noqa: BLE001
        _fail(res, f"{pre}:raised", f"collection round trip ({fmt_used}) raised {type(e).__name__}: {str(e)[:160]}", inp, traceback.format_exc(limit=4)[-600:])
        return
    if not isinstance(loaded, MazeDatasetCollection):
        _fail(res, f"{pre}:type", f"collection round trip gave a {type(loaded).__name__}", inp, None)
        return
    if len(loaded.maze_datasets) != len(members):
        _fail(res, f"{pre}:members", f"{len(members)} member datasets written, {len(loaded.maze_datasets)} read back", inp, len(loaded.maze_datasets))
    try:
        want, got = _jsonish(coll.cfg.serialize()), _jsonish(loaded.cfg.serialize())
        if want != got:
            _fail(res, f"{pre}:cfg", "collection configuration differs after the round trip", inp, sorted(k for k in set(want) | set(got) if want.get(k) != got.get(k)))
    except Exception as e:  # noqa: BLE001
        _fail(res, f"{pre}:cfg", f"collection configuration cannot be compared: {type(e).__name__}: {e}", inp, None)
    if len(loaded) != sum(len(m) for m in members):
        _fail(res, f"{pre}:length", "total number of mazes differs", inp, len(loaded))
    for idx, (m, back, (arrs, snap, pmeta)) in enumerate(zip(members, loaded.maze_datasets, snaps)):
        compare_dataset(res, pre, arrs, snap, pmeta, m, back, {**inp, "member": idx}, fmt_used, thr == 1 and len(m) >= 1)


# --------------------------------------------------------------------------------------------- scope
def dataset_recipes(tier, rng):
    lens_quick = {2: [1, 5], 3: [2, 8], 4: [3, 7], 5: [1, 6], 6: [2, 4]}
    out = []
    for gi, gen in enumerate(U.GENS):
        for g in range(2, 7):
            lens = range(1, 9) if tier == "thorough" else lens_quick[g]
            for n in lens:
                for meta in ("permaze", "collected", "none"):
                    if tier != "thorough" and meta == "none" and (n + g + gi) % 2:
                        continue
                    out.append({"kind": "gen", "gen": gen, "grid_n": g, "n": int(n), "seed": int(rng.integers(0, 10 ** 6)), "meta": meta})
    # hand-made lists: mixed solution lengths, start==end (length 1), length 2, longest first / last (padding boundaries), full snakes
    for g in range(2, 7):
        full = g * g
        styles = {
            "mixed": [1, 2, 3, 1, full, 2, min(5, full), 1],
            "len1": [1, 1, 1],
            "len2": [2, 2, 2, 2],
            "len1-single": [1],
            "len2-single": [2],
            "longest-first": [full, 1, 2, 1],
            "longest-last": [1, 2, 1, full],
            "equal": [3, 3, 3, 3, 3],
            "snakes": [full, full],
        }
        for name, lengths in styles.items():
            for meta in ("permaze", "collected", "none", "empty"):
                if tier != "thorough" and meta != "permaze" and name not in ("mixed", "len1", "len2", "longest-last"):
                    continue
                out.append({"kind": "hand", "name": f"hand-{name}", "grid_n": g, "lengths": lengths, "seed": int(rng.integers(0, 10 ** 6)), "meta": meta})
    # second-generation datasets: read from a full-format / minimal-format file first, then written and read in every format again
    for gi, gen in enumerate(U.GENS):
        for how in ("file-full", "file-minimal"):
            if tier != "thorough" and how == "file-minimal" and gi % 2:
                continue
            out.append({"kind": "gen", "gen": gen, "grid_n": 3 + gi % 2, "n": 4, "seed": int(rng.integers(0, 10 ** 6)), "meta": "permaze", "reread": how})
    # configurations that record endpoint options (coordinate lists, flags, None) - the loaded configuration must be an EQUAL configuration
    for gi, (gen, ek) in enumerate([("gen_dfs", {"allowed_start": [[0, 0]], "allowed_end": [[1, 1], [0, 1]]}),
                                    ("gen_wilson", {"allowed_start": [[0, 0], [1, 0]], "deadend_end": True, "except_on_no_valid_endpoint": False}),
                                    ("gen_prim", {"allowed_end": [[0, 0]], "allowed_start": None, "endpoints_not_equal": True})]):
        out.append({"kind": "hand" if gi == 2 else "gen", "gen": gen, "name": f"endpoints-{gi}", "grid_n": 3, "n": 3, "lengths": [2, 3, 1], "seed": int(rng.integers(0, 10 ** 6)), "meta": "permaze", "endpoint_kwargs": ek})
    # empty datasets (stale configured count too)
    out.append({"kind": "empty", "name": "empty-ds", "grid_n": 3})
    out.append({"kind": "empty", "name": "empty-ds-stale-count", "grid_n": 2, "n_cfg": 5})
    # at / around the default threshold of 100 with a small grid
    out.append({"kind": "gen", "gen": "gen_dfs", "grid_n": 2, "n": 120, "seed": 5, "meta": "permaze"})
    out.append({"kind": "gen", "gen": "gen_wilson", "grid_n": 3, "n": 100, "seed": 6, "meta": "collected"})
    out.append({"kind": "hand", "name": "hand-100", "grid_n": 2, "lengths": [1 + (i % 4) for i in range(100)], "seed": 7, "meta": "permaze"})
    out.append({"kind": "hand", "name": "hand-99", "grid_n": 2, "lengths": [1 + (i % 4) for i in range(99)], "seed": 8, "meta": "permaze"})
    out.append({"kind": "hand", "name": "hand-101-nometa", "grid_n": 2, "lengths": [1 + (i % 3) for i in range(101)], "seed": 9, "meta": "empty"})
    if tier == "thorough":
        for gen in U.GENS:
            out.append({"kind": "gen", "gen": gen, "grid_n": 3, "n": 130, "seed": 11, "meta": "permaze"})
    return out


def collection_cases(tier):
    a = {"kind": "gen", "gen": "gen_dfs", "grid_n": 3, "n": 3, "seed": 1, "meta": "permaze", "name": "m-dfs"}
    b = {"kind": "gen", "gen": "gen_wilson", "grid_n": 2, "n": 2, "seed": 2, "meta": "permaze", "name": "m-wilson"}
    c = {"kind": "gen", "gen": "gen_percolation", "grid_n": 4, "n": 4, "seed": 3, "meta": "collected", "name": "m-perc"}
    d = {"kind": "hand", "name": "m-hand", "grid_n": 3, "lengths": [1, 2, 9, 1], "seed": 4, "meta": "permaze"}
    e = {"kind": "gen", "gen": "gen_prim", "grid_n": 5, "n": 2, "seed": 5, "meta": "none", "name": "m-prim-nometa"}
    f = {"kind": "gen", "gen": "gen_dfs_percolation", "grid_n": 6, "n": 3, "seed": 6, "meta": "permaze", "name": "m-dfsperc"}
    empty = {"kind": "empty", "grid_n": 2, "name": "m-empty"}
    groups = [[a], [a, b], [a, b, c, d], [d, f], [c], [f, a]]
    cases = []
    for grp in groups:
        for thr in ("none", "one", "big"):
            for via in ("memory", "file"):
                cases.append((grp, thr, via, "own"))
                if via == "memory" or thr == "one":
                    cases.append((grp, thr, via, "copy"))
    for grp in ([a, empty], [empty, d], [empty], [b, empty, e], [e, a]):
        for thr in ("none", "big", "one"):
            for via in ("memory", "file"):
                cases.append((grp, thr, via, "own"))
        cases.append((grp, "one", "memory", "copy"))
    return cases


def run(tier, seed):
    warnings.simplefilter("ignore")
    import maze_dataset.dataset.maze_dataset as MD

    rng = np.random.default_rng(seed)
    thr0 = MD.SERIALIZE_MINIMAL_THRESHOLD
    res = BoundedResult(
        "C05.dataset-roundtrip",
        rule="datasets from all five generators x grid_n 2..6 x lengths "
        + ("1..8" if tier == "thorough" else "a subset of 1..8 per grid")
        + " plus 99/100/101/120 mazes around the default threshold, EMPTY datasets under thresholds {None,0,1,default} in memory and through a file, and hand-made SolvedMaze lists (mixed lengths, length-1 start==end, length-2, longest first/last, "
        "all-equal, full-grid snakes), and SECOND-GENERATION datasets (first saved to and read from a full-format / minimal-format file, then put through every format again); metadata modes per-maze / collected / none / empty-collected; configurations recording endpoint options (coordinate lists, flags, None); EACH written and read back as: "
        "serialize()+load() under set_serialize_minimal_threshold in {None,1,len,len+1} (selected format checked: minimal iff threshold is not None and len>=threshold), "
        "explicit _serialize_full/_load_full, _serialize_minimal/_load_minimal, _serialize_minimal_soln_cat/_load_minimal_soln_cat, both minimal formats also through the dispatching MazeDataset.load (explicit minimal formats skipped for "
        "datasets with no metadata at all), and save()/read() through a real .zanj file under thresholds None (full), 1 (minimal) and the default; "
        "a fresh dataset per case; compared maze by maze with np.array_equal + shapes, cfg.serialize() against the original's cfg after serialize() returned, "
        "collected metadata by string-normalised keys and counts; distinct by (recipe, case); non-trivial = at least one maze",
        exhaustive=False,
        functions=["MazeDataset.serialize", "MazeDataset.load", "MazeDataset._serialize_full", "MazeDataset._load_full", "MazeDataset._serialize_minimal", "MazeDataset._load_minimal", "MazeDataset._serialize_minimal_soln_cat", "MazeDataset._load_minimal_soln_cat", "GPTDataset.save", "GPTDataset.read", "set_serialize_minimal_threshold"],
    )
    res2 = BoundedResult(
        "C05.collection-roundtrip",
        rule="MazeDatasetCollection of 1..4 member datasets (different generators, grids, metadata modes, a hand-made member) x member format selected by threshold "
        "{None: full, 1: minimal, 10^6: full} x {load(serialize()), save()/read() through a .zanj file} x collection config holding {the members' own config objects, equal "
        "copies of them (as after generate()/load())}; collections containing an EMPTY member dataset under all three thresholds; compared member by member exactly like single datasets plus the collection configuration",
        exhaustive=False,
        functions=["MazeDatasetCollection.serialize", "MazeDatasetCollection.load", "MazeDatasetCollectionConfig"],
    )
    os.makedirs("/var/tmp", exist_ok=True)
    tmpdir = tempfile.mkdtemp(prefix="c05_", dir="/var/tmp")
    t0 = time.time()
    try:
        for recipe in dataset_recipes(tier, rng):
            big = (recipe.get("n", 0) or len(recipe.get("lengths", []))) >= 99
            cases = MEM_CASES + FILE_CASES
            if recipe.get("kind") == "empty":
                cases = [("threshold", "none"), ("threshold", "zero"), ("threshold", "one"), ("full", None), ("file", "none"), ("file", "zero"), ("file", "default")]
            for case in cases:
                if case == ("file", "default") and not big and tier != "thorough" and recipe.get("kind") != "empty":
                    continue
                try:
                    run_case(res, recipe, case, tmpdir)
                except Exception as e:  # noqa: BLE001
                    res.errors.append(f"{recipe} {case}: {type(e).__name__}: {e}\n{traceback.format_exc(limit=5)}")
                    if len(res.errors) > 5:
                        raise
    except Exception as e:  # noqa: BLE001
        res.errors.append(f"{type(e).__name__}: {e}\n{traceback.format_exc(limit=5)}")
    res.seconds = time.time() - t0
    t1 = time.time()
    try:
        for grp, thr, via, cfgmode in collection_cases(tier):
            try:
                run_collection(res2, grp, thr, via, tmpdir, cfgmode=cfgmode)
            except Exception as e:  # noqa: BLE001
                res2.errors.append(f"{grp} {thr} {via}: {type(e).__name__}: {e}\n{traceback.format_exc(limit=5)}")
    finally:
        shutil.rmtree(tmpdir, ignore_errors=True)
        if MD.SERIALIZE_MINIMAL_THRESHOLD != thr0:
            MD.set_serialize_minimal_threshold(thr0)
    res2.seconds = time.time() - t1
    return [res, res2]


def replay(check, inp):
    """re-run one recorded case; True iff it now passes"""
    warnings.simplefilter("ignore")
    res = BoundedResult("replay", "replay")
    tmpdir = tempfile.mkdtemp(prefix="c05r_", dir="/var/tmp")
    try:
        if "collection" in inp:
            run_collection(res, inp["collection"], inp["threshold"], inp["via"], tmpdir, count=False, cfgmode=inp.get("cfgmode", "own"))
        else:
            case = inp["case"]
            run_case(res, inp["recipe"], (case[0], case[1]), tmpdir, count=False)
    finally:
        shutil.rmtree(tmpdir, ignore_errors=True)
    want = inp.get("failed_key") if isinstance(inp, dict) else None
    mine = [f for f in res.failures if want is None or f["key"] == want]
    for f in mine:
        print("  still failing:", f["key"], f["what"])
    for f in res.failures:
        if f not in mine:
            print("  (another check fails on this input:", f["key"] + ")")
    for e in res.errors:
        print("  replay error:", e)
    return not mine and not res.errors
