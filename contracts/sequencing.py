"""Sidecar contracts for the region layout of a modular token sequence (C06, first clause; the slicing helper is shared with C07's parser)."""
from pyvc.contracts import contract, Loop, REGISTRY
from pyvc import tys as T

TU = "maze_dataset/token_utils.py"
MT = "maze_dataset/tokenization/maze_tokenizer.py"

TOKS = T.ListT(T.Str)
_LO = "first_index(tokens, start_value) + (0 if include_start else 1)"
_HI = "first_index(tokens, end_value) + (1 if include_end else 0)"
_ABSENT = "(start_value not in tokens or end_value not in tokens)"
_NOT_UNIQUE = "(occurrences(tokens, start_value) != 1 or occurrences(tokens, end_value) != 1)"
_VALUE_ERROR = f"(start_value == end_value or (({_NOT_UNIQUE}) if except_when_tokens_not_unique else {_ABSENT}))"


@contract(TU, "tokens_between")
class tokens_between:
    """the slice between the FIRST occurrence of start_value and the FIRST occurrence of end_value, each end included or not as asked;
    ValueError exactly when the two values are equal, one of them is absent, or (if asked) one of them is not unique; AssertionError exactly
    when the slice would be empty or reversed"""
    params = dict(tokens=TOKS, start_value=T.Str, end_value=T.Str, include_start=T.Bool, include_end=T.Bool, except_when_tokens_not_unique=T.Bool)
    lets = dict(lo=_LO, hi=_HI)
    ensures = {
        "C06.between.len": "len(result) == hi - lo",
        "C06.between.items": "forall(lambda k: result[k] == tokens[lo + k], (0, hi - lo))",
        "C06.between.normal-only-when": f"not {_VALUE_ERROR} and lo < hi",
    }
    raises = {"ValueError": _VALUE_ERROR, "AssertionError": f"not {_VALUE_ERROR} and lo >= hi"}
    result = TOKS
    props = ["C06", "C07"]


_DELIMS = ["ADJLIST_START", "ADJLIST_END", "ORIGIN_START", "ORIGIN_END", "TARGET_START", "TARGET_END", "PATH_START", "PATH_END"]
# VOCAB.<NAME> is the real constant of maze_dataset.constants in every clause (read from the field list of its make_dataclass call)
_LA, _LO_, _LT, _LP = "len(adj_list)", "len(origin)", "len(target)", "len(path)"


def _layout(with_target):
    """the documented region layout as positional clauses over `result` (r) - every region between its own pair of delimiters, once, in order"""
    t = _LT if with_target else "0"
    o0 = f"({_LA} + 2)"            # position of ORIGIN_START
    t0 = f"({o0} + {_LO_} + 2)"    # position of TARGET_START
    p0 = f"({t0} + {t} + 2)"       # position of PATH_START
    cl = {
        "len": f"len(result) == {_LA} + {_LO_} + {t} + {_LP} + 8",
        "adjlist": f"result[0] == VOCAB.ADJLIST_START and forall(lambda j: result[j] == adj_list[j - 1], (1, {_LA} + 1)) and result[{_LA} + 1] == VOCAB.ADJLIST_END",
        "origin": f"result[{o0}] == VOCAB.ORIGIN_START and forall(lambda j: result[j] == origin[j - {o0} - 1], ({o0} + 1, {o0} + 1 + {_LO_})) and result[{o0} + {_LO_} + 1] == VOCAB.ORIGIN_END",
        "target": f"result[{t0}] == VOCAB.TARGET_START and " + (f"forall(lambda j: result[j] == target[j - {t0} - 1], ({t0} + 1, {t0} + 1 + {_LT})) and " if with_target else "") + f"result[{t0} + {t} + 1] == VOCAB.TARGET_END",
        "path": f"result[{p0}] == VOCAB.PATH_START and forall(lambda j: result[j] == path[j - {p0} - 1], ({p0} + 1, {p0} + 1 + {_LP})) and result[{p0} + {_LP} + 1] == VOCAB.PATH_END",
    }
    return {f"C06.layout.{k}": v for k, v in cl.items()}


@contract(MT, "PromptSequencers.AOTP._sequence_tokens")
class aotp_sequence:
    params = dict(self=T.RecT("AOTP"), adj_list=TOKS, origin=TOKS, target=TOKS, path=TOKS)
    ensures = _layout(True)
    result = TOKS
    props = ["C06"]


@contract(MT, "PromptSequencers.AOP._sequence_tokens")
class aop_sequence:
    """AOP keeps the (empty) target region's delimiters and never lists the target tokens"""
    params = dict(self=T.RecT("AOP"), adj_list=TOKS, origin=TOKS, target=TOKS, path=TOKS)
    ensures = _layout(False)
    result = TOKS
    props = ["C06"]


# ------------------------------------------------------------------------------------------- lemma: layout after trimming
L = "/verif/contracts/lemmas_src.py"
REGISTRY.class_files.update({"AOTP": MT, "AOP": MT, "_PromptSequencer": MT})
REGISTRY.inlinable.update({(MT, "PromptSequencers._PromptSequencer._trim_if_unsolved_maze")})
aotp_sequence.pure_result = True
aop_sequence.pure_result = True
_DISTINCT = " and ".join(f"VOCAB.{a} != VOCAB.{b}" for i, a in enumerate(_DELIMS) for b in _DELIMS[i + 1:])


def _no_delim(xs):
    return f"forall(lambda k: " + " and ".join(f"{xs}[k] != VOCAB.{d}" for d in _DELIMS) + f", (0, len({xs})))"


_FULL = "seq._sequence_tokens(adj_list, origin, target, path)"


def _prefix(n):
    return f"len(result) == {n} and forall(lambda k: result[k] == {_FULL}[k], (0, {n}))"


def _layout_lemma(cls, with_target):
    t = _LT if with_target else "0"

    class lemma:
        __doc__ = ("Lemma C06.regions: for region token lists that contain none of the eight delimiters, the sequence is the full layout for a solved maze, "
                   "the layout up to TARGET_END for a targeted maze and [ADJLIST_START, *adjacency, ADJLIST_END] for an untargeted one - each region delimited once, in order")
        params = dict(seq=T.RecT(cls), adj_list=TOKS, origin=TOKS, target=TOKS, path=TOKS, is_untargeted=T.Bool, is_unsolved=T.Bool)
        requires = [_no_delim("adj_list"), _no_delim("origin"), _no_delim("target"), _no_delim("path")]
        ensures = {
            "C06.regions.untargeted": f"implies(is_untargeted, {_prefix(_LA + ' + 2')})",
            "C06.regions.targeted": f"implies(not is_untargeted and is_unsolved, {_prefix(f'{_LA} + {_LO_} + {t} + 6')})",
            "C06.regions.solved": f"implies(not is_untargeted and not is_unsolved, {_prefix(f'{_LA} + {_LO_} + {t} + {_LP} + 8')})",
        }
        result = TOKS
        options = dict(no_concrete=True, alt=cls)
        props = ["C06"]

    return lemma


prompt_layout_aotp = contract(L, "prompt_layout")(_layout_lemma("AOTP", True))
prompt_layout_aop = contract(L, "prompt_layout_aop")(_layout_lemma("AOP", False))


REGISTRY.inlinable.update({(TU, "get_adj_list_tokens"), (TU, "get_origin_tokens"), (TU, "get_target_tokens"), (TU, "get_path_tokens")})


def _same(i, xs):
    return f"len(result[{i}]) == len({xs}) and forall(lambda k: result[{i}][k] == {xs}[k], (0, len({xs})))"


@contract(L, "regions_roundtrip")
class regions_roundtrip:
    """Lemma C06.decodable-regions: get_adj_list_tokens / get_origin_tokens / get_target_tokens / get_path_tokens(trim_end=True) - the real bodies, through
    the proved contract of tokens_between - return exactly the lists the AOTP sequence was built from.  Non-empty adjacency, origin and target regions are
    required: tokens_between refuses an empty slice (AssertionError; the observed behaviour for a maze without connections, outside C07's quantifier)."""
    params = dict(seq=T.RecT("AOTP"), adj_list=TOKS, origin=TOKS, target=TOKS, path=TOKS)
    requires = [_no_delim("adj_list"), _no_delim("origin"), _no_delim("target"), _no_delim("path"), "len(adj_list) >= 1", "len(origin) >= 1", "len(target) >= 1"]
    ensures = {
        "C06.regions.adjlist-back": _same(0, "adj_list"),
        "C06.regions.origin-back": _same(1, "origin"),
        "C06.regions.target-back": _same(2, "target"),
        "C06.regions.path-back": _same(3, "path"),
    }
    options = dict(no_concrete=True)
    props = ["C06", "C07"]
