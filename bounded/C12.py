"""Bounded stand-in for C12: the metadata (`maze.generation_meta`) of every maze produced by the five real generators
tells the truth about reachability, checked against the independent lattice-graph spec (vlib.pyspec).

Same scope as bounded/C01.py: EVERY random execution on small grids through the scripted random source
(bounded/_rngscript.py; Wilson up to a stated number of draws) plus seeded, recorded executions on larger grids.
Labelled bounded, never counted as proved."""
from __future__ import annotations

import math
import time
import warnings
from fractions import Fraction

import numpy as np

from bounded import _rngscript as RS
from vlib import pyspec as S
from vlib.runner import BoundedResult

CHECKER = "C12"
N_PATHS = 2  # seeded generate_random_path() draws per distinct (maze, metadata)


def requested_accessible(kwargs, n_total):
    """the requested number of accessible cells, from the documentation of the argument: None -> all cells,
    float f -> the proportion f of the total cells (whole cells: rounded down; only dyadic f are used, so f*n is exact), int -> itself"""
    a = kwargs.get("accessible_cells")
    if a is None:
        return n_total
    if isinstance(a, float):
        return math.floor(Fraction(a) * n_total)
    return int(a)


def _cells(x):
    return [tuple(int(v) for v in c) for c in x]


def check_execution(part, ex, cache):
    gen, (R, C), kwargs = ex.gen, ex.shape, ex.kwargs
    kk = RS.kwargs_key(kwargs)
    if ex.cut or ex.exc is not None or ex.maze is None:
        return  # no maze, no metadata: a raising generator is reported by C01 (C01:raises:<generator>)
    inp = ex.input()
    maze = ex.maze
    conn = getattr(maze, "connection_list", None)
    meta = getattr(maze, "generation_meta", None)
    if not isinstance(conn, np.ndarray) or conn.shape != (2, R, C):
        part.seen((gen, ex.shape, kk, "malformed"), nontrivial=False)
        return  # malformed output: C01:wf; the graph spec is not defined on it
    conn = conn.astype(np.bool_)
    if not isinstance(meta, dict):
        part.seen((gen, ex.shape, kk, conn.tobytes(), None), nontrivial=R * C >= 2)
        part.fail(f"C12:meta-missing:{gen}", f"{gen}({R}x{C}, {kwargs}): generation_meta is {type(meta).__name__}, not a dict", inp, repr(meta)[:200])
        return
    vis = meta.get("visited_cells")
    start = meta.get("start_coord")
    flag = meta.get("fully_connected", False)
    try:
        vset = None if vis is None else frozenset(_cells(vis))
        vdup = 0 if vis is None or isinstance(vis, (set, frozenset)) else len(_cells(vis)) - len(vset)
        start_t = None if start is None else tuple(int(v) for v in start)
    except Exception as e:  # noqa: BLE001 - metadata of an unusable form
        part.seen((gen, ex.shape, kk, conn.tobytes(), "unreadable"), nontrivial=R * C >= 2)
        part.fail(f"C12:visited_cells:{gen}", f"{gen}({R}x{C}, {kwargs}): visited_cells/start_coord are not collections of integer cells ({type(e).__name__}: {e})", inp, repr((vis, start))[:300])
        return
    okey = (gen, kk, conn.tobytes(), start_t, vset, repr(flag))
    sample = None
    if not part.samples or (R * C >= 4 and len(part.samples) < 3):
        sample = {"generator": gen, "shape": [R, C], "kwargs": kwargs, "script": ex.script[:64], "meta": {"start_coord": start_t, "fully_connected": flag, "visited_cells": None if vset is None else sorted(vset)[:30]}}
    part.seen((gen, ex.shape) + okey[1:], nontrivial=R * C >= 2, sample=sample)
    if okey in cache:
        return  # same generator, arguments, output and metadata already judged (every clause below is a function of those)
    cache[okey] = True
    n_total = R * C
    tag = f"{gen}({R}x{C}, {kwargs})"
    connected = S.is_connected(conn)

    # ---- recorded visited cells are exactly the cells reachable from the recorded start
    if vset is not None:
        if start_t is None or not S.in_grid((R, C), start_t):
            part.fail(f"C12:start_coord:{gen}", f"{tag}: visited_cells recorded but start_coord is {start_t}", inp, repr(start)[:100])
        else:
            reach = S.component(conn, start_t)
            if vdup:
                # "exactly the cells reachable": a list that names a cell twice is not that set (endpoint sampling draws distinct INDICES from it)
                part.fail(f"C12:visited_cells-repeated:{gen}", f"{tag}: visited_cells lists {vdup} cell(s) more than once", inp, sorted(_cells(vis)))
            if set(vset) != reach:
                part.fail(f"C12:visited_cells:{gen}", f"{tag}: visited_cells != cells reachable from start {start_t}: recorded-only {sorted(set(vset) - reach)[:6]}, reachable-only {sorted(reach - set(vset))[:6]}", inp, sorted(vset))
    # ---- the flag, when set, is true
    if flag and not connected:
        part.fail(f"C12:fully_connected:{gen}", f"{tag}: flagged fully connected but only {len(S.component(conn, (0, 0)))} of {n_total} cells are reachable from (0,0)", inp, conn.astype(int).tolist())
    # ---- plain depth-first generator: flag set exactly when connected
    if gen in ("gen_dfs", "gen_prim") and (("fully_connected" not in meta) or bool(flag) != connected):
        part.fail(f"C12:fully_connected-iff:{gen}", f"{tag}: fully_connected={meta.get('fully_connected', '<absent>')} but connected={connected}", inp, conn.astype(int).tolist())
    # ---- not flagged -> visited cells recorded
    if not flag and vset is None:
        part.fail(f"C12:visited_cells-missing:{gen}", f"{tag}: not flagged fully connected and no visited_cells recorded", inp, sorted(k for k in meta))
    # ---- (constrained) depth-first generator: a tree over exactly the visited cells, bounded by the request, corridor without forks
    if gen in ("gen_dfs", "gen_prim"):
        if vset is None:
            part.fail(f"C12:tree-over-visited:{gen}", f"{tag}: no visited_cells recorded by the depth-first generator", inp, sorted(k for k in meta))
        else:
            n_edges = int(conn.sum())
            stray = [sorted(e) for e in S.edge_set(conn) if not all(c in vset for c in e)]
            if n_edges != len(vset) - 1 or stray:
                part.fail(f"C12:tree-over-visited:{gen}", f"{tag}: {n_edges} connections for {len(vset)} visited cells; connections touching unvisited cells: {stray[:4]}", inp, conn.astype(int).tolist())
            n_acc = requested_accessible(kwargs, n_total)
            if len(vset) > max(1, n_acc):
                part.fail(f"C12:accessible-bound:{gen}", f"{tag}: {len(vset)} visited cells, more than the requested {n_acc} accessible cells", inp, sorted(vset))
            if kwargs.get("max_tree_depth") is None and kwargs.get("do_forks", True) and len(vset) != min(n_total, max(1, n_acc)):
                part.fail(f"C12:accessible-exact:{gen}", f"{tag}: {len(vset)} visited cells, expected exactly min({n_total}, max(1, {n_acc})) without depth or fork limit", inp, sorted(vset))
        if kwargs.get("do_forks", True) is False:
            deg = {c: len(S.neighbors(conn, c)) for c in S.cells((R, C))}
            if max(deg.values()) > 2:
                part.fail(f"C12:corridor:{gen}", f"{tag}: do_forks=False but cells {[c for c, d in deg.items() if d > 2][:4]} have more than 2 connections", inp, conn.astype(int).tolist())
    # ---- the component endpoint sampling trusts
    cc = None
    try:
        cc = _cells(maze.get_connected_component())
    except Exception as e:  # noqa: BLE001 - raised by the code under check
        part.fail(f"C12:connected_component:{gen}", f"{tag}: get_connected_component() raised {type(e).__name__}: {str(e)[:150]}", inp, repr(e)[:300])
    if cc is not None:
        if not cc or not all(S.in_grid((R, C), c) for c in cc):
            part.fail(f"C12:connected_component:{gen}", f"{tag}: get_connected_component() is empty or has cells outside the grid: {cc[:6]}", inp, cc)
        else:
            reach = S.component(conn, cc[0])
            bad = [c for c in cc if c not in reach]
            if bad:
                part.fail(f"C12:connected_component:{gen}", f"{tag}: get_connected_component() lists cells not reachable from {cc[0]}: {bad[:6]}", inp, cc)
    # ---- random endpoints are mutually reachable (documented preconditions: both sides > 1, at least 2 cells in the component)
    if cc is not None and R > 1 and C > 1 and len(set(cc)) >= 2:
        state = np.random.get_state()
        try:
            for i in range(N_PATHS):
                s = RS.stable_int("path", gen, kk, conn.tobytes(), i) % (2**32)
                np.random.seed(s)
                try:
                    path = _cells(maze.generate_random_path())
                except Exception as e:  # noqa: BLE001 - raised by the code under check
                    part.fail(f"C12:random_path:{gen}", f"{tag}: generate_random_path() (np.random.seed({s})) raised {type(e).__name__}: {str(e.args[0] if e.args else e)[:120]}", {**inp, "path_seed": s}, repr(e)[:300])
                    break
                if not path or path[-1] not in S.component(conn, path[0]) or not all(S.in_grid((R, C), c) for c in path):
                    part.fail(f"C12:random_path:{gen}", f"{tag}: generate_random_path() (np.random.seed({s})) returned {path[:8]}: endpoints not connected", {**inp, "path_seed": s}, path)
                    break
            # the same with endpoint options that name cells outside the connected part: a refusal ("no valid start or end positions found") is
            # fine, but endpoints that are drawn must be mutually reachable
            allc = [tuple(c) for c in S.cells((R, C))]
            for oi, opts in enumerate(({"allowed_end": allc}, {"allowed_start": allc, "deadend_end": True}, {"allowed_start": allc[::-1], "allowed_end": allc, "endpoints_not_equal": True})):
                s = RS.stable_int("path-opts", gen, kk, conn.tobytes(), oi) % (2**32)
                np.random.seed(s)
                try:
                    path = _cells(maze.generate_random_path(**opts))
                except ValueError as e:
                    if "no valid start or end positions" in str(e) or "low >= high" in str(e):
                        continue
                    part.fail(f"C12:random_path_options:{gen}", f"{tag}: generate_random_path({sorted(opts)}) (np.random.seed({s})) raised {type(e).__name__}: {str(e.args[0] if e.args else e)[:120]}", {**inp, "path_seed": s, "path_opts": oi}, repr(e)[:300])
                    break
                except Exception as e:  # noqa: BLE001 - raised by the code under check
                    part.fail(f"C12:random_path_options:{gen}", f"{tag}: generate_random_path({sorted(opts)}) (np.random.seed({s})) raised {type(e).__name__}: {str(e.args[0] if e.args else e)[:120]}", {**inp, "path_seed": s, "path_opts": oi}, repr(e)[:300])
                    break
                if not path or path[-1] not in S.component(conn, path[0]) or not all(S.in_grid((R, C), c) for c in path):
                    part.fail(f"C12:random_path_options:{gen}", f"{tag}: generate_random_path({sorted(opts)}) (np.random.seed({s})) returned {path[:8]}: endpoints not connected", {**inp, "path_seed": s, "path_opts": oi}, path)
                    break
        finally:
            np.random.set_state(state)


RS.register_checker(CHECKER, check_execution)

FUNCTIONS = [
    "LatticeMazeGenerators.gen_dfs",
    "LatticeMazeGenerators.gen_prim",
    "LatticeMazeGenerators.gen_wilson",
    "LatticeMazeGenerators.gen_percolation",
    "LatticeMazeGenerators.gen_dfs_percolation",
    "LatticeMaze.get_connected_component",
    "LatticeMaze.generate_random_path",
]


def _run_part(name, jobs, rule):
    t0 = time.time()
    res = BoundedResult(name, rule=rule, exhaustive=False, functions=FUNCTIONS)
    try:
        stats = RS.run_jobs(jobs, res)
        res.rule += f" || this run: {stats['executions']} executions in {stats['jobs']} jobs, completed per generator {dict(sorted(stats['by_gen'].items()))}, cut branches {stats['cut']}"
        missing = [g for g in RS.GENERATORS if not stats["by_gen"].get(g)]
        if missing:
            res.errors.append(f"no completed execution of {missing} (vacuous)")
    except Exception as e:  # noqa: BLE001
        import traceback

        res.errors.append(f"{type(e).__name__}: {e}\n{traceback.format_exc(limit=6)}")
    res.seconds = time.time() - t0
    return res


def run(tier, seed):
    warnings.simplefilter("ignore")
    ex_jobs, sd_jobs, ex_rule, sd_rule = RS.plan(CHECKER, tier, seed)
    extra = f"; per distinct (generator, kwargs, output, metadata): all metadata clauses + get_connected_component + {N_PATHS} seeded generate_random_path() draws + 3 draws with endpoint options naming every cell of the grid (grids with both sides > 1, component of >= 2 cells)"
    return [_run_part("C12.all-executions", ex_jobs, ex_rule + extra), _run_part("C12.seeded", sd_jobs, sd_rule + extra)]


def replay(check, inp):
    """re-run exactly the recorded execution (generator, shape, kwargs, decision script); True iff every C12 clause holds on it now"""
    warnings.simplefilter("ignore")
    part = RS.Partial()
    ex = RS.replay_input(inp)
    if ex.cut:
        print("  the recorded script is no longer a complete execution (draw cap reached)")
        return False
    if ex.exc is not None:
        print(f"  the generator now raises {type(ex.exc).__name__}: {ex.exc} (see C01)")
        return False
    check_execution(part, ex, {})
    for f in part.failures:
        print("  still failing:", f["key"], f["what"][:300])
    return not part.failures
