"""Bounded stand-in for C09: maze objects are values (total structural ==/!=, consistent hash, set/dict
de-duplication, MazeDataset.__eq__, endpoint bounds at construction).  Which dunder methods the three maze
classes have is decided by dataclasses/muutils at class creation, so this is observed on the real classes over
enumerated pairs; labelled bounded, never counted as proved.

The oracle is written from the statement: two mazes are equal iff `type(a) is type(b)` and connection_list,
start_pos, end_pos, solution are array-equal (generation_meta ignored).  It is evaluated on the *descriptors*
the mazes were built from, never through `==` on mazes.

Stable failure keys (one per defect class / input class):
  C09:eq-raises                  == or != raises ValueError            (known on the unchanged tree)
  C09:eq-raises-other            == or != raises something else
  C09:eq-not-bool                == or != returns something that is not a bool
  C09:eq-wrong-answer / C09:ne-wrong-answer
  C09:hash-targeted              hash(TargetedLatticeMaze) raises      (known)
  C09:hash-raises                hash of another kind raises
  C09:hash-not-int / C09:hash-unstable
  C09:hash-inconsistent          equal mazes (same dtypes) hash differently
  C09:hash-dtype                 equal mazes whose solution arrays differ only in integer dtype hash differently
  C09:dedup                      set / dict / dict.fromkeys does not merge equal mazes (or raises); also set/dict of two mazes with
                                 the same bits in transposed grid shapes (legitimate hash collision, so == decides)   (known)
  C09:dedup-unequal              set / dict of two unequal mazes that differ in the hashed content raises or merges them
  C09:dataset-eq-raises          MazeDataset == / != raises            (known)
  C09:dataset-eq-wrong-answer / C09:dataset-eq-not-bool
  C09:negative-endpoint-accepted (known) / C09:too-large-endpoint-accepted / C09:endpoint-wrong-exception /
  C09:valid-endpoint-rejected
"""
from __future__ import annotations

import operator
import time
import traceback
import warnings

import numpy as np

from vlib import pyspec as S
from vlib.runner import BoundedResult

KINDS = ("lattice", "targeted", "solved")
PER_KEY = 2  # recorded failures per key and check (the runner keeps at most 50 per check)


# ------------------------------------------------------------------------------------------------ plumbing
class Rep:
    """BoundedResult + per-key cap, so a defect that fires on every pair cannot crowd out the other keys"""

    def __init__(self, res):
        self.res = res
        self.counts = {}

    def fail(self, key, what, inp, observed=None):
        n = self.counts.get(key, 0)
        self.counts[key] = n + 1
        if n < PER_KEY:
            self.res.fail(key, what, {**(inp() if callable(inp) else inp), "key": key}, observed)

    def finish(self, t0):
        first = set()
        for f in self.res.failures:
            if f["key"] not in first:
                first.add(f["key"])
                f["what"] = f"{f['what']}   [{self.counts[f['key']]} occurrence(s) of this key in this check]"
        self.res.seconds = time.time() - t0


def _guard(rep, fn, *a):
    try:
        fn(rep, *a)
    except Exception as e:  # noqa: BLE001
        rep.res.errors.append(f"{type(e).__name__}: {e}\n{traceback.format_exc(limit=6)}")


def _classes():
    from maze_dataset.maze import LatticeMaze, SolvedMaze, TargetedLatticeMaze

    return {"lattice": LatticeMaze, "targeted": TargetedLatticeMaze, "solved": SolvedMaze}


# ------------------------------------------------------------------------------------------------ descriptors
def desc(kind, conn, start=None, end=None, solution=None, meta=None, sol_dtype="int64"):
    if kind == "solved":
        start, end = solution[0], solution[-1]
    if kind == "lattice":
        start = end = solution = None
    if kind == "targeted":
        solution = None
    return {
        "kind": kind,
        "conn": np.array(conn, dtype=np.bool_),
        "start": None if start is None else tuple(int(x) for x in start),
        "end": None if end is None else tuple(int(x) for x in end),
        "solution": None if solution is None else [tuple(int(x) for x in c) for c in solution],
        "meta": meta,
        "sol_dtype": sol_dtype,
    }


def from_json(j):
    return desc(j["kind"], np.array(j["conn"], dtype=np.bool_), j.get("start"), j.get("end"), j.get("solution"), j.get("meta"), j.get("sol_dtype", "int64"))


def to_json(d):
    return {
        "kind": d["kind"],
        "conn": d["conn"],
        "start": None if d["start"] is None else list(d["start"]),
        "end": None if d["end"] is None else list(d["end"]),
        "solution": None if d["solution"] is None else [list(c) for c in d["solution"]],
        "meta": d["meta"],
        "sol_dtype": d["sol_dtype"],
    }


def build(d):
    """a maze made of fresh arrays (no array object is shared between two built mazes)"""
    K = _classes()
    conn = d["conn"].copy()
    meta = None if d["meta"] is None else dict(d["meta"])
    if d["kind"] == "lattice":
        return K["lattice"](connection_list=conn, generation_meta=meta)
    if d["kind"] == "targeted":
        return K["targeted"](connection_list=conn, start_pos=np.array(d["start"]), end_pos=np.array(d["end"]), generation_meta=meta)
    return K["solved"](connection_list=conn, solution=np.array(d["solution"], dtype=d["sol_dtype"]), generation_meta=meta)


def spec_key(d):
    """canonical value of a maze according to the statement (generation_meta and dtypes play no role)"""
    return (d["kind"], d["conn"].shape, d["conn"].tobytes(), d["start"], d["end"], None if d["solution"] is None else tuple(d["solution"]))


def spec_equal(da, db):
    if da["kind"] != db["kind"]:
        return False
    if not np.array_equal(da["conn"], db["conn"]):
        return False
    for f in ("start", "end", "solution"):
        if (da[f] is None) != (db[f] is None):
            return False
        if da[f] is not None and not np.array_equal(np.array(da[f]), np.array(db[f])):
            return False
    return True


# ------------------------------------------------------------------------------------------------ == and !=
def check_cmp(rep, a, b, expect, inp, prefix="C09:", what="maze"):
    """a == b and a != b: no exception, a bool, the expected answer"""
    for op, sym, want in ((operator.eq, "==", expect), (operator.ne, "!=", not expect)):
        try:
            r = op(a, b)
        except ValueError as e:
            rep.fail(prefix + "eq-raises", f"{what} {sym} raises ValueError: {str(e)[:80]}", inp, f"{sym}: ValueError: {e}")
            continue
        except Exception as e:  # noqa: BLE001
            rep.fail(prefix + "eq-raises-other", f"{what} {sym} raises {type(e).__name__}: {str(e)[:80]}", inp, f"{sym}: {type(e).__name__}: {e}")
            continue
        if type(r) not in (bool, np.bool_):
            rep.fail(prefix + "eq-not-bool", f"{what} {sym} returns {type(r).__name__}, not a bool", inp, repr(r)[:200])
        elif bool(r) != want:
            k = "eq-wrong-answer" if sym == "==" else "ne-wrong-answer"
            if prefix != "C09:":
                k = "eq-wrong-answer"
            rep.fail(prefix + k, f"{what} {sym} returned {bool(r)}, statement says {want}", inp, bool(r))


def try_hash(rep, m, d, inp):
    """hash(m) or None; reports raising / non-int / unstable hashes"""
    try:
        h = hash(m)
        h2 = hash(m)
    except Exception as e:  # noqa: BLE001
        key = "C09:hash-targeted" if d["kind"] == "targeted" else "C09:hash-raises"
        rep.fail(key, f"hash({type(m).__name__}) raises {type(e).__name__}: {str(e)[:80]}", inp, f"{type(e).__name__}: {e}")
        return None
    if type(h) is not int:
        rep.fail("C09:hash-not-int", f"hash({type(m).__name__}) returned {type(h).__name__}", inp, repr(h))
        return None
    if h != h2:
        rep.fail("C09:hash-unstable", "two calls of hash() on the same object differ", inp, [h, h2])
    return h


def check_pair(rep, a, b, da, db, variant, share=False):
    """everything the statement says about one ordered pair"""
    expect = spec_equal(da, db)
    inp = lambda: {"case": "pair", "a": to_json(da), "b": to_json(db), "same_object": a is b, "share_arrays": share, "variant": variant}  # noqa: E731
    check_cmp(rep, a, b, expect, inp)
    ha = try_hash(rep, a, da, lambda: {"case": "hash", "a": to_json(da)})
    hb = try_hash(rep, b, db, lambda: {"case": "hash", "a": to_json(db)})
    if ha is None or hb is None:
        return  # set/dict use depends on hashing; reported under the hash key
    if expect:
        if ha != hb:
            key = "C09:hash-dtype" if da["sol_dtype"] != db["sol_dtype"] else "C09:hash-inconsistent"
            rep.fail(key, f"equal mazes have different hashes ({variant})", inp, [ha, hb])
        dedup_ops(rep, [a, b, a], [a], inp, "C09:dedup", f"equal mazes ({variant})")
    else:
        # two mazes with the same bits in transposed grid shapes have the same bytes, so their hashes may legitimately collide and
        # set/dict use then depends on == exactly as it does for equal mazes: same defect class as C09:dedup.  All other unequal
        # variants differ in the hashed bytes, so their set/dict use does not depend on == (C09:dedup-unequal).
        key = "C09:dedup" if variant == "shape-transposed-same-bits" else "C09:dedup-unequal"
        dedup_ops(rep, [a, b], [a, b], inp, key, f"unequal mazes ({variant})")


def dedup_ops(rep, items, want, inp, key, what):
    """set, dict and dict.fromkeys over `items` must keep exactly the first occurrences `want` (by identity)"""
    try:
        n = len(set(items))
        if n != len(want):
            rep.fail(key, f"len(set) of {what} is {n}, expected {len(want)}", inp, n)
    except Exception as e:  # noqa: BLE001
        rep.fail(key, f"set of {what} raises {type(e).__name__}: {str(e)[:60]}", inp, f"set: {type(e).__name__}: {e}")
    try:
        dct = {}
        for k, m in enumerate(items):
            dct[m] = k
        if len(dct) != len(want):
            rep.fail(key, f"dict keyed by {what} has {len(dct)} keys, expected {len(want)}", inp, len(dct))
        else:
            for w in want:
                last = max(k for k, m in enumerate(items) if any(m is x for x in _same_class(items, want, w)))
                if dct[w] != last:
                    rep.fail(key, f"dict lookup by {what} does not return the value stored under the equal key", inp, [dct[w], last])
    except Exception as e:  # noqa: BLE001
        rep.fail(key, f"dict keyed by {what} raises {type(e).__name__}: {str(e)[:60]}", inp, f"dict: {type(e).__name__}: {e}")
    try:
        got = list(dict.fromkeys(items))
        if len(got) != len(want) or any(g is not w for g, w in zip(got, want)):
            rep.fail(key, f"list(dict.fromkeys(...)) of {what} keeps {len(got)} items, expected the {len(want)} first occurrences", inp, len(got))
    except Exception as e:  # noqa: BLE001
        rep.fail(key, f"dict.fromkeys of {what} raises {type(e).__name__}: {str(e)[:60]}", inp, f"fromkeys: {type(e).__name__}: {e}")


def _same_class(items, want, w):
    """the members of `items` that the statement puts in the equivalence class represented by w.
    dedup_ops is only called with items = [a, b, a] / want = [a] (all equal) or items = want (all distinct) or with
    `items` carrying a `_cls` side table (collections)"""
    side = getattr(items, "cls", None)
    if side is not None:
        return side[id(w)]
    if len(want) == 1:
        return list(items)
    return [w]


class _Items(list):
    """list with a side table {id(representative): [members equal to it]}"""

    cls = None


# ------------------------------------------------------------------------------------------------ populations
def population_2x2():
    """three kinds x all 16 connection structures on 2x2 x all endpoint pairs x (solved) all shortest solutions"""
    out = []
    cells = S.cells((2, 2))
    for conn in S.all_conn_lists(2, 2):
        out.append(desc("lattice", conn))
        for s in cells:
            for e in cells:
                out.append(desc("targeted", conn, s, e))
                for sol in S.all_shortest_paths(conn, s, e):
                    out.append(desc("solved", conn, solution=sol))
    return out


def _embed(conn, R, C):
    out = np.zeros((2, R, C), dtype=np.bool_)
    r, c = conn.shape[1:]
    out[:, :r, :c] = conn
    return out


def seeded_family(rng, R, C):
    """one base maze in three kinds and variants differing in exactly one thing; list of (descriptor, variant)"""
    cells = S.cells((R, C))
    for _ in range(200):
        conn = S.random_conn(rng, R, C, p=float(rng.choice([0.4, 0.6, 0.8])))
        s = cells[int(rng.integers(len(cells)))]
        comp = sorted(S.component(conn, s))
        far = [c for c in comp if S.bfs_dist(conn, s)[c] >= 2]
        if far:
            break
    else:
        raise RuntimeError("no base maze with a solution of >= 3 cells found")
    e = far[int(rng.integers(len(far)))]
    paths = S.all_shortest_paths(conn, s, e)
    sol = paths[int(rng.integers(len(paths)))]
    fam = []

    def add(variant, conn_, s_, e_, sol_, meta=None, kinds=KINDS, sol_dtype="int64"):
        for k in kinds:
            fam.append((desc(k, conn_, s_, e_, sol_, meta, sol_dtype), variant))

    add("base", conn, s, e, sol)
    add("equal-copy", conn, s, e, sol)
    add("meta-only", conn, s, e, sol, meta={"func_name": "x", "grid_shape": [R, C], "n": int(rng.integers(100))})
    add("solution-dtype-only", conn, s, e, sol, kinds=("solved",), sol_dtype="int8")
    # exactly one connection bit
    slots = S.lattice_edge_slots(R, C)
    slot = slots[int(rng.integers(len(slots)))]
    c2 = conn.copy()
    c2[slot] = not c2[slot]
    add("one-connection-bit", c2, s, e, sol)
    # exactly one endpoint (for a solved maze the endpoint is the first / last solution cell)
    others = [c for c in cells if c != s and c != e]
    o = others[int(rng.integers(len(others)))]
    add("start-only", conn, o, e, [o] + sol[1:])
    add("end-only", conn, s, o, sol[:-1] + [o])
    add("endpoints-swapped", conn, e, s, sol[::-1])
    # exactly one solution cell, endpoints unchanged; and a longer solution with the same endpoints
    mid = int(rng.integers(1, len(sol) - 1))
    repl = [c for c in cells if c != sol[mid]]
    sol2 = sol[:mid] + [repl[int(rng.integers(len(repl)))]] + sol[mid + 1 :]
    add("one-solution-cell", conn, s, e, sol2, kinds=("solved",))
    add("solution-length", conn, s, e, sol[:2] + sol[:1] + sol[1:], kinds=("solved",))
    # shape: same bits embedded in a larger grid, one more row, and the same bits read in the transposed shape
    add("shape-larger", _embed(conn, R + 1, C + 1), s, e, sol)
    add("shape-extra-row", _embed(conn, R + 1, C), s, e, sol)
    return fam


def transposed_pair(rng, R, C):
    """two oblong mazes with the same bits (hence the same bytes) in shapes (2,R,C) and (2,C,R)"""
    bits = rng.random(2 * R * C) < 0.5
    out = []
    for k in KINDS:
        a = desc(k, bits.reshape(2, R, C), (0, 0), (1, 1), [(0, 0), (0, 1), (1, 1)])
        b = desc(k, bits.reshape(2, C, R), (0, 0), (1, 1), [(0, 0), (0, 1), (1, 1)])
        out.append((a, b))
    return out


# ------------------------------------------------------------------------------------------------ checks
def run_pairs_2x2(rep):
    descs = population_2x2()
    A = [build(d) for d in descs]
    B = [build(d) for d in descs]
    keys = [spec_key(d) for d in descs]
    res = rep.res
    n = len(descs)
    for i in range(n):
        a, da, ka = A[i], descs[i], keys[i]
        res.seen(("2x2", i, i, "id"), nontrivial=False)
        check_cmp(rep, a, a, True, lambda: {"case": "pair", "a": to_json(da), "b": to_json(da), "same_object": True, "share_arrays": False, "variant": "identical-object"})
        for j in range(n):
            b, db = B[j], descs[j]
            expect = ka == keys[j]
            inp = lambda: {"case": "pair", "a": to_json(da), "b": to_json(db), "same_object": False, "share_arrays": False, "variant": "2x2"}  # noqa: E731,B023
            res.seen(("2x2", i, j), nontrivial=True, sample=None if (i, j) != (40, 40) else {"a": to_json(da), "b": to_json(db), "expected_equal": expect})
            check_cmp(rep, a, b, expect, inp)
            check_cmp(rep, b, a, expect, lambda: {"case": "pair", "a": to_json(db), "b": to_json(da), "same_object": False, "share_arrays": False, "variant": "2x2"})  # noqa: B023
    return descs, A, B, keys


def run_hash_2x2(rep, descs, A, B, keys):
    res = rep.res
    n = len(descs)
    hs = []
    for i in range(n):
        inp = lambda: {"case": "hash", "a": to_json(descs[i])}  # noqa: E731,B023
        ha = try_hash(rep, A[i], descs[i], inp)
        hb = try_hash(rep, B[i], descs[i], inp)
        res.seen(("hash", i), nontrivial=True, sample={"a": to_json(descs[i])})
        hs.append(ha)
        if ha is None or hb is None:
            continue
        pin = lambda: {"case": "pair", "a": to_json(descs[i]), "b": to_json(descs[i]), "same_object": False, "share_arrays": False, "variant": "equal-copy"}  # noqa: E731,B023
        if ha != hb:
            rep.fail("C09:hash-inconsistent", "equal copies have different hashes", pin, [ha, hb])
        dedup_ops(rep, [A[i], B[i], A[i]], [A[i]], pin, "C09:dedup", "equal copies")
    # unequal pairs: both must survive in a set / dict
    for i in range(n):
        if hs[i] is None:
            continue
        for j in range(i + 1, n):
            if hs[j] is None:
                continue
            res.seen(("set2", i, j), nontrivial=True)
            try:
                ok = len({A[i], A[j]}) == 2
                obs = "merged"
            except Exception as e:  # noqa: BLE001
                ok, obs = False, f"{type(e).__name__}: {e}"
            if not ok:
                rep.fail("C09:dedup-unequal", f"set of two unequal mazes: {obs[:80]}", {"case": "pair", "a": to_json(descs[i]), "b": to_json(descs[j]), "same_object": False, "share_arrays": False, "variant": "2x2-unequal"}, obs)
    # whole population per kind: originals and copies interleaved must collapse to the originals, in order
    for kind in KINDS:
        idx = [i for i in range(n) if descs[i]["kind"] == kind]
        if any(hs[i] is None for i in idx):
            continue  # reported under the hash key; everything below depends on hashing
        items = _Items()
        items.cls = {}
        for i in idx:
            items += [A[i], B[i]]
            items.cls[id(A[i])] = [A[i], B[i]]
        res.seen(("collection", kind), nontrivial=True)
        dedup_ops(rep, items, [A[i] for i in idx], {"case": "collection-2x2", "kind": kind}, "C09:dedup", f"all {len(idx)} 2x2 {kind} mazes and their copies")


def run_seeded(rep, rng, n_fam):
    res = rep.res
    for f in range(n_fam):
        R, C = [(3, 3), (4, 4), (3, 4), (4, 3)][f % 4]
        fam = seeded_family(rng, R, C)
        objs = [build(d) for d, _ in fam]
        for i, (da, va) in enumerate(fam):
            for j, (db, vb) in enumerate(fam):
                variant = "identical-object" if i == j else (vb if va == "base" else va if vb == "base" else f"{va}/{vb}")
                if va == vb == "base" and i != j:
                    variant = "kind-only"
                res.seen(("fam", f, i, j), nontrivial=i != j, sample={"a": to_json(da), "b": to_json(db), "variant": variant} if i == 0 and j == 14 else None)
                check_pair(rep, objs[i], objs[j], da, db, variant)
        # a second maze object built on the very same array objects (value semantics must not depend on sharing)
        base_l = objs[0]
        shared = type(base_l)(connection_list=base_l.connection_list)
        res.seen(("fam", f, "shared"), nontrivial=True)
        check_pair(rep, base_l, shared, fam[0][0], fam[0][0], "shared-arrays", share=True)
        # whole family in one collection, per kind
        for kind in KINDS:
            idx = [i for i, (d, _) in enumerate(fam) if d["kind"] == kind]
            reps, items = [], _Items()
            items.cls = {}
            hashable = True
            for i in idx:
                try:
                    hash(objs[i])
                except Exception:  # noqa: BLE001
                    hashable = False
                    break
                items.append(objs[i])
                for r in reps:
                    if spec_equal(fam[r][0], fam[i][0]):
                        items.cls[id(objs[r])].append(objs[i])
                        break
                else:
                    reps.append(i)
                    items.cls[id(objs[i])] = [objs[i]]
            if not hashable:
                continue
            res.seen(("fam", f, "collection", kind), nontrivial=True)
            dedup_ops(rep, items, [objs[r] for r in reps], {"case": "collection", "mazes": [to_json(fam[i][0]) for i in idx]}, "C09:dedup", f"a family of {len(idx)} {kind} mazes with {len(reps)} distinct values")
        # transposed shapes with the same bits
        for da, db in transposed_pair(rng, 2 + f % 2, 4):
            a, b = build(da), build(db)
            res.seen(("fam", f, "transposed", da["kind"]), nontrivial=True)
            check_pair(rep, a, b, da, db, "shape-transposed-same-bits")
            check_pair(rep, b, a, db, da, "shape-transposed-same-bits")


# -- datasets
def _cfg(p):
    from maze_dataset import MazeDatasetConfig

    return MazeDatasetConfig(name=p["name"], grid_n=p["grid_n"], n_mazes=p["n_mazes"], seed=p["seed"])


def build_dataset(dd, share_from=None):
    from maze_dataset import MazeDataset

    mazes = list(share_from.mazes) if share_from is not None else [build(m) for m in dd["mazes"]]
    return MazeDataset(cfg=_cfg(dd["cfg"]), mazes=mazes)


def spec_dataset_equal(da, db):
    return da["cfg"] == db["cfg"] and len(da["mazes"]) == len(db["mazes"]) and all(spec_equal(x, y) for x, y in zip(da["mazes"], db["mazes"]))


def ds_json(dd):
    return {"cfg": dict(dd["cfg"]), "mazes": [to_json(m) for m in dd["mazes"]]}


def check_dataset_pair(rep, A, B, da, db, variant, shared=False):
    expect = spec_dataset_equal(da, db)
    inp = lambda: {"case": "dataset", "a": ds_json(da), "b": ds_json(db), "same_object": A is B, "shared_mazes": shared, "variant": variant}  # noqa: E731
    check_cmp(rep, A, B, expect, inp, prefix="C09:dataset-", what="MazeDataset")


def run_datasets(rep, rng, n_fam):
    res = rep.res
    for f in range(n_fam):
        n = 3 + f % 2
        ms = []
        while len(ms) < 3:
            fam = seeded_family(rng, n, n)
            d = [x for x, v in fam if v == "base" and x["kind"] == "solved"][0]
            if all(not spec_equal(d, m) for m in ms):
                ms.append(d)
        bit = [x for x, v in seeded_family(rng, n, n) if x["kind"] == "solved"][0]
        cfgA = {"name": "a", "grid_n": n, "n_mazes": 3, "seed": 7}
        m0b = dict(ms[0])
        m0b["conn"] = ms[0]["conn"].copy()
        slot = S.lattice_edge_slots(n, n)[int(rng.integers(len(S.lattice_edge_slots(n, n))))]
        m0b["conn"][slot] = not m0b["conn"][slot]
        m2s = dict(ms[2])
        m2s["solution"] = ms[2]["solution"] + ms[2]["solution"][-2:-1]
        m2s["end"] = m2s["solution"][-1]
        m1m = dict(ms[1])
        m1m["meta"] = {"func_name": "y"}
        fam_ds = [
            ("base", {"cfg": cfgA, "mazes": ms}),
            ("equal-copy", {"cfg": dict(cfgA), "mazes": ms}),
            ("meta-only", {"cfg": cfgA, "mazes": [ms[0], m1m, ms[2]]}),
            ("first-maze-one-bit", {"cfg": cfgA, "mazes": [m0b, ms[1], ms[2]]}),
            ("last-maze-solution", {"cfg": cfgA, "mazes": [ms[0], ms[1], m2s]}),
            ("other-maze", {"cfg": cfgA, "mazes": [ms[0], bit, ms[2]]}),
            ("prefix", {"cfg": cfgA, "mazes": ms[:2]}),
            ("reordered", {"cfg": cfgA, "mazes": ms[::-1]}),
            ("empty", {"cfg": cfgA, "mazes": []}),
            ("empty-copy", {"cfg": dict(cfgA), "mazes": []}),
            ("cfg-grid_n", {"cfg": {**cfgA, "grid_n": n + 1}, "mazes": ms}),
            ("cfg-name", {"cfg": {**cfgA, "name": "b"}, "mazes": ms}),
            ("cfg-seed", {"cfg": {**cfgA, "seed": 8}, "mazes": ms}),
            ("cfg-and-maze", {"cfg": {**cfgA, "name": "b"}, "mazes": [m0b, ms[1], ms[2]]}),
        ]
        objs = [build_dataset(dd) for _, dd in fam_ds]
        for i, (va, da) in enumerate(fam_ds):
            for j, (vb, db) in enumerate(fam_ds):
                res.seen(("ds", f, i, j), nontrivial=i != j, sample={"a": ds_json(da), "b": ds_json(db)} if (i, j) == (0, 3) else None)
                check_dataset_pair(rep, objs[i], objs[j], da, db, "identical-object" if i == j else f"{va}/{vb}")
        # same maze objects in two dataset objects
        sh = build_dataset(fam_ds[0][1], share_from=objs[0])
        res.seen(("ds", f, "shared"), nontrivial=True)
        check_dataset_pair(rep, objs[0], sh, fam_ds[0][1], fam_ds[0][1], "shared-maze-objects", shared=True)
        # against things that are not datasets
        for other in (0, None, "x", [], list(objs[0].mazes)):
            res.seen(("ds", f, "other", repr(type(other))), nontrivial=True)
            inp = {"case": "dataset-other", "a": ds_json(fam_ds[0][1]), "other": repr(other)[:40] if not isinstance(other, list) else ("mazes" if other else "[]")}
            check_cmp(rep, objs[0], other, False, inp, prefix="C09:dataset-", what="MazeDataset vs non-dataset")


# -- endpoints
def bad_coords(R, C):
    # ... and coordinates that are congruent to an in-grid value modulo 2^8 / 2^16 / 2^32 (an endpoint narrowed to a small integer type before the
    # bounds check would pass it)
    return [(-1, 0), (0, -1), (R, 0), (0, C), (R + 3, C + 3), (-1, -1), (-R, 0), (0, -C), (R - 1, C), (R, C - 1),
            (256, 0), (0, 256), (256 + R - 1, C - 1), (-256, 0), (0, 65536), (2**32, 0)]


def check_endpoint(rep, kind, conn, start, end, form, valid):
    """constructing with these endpoints must raise ValueError iff one of them is outside the grid"""
    K = _classes()
    R, C = conn.shape[1:]
    conv = {"tuple": tuple, "list": list, "array": np.array}[form]
    inp = {"case": "endpoint", "kind": kind, "conn": conn, "start": list(start), "end": list(end), "form": form}
    try:
        if kind == "targeted":
            m = K["targeted"](connection_list=conn.copy(), start_pos=conv(start), end_pos=conv(end))
        else:
            sol = [tuple(start), tuple(end)]
            m = K["solved"](connection_list=conn.copy(), solution=np.array(sol) if form == "array" else [conv(c) for c in sol])
    except ValueError as e:
        if valid:
            rep.fail("C09:valid-endpoint-rejected", f"{kind} maze with in-grid endpoints {start}->{end} on {R}x{C} rejected: {str(e)[:60]}", inp, f"ValueError: {e}")
        return
    except Exception as e:  # noqa: BLE001
        rep.fail("C09:endpoint-wrong-exception" if not valid else "C09:valid-endpoint-rejected", f"{kind} maze with endpoints {start}->{end} on {R}x{C} raises {type(e).__name__}, not ValueError", inp, f"{type(e).__name__}: {e}")
        return
    if not valid:
        neg = min(min(start), min(end)) < 0
        key = "C09:negative-endpoint-accepted" if neg else "C09:too-large-endpoint-accepted"
        rep.fail(key, f"{kind} maze on {R}x{C} accepts endpoints start={tuple(start)} end={tuple(end)}", inp, [m.start_pos.tolist(), m.end_pos.tolist()])


def run_endpoints(rep, rng, tier):
    res = rep.res
    shapes = [(2, 2), (3, 3), (2, 3), (3, 2), (4, 4), (1, 3)] + ([(5, 5), (6, 2), (1, 1), (7, 7)] if tier == "thorough" else [])
    for R, C in shapes:
        conns = [np.zeros((2, R, C), dtype=np.bool_), S.random_conn(rng, R, C, 0.6)]
        cells = S.cells((R, C))
        good = [(0, 0), (R - 1, C - 1), (0, C - 1), (R - 1, 0)]
        for ci, conn in enumerate(conns):
            for kind in ("targeted", "solved"):
                for form in ("tuple", "array") if ci else ("tuple", "list", "array"):
                    for bad in bad_coords(R, C):
                        for g in good[:2]:
                            for start, end in ((bad, g), (g, bad)):
                                res.seen(("endpoint", R, C, ci, kind, form, start, end), nontrivial=True, sample={"kind": kind, "shape": [R, C], "start": list(start), "end": list(end)})
                                check_endpoint(rep, kind, conn, start, end, form, valid=False)
                        res.seen(("endpoint", R, C, ci, kind, form, bad, bad), nontrivial=True)
                        check_endpoint(rep, kind, conn, bad, bad, form, valid=False)
                    for s in good + [cells[int(rng.integers(len(cells)))]]:
                        for e in good:
                            res.seen(("endpoint-ok", R, C, ci, kind, form, s, e), nontrivial=True)
                            check_endpoint(rep, kind, conn, s, e, form, valid=True)


# ------------------------------------------------------------------------------------------------ entry points
def run(tier, seed):
    warnings.simplefilter("ignore")
    rng = np.random.default_rng(seed)
    out = []

    t0 = time.time()
    r1 = Rep(BoundedResult(
        "C09.eq-all-pairs-2x2",
        rule="all ordered pairs (original, independent copy) in both orientations plus every object with itself, over the population "
        "{LatticeMaze, TargetedLatticeMaze, SolvedMaze} x all 16 connection structures on 2x2 x all 16 (start,end) pairs x (solved) all "
        "shortest solutions incl. the one-cell solution; == and != must return a bool equal to `same kind and all arrays equal`; "
        "distinct by (index a, index b)",
        exhaustive=True,
        functions=["LatticeMaze.__eq__", "TargetedLatticeMaze.__eq__", "SolvedMaze.__eq__", "__ne__ of the three kinds"],
    ))
    pop = []

    def _p(rep):
        pop.extend(run_pairs_2x2(rep))

    _guard(r1, _p)
    r1.finish(t0)
    out.append(r1.res)

    t0 = time.time()
    r2 = Rep(BoundedResult(
        "C09.hash-and-dedup-2x2",
        rule="same 2x2 population: hash() of every object (int, stable, equal for the independent copy); {a, copy}, dict and "
        "list(dict.fromkeys([a, copy, a])) collapse to a; every unordered pair of unequal hashable mazes stays two set members; "
        "originals+copies of a whole kind collapse to the originals in order",
        exhaustive=True,
        functions=["LatticeMaze.__hash__", "TargetedLatticeMaze.__hash__", "SolvedMaze.__hash__"],
    ))
    if pop:
        _guard(r2, run_hash_2x2, *pop)
    r2.finish(t0)
    out.append(r2.res)

    t0 = time.time()
    n_fam = 24 if tier == "quick" else 160
    r3 = Rep(BoundedResult(
        "C09.seeded-variants",
        rule=f"{n_fam} seeded families on 3x3/4x4/3x4/4x3: a base maze (solution >= 3 cells) in three kinds and variants differing in exactly "
        "one thing (equal copy, generation_meta only, solution dtype only, one connection bit, start only, end only, endpoints swapped, one "
        "solution cell, solution length, larger shape, extra row, kind only, shared array objects, same bits in transposed shape); all ordered "
        "pairs: ==, !=, hash consistency, set/dict/fromkeys on the pair and on the whole family",
        exhaustive=False,
        functions=["LatticeMaze.__eq__", "SolvedMaze.__hash__"],
    ))
    _guard(r3, run_seeded, rng, n_fam)
    r3.finish(t0)
    out.append(r3.res)

    t0 = time.time()
    n_ds = 4 if tier == "quick" else 20
    r4 = Rep(BoundedResult(
        "C09.dataset-eq",
        rule=f"{n_ds} seeded families of 14 MazeDataset objects (equal copy, meta only, one maze differing in one bit / solution, other maze, "
        "prefix, reordered, empty, config differing in grid_n / name / seed) - all ordered pairs, plus shared maze objects and non-dataset "
        "operands; == true iff configs built from equal parameters and maze lists equal element-wise",
        exhaustive=False,
        functions=["MazeDataset.__eq__"],
    ))
    _guard(r4, run_datasets, rng, n_ds)
    r4.finish(t0)
    out.append(r4.res)

    t0 = time.time()
    r5 = Rep(BoundedResult(
        "C09.endpoint-bounds",
        rule="TargetedLatticeMaze(connection_list, start_pos, end_pos) and SolvedMaze(connection_list, solution=[start, end]) on grids "
        "2x2,3x3,2x3,3x2,4x4,1x3 (+5x5,6x2,1x1,7x7 thorough), empty and seeded connection structures, coordinates given as tuple/list/array: "
        "(-1,0),(0,-1),(R,0),(0,C),(R+3,C+3),(-1,-1),(-R,0),(0,-C),(R-1,C),(R,C-1) as start, as end and as both must raise ValueError; "
        "in-grid corners must be accepted",
        exhaustive=False,
        functions=["TargetedLatticeMaze.__post_init__", "SolvedMaze.__init__"],
    ))
    _guard(r5, run_endpoints, rng, tier)
    r5.finish(t0)
    out.append(r5.res)
    return out


def replay(check, inp):
    """re-run one recorded failing input; True iff the recorded key no longer fires on it"""
    warnings.simplefilter("ignore")
    rep = Rep(BoundedResult("replay", "replay"))
    case = inp.get("case")
    if case == "pair":
        da, db = from_json(inp["a"]), from_json(inp["b"])
        a = build(da)
        if inp.get("same_object"):
            b = a
        elif inp.get("share_arrays"):
            b = type(a)(connection_list=a.connection_list)
        else:
            b = build(db)
        check_pair(rep, a, b, da, db, inp.get("variant", "replay"), share=bool(inp.get("share_arrays")))
    elif case == "hash":
        d = from_json(inp["a"])
        try_hash(rep, build(d), d, inp)
    elif case == "collection":
        ds = [from_json(j) for j in inp["mazes"]]
        objs = [build(d) for d in ds]
        reps, items = [], _Items()
        items.cls = {}
        for i, d in enumerate(ds):
            items.append(objs[i])
            for r in reps:
                if spec_equal(ds[r], d):
                    items.cls[id(objs[r])].append(objs[i])
                    break
            else:
                reps.append(i)
                items.cls[id(objs[i])] = [objs[i]]
        dedup_ops(rep, items, [objs[r] for r in reps], inp, "C09:dedup", "replayed family")
    elif case == "collection-2x2":
        descs = [d for d in population_2x2() if d["kind"] == inp["kind"]]
        A, B = [build(d) for d in descs], [build(d) for d in descs]
        items = _Items()
        items.cls = {}
        for a, b in zip(A, B):
            items += [a, b]
            items.cls[id(a)] = [a, b]
        dedup_ops(rep, items, A, inp, "C09:dedup", "2x2 population")
    elif case == "dataset":
        da = {"cfg": inp["a"]["cfg"], "mazes": [from_json(m) for m in inp["a"]["mazes"]]}
        db = {"cfg": inp["b"]["cfg"], "mazes": [from_json(m) for m in inp["b"]["mazes"]]}
        A = build_dataset(da)
        B = A if inp.get("same_object") else build_dataset(db, share_from=A if inp.get("shared_mazes") else None)
        check_dataset_pair(rep, A, B, da, db, inp.get("variant", "replay"), shared=bool(inp.get("shared_mazes")))
    elif case == "dataset-other":
        da = {"cfg": inp["a"]["cfg"], "mazes": [from_json(m) for m in inp["a"]["mazes"]]}
        A = build_dataset(da)
        other = {"0": 0, "None": None, "'x'": "x", "[]": [], "mazes": list(A.mazes)}.get(inp["other"], 0)
        check_cmp(rep, A, other, False, inp, prefix="C09:dataset-", what="MazeDataset vs non-dataset")
    elif case == "endpoint":
        conn = np.array(inp["conn"], dtype=np.bool_)
        R, C = conn.shape[1:]
        valid = all(S.in_grid((R, C), c) for c in (inp["start"], inp["end"]))
        check_endpoint(rep, inp["kind"], conn, tuple(inp["start"]), tuple(inp["end"]), inp.get("form", "tuple"), valid)
    else:
        print("  unknown replay case", case)
        return False
    fails = rep.res.failures
    if inp.get("key"):
        fails = [f for f in fails if f["key"] == inp["key"]]
    for f in fails:
        print("  still failing:", f["key"], f["what"])
    return not fails
