"""C02 - the shortest-path solver is sound, optimal and complete on every maze."""
ID = "C02"
LEVEL = "proof"
LEVEL_TEXT = (
    "Soundness, completeness AND optimality are proved without bound for all grids, connection structures and cell pairs: the returned array starts at "
    "the start, ends at the end, stays in the grid, moves only along connections, repeats no cell, is the one-cell path for a self query, "
    "is returned only if the end is reachable, and has exactly dist(start,end)+1 cells (the minimum number of steps); ValueError is raised only if the "
    "end is unreachable; no other exception escapes (KeyError/IndexError obligations). The A* loop invariants are sidecar contracts on the real AST: "
    "open/closed disjoint, predecessor structure with g decreasing by one, closed set edge-closed into the discovered set, scores defined where read; "
    "for optimality: g - g[start] >= dist on discovered cells, == dist on closed cells, every edge out of a closed cell relaxed, priority = g + Manhattan "
    "distance. The step 'the cell with the least priority carries its true distance' uses one code-independent graph lemma (astar_cut: a shortest path leaves "
    "any set through a tight edge, and the Manhattan heuristic is consistent along it), which is machine-checked in Lean (lemmas/AstarCut.lean, thorough tier) and validated concretely against BFS on every run. "
    "SolvedMaze.from_targeted_lattice_maze (solving a targeted maze: what MazePlot does for targeted mazes) is proved on top: same structure and endpoints, a shortest connected start-end path, ValueError exactly when unreachable. "
    "The bounded stand-in (all graphs up to 2x3/3x2, sampled or all 4096 graphs on 3x3, all ordered pairs, random larger graphs, against BFS) is kept as a cross-check."
)
LEVEL_NOTE = (
    "Trusted: pyvc encoding; min(set, key=) and list(set) library contracts; lemma reach_induction; the vocabulary dist (0 at the source, non-negative, "
    "+1 at most across an edge; concrete reading = BFS) and the lemma astar_cut (Lean-checked; the transcription between the Lean statement and the SMT axiom is trusted); "
    "floats of the score tables as reals. Termination not proved."
)
TECHNIQUE = "contract-based deductive verification (A* loop invariants incl. optimality over the real AST, z3/cvc5) + bounded comparison with BFS as cross-check"
CONTRACT_MODULES = ["contracts.lattice_maze", "contracts.solver", "contracts.paths"]
F = "maze_dataset/maze/lattice_maze.py"
PROVE = [
    (F, "LatticeMaze.heuristic"),
    (F, "LatticeMaze.nodes_connected"),
    (F, "LatticeMaze.get_coord_neighbors"),
    (F, "LatticeMaze.find_shortest_path"),
    (F, "SolvedMaze.from_targeted_lattice_maze"),
]
ASSUMPTIONS = ["start and end are in-grid cells (callers pass cells of the maze)"]
EXPLANATION = "see DESIGN.md C02"


def run(run):
    from props._std import run_bounded, run_lean

    run.prove(PROVE)
    run_lean(run)
    run_bounded(run, "C02")
