"""Access to the real source under /repo: parse on every run, find functions/classes by qualified
name, resolve module-level names through the package's own imports."""
from __future__ import annotations

import ast
import hashlib
import os

REPO_ROOT = os.environ.get("VERIF_REPO", "/repo")


class ModuleInfo:
    def __init__(self, relpath, root=None):
        self.relpath = relpath
        self.root = root or REPO_ROOT
        self.path = os.path.join(self.root, relpath)
        with open(self.path, "r", encoding="utf-8") as f:
            self.source = f.read()
        self.tree = ast.parse(self.source, filename=self.path)
        self.lines = self.source.splitlines()
        self._global_cache = {}

    def find(self, qualname):
        """-> (function or class node, enclosing class node or None)"""
        parts = qualname.split(".")
        body = self.tree.body
        cls = None
        node = None
        for k, p in enumerate(parts):
            node = None
            if "@" in p and k == len(parts) - 1:
                # `<field>@<keyword>`: the lambda given as that keyword of a field declaration `field: T = call(..., keyword=lambda a: e)`,
                # read as `def f(a): return e` (mechanical: the lambda's own argument list and expression nodes, nothing else)
                field, kw = p.split("@")
                for n in body:
                    if isinstance(n, ast.AnnAssign) and isinstance(n.target, ast.Name) and n.target.id == field and isinstance(n.value, ast.Call):
                        for kwd in n.value.keywords:
                            if kwd.arg == kw and isinstance(kwd.value, ast.Lambda):
                                lam = kwd.value
                                ret = ast.copy_location(ast.Return(value=lam.body), lam.body)
                                fn = ast.FunctionDef(name=f"{field}__{kw}", args=lam.args, body=[ret], decorator_list=[], returns=None, type_comment=None, type_params=[])
                                node = ast.copy_location(fn, lam)
                return (node, cls) if node is not None else (None, None)
            for n in body:
                if isinstance(n, (ast.FunctionDef, ast.ClassDef)) and n.name == p:
                    node = n
            if node is None:
                # nested function (e.g. decorator wrapper): search FunctionDef bodies
                return None, None
            if isinstance(node, ast.ClassDef) and k < len(parts) - 1:
                cls = node
            body = node.body
        return node, cls

    def segment(self, node):
        return ast.get_source_segment(self.source, node) or ""

    def sha(self, node):
        return hashlib.sha256(self.segment(node).encode()).hexdigest()

    def toplevel(self, name):
        """last top-level statement binding `name`"""
        found = None
        for n in self.tree.body:
            if isinstance(n, (ast.FunctionDef, ast.ClassDef)) and n.name == name:
                found = n
            elif isinstance(n, ast.Assign):
                for t in n.targets:
                    if isinstance(t, ast.Name) and t.id == name:
                        found = n
            elif isinstance(n, ast.AnnAssign):
                if isinstance(n.target, ast.Name) and n.target.id == name and n.value is not None:
                    found = n
            elif isinstance(n, (ast.Import, ast.ImportFrom)):
                for a in n.names:
                    if (a.asname or a.name.split(".")[0]) == name:
                        found = n
            elif isinstance(n, ast.If):
                # `if typing.TYPE_CHECKING:` imports are ignored
                pass
        return found


class Repo:
    def __init__(self, root=None):
        self.root = root or REPO_ROOT
        self._mods = {}

    def module(self, relpath) -> ModuleInfo:
        if relpath not in self._mods:
            self._mods[relpath] = ModuleInfo(relpath, self.root)
        return self._mods[relpath]

    def module_by_dotted(self, dotted):
        """maze_dataset.maze.lattice_maze -> ModuleInfo (package -> its __init__)"""
        rel = dotted.replace(".", "/")
        for cand in (rel + ".py", rel + "/__init__.py"):
            if os.path.exists(os.path.join(self.root, cand)):
                return self.module(cand)
        return None
