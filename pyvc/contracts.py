"""Contract registry, clause evaluation, call-site application and loop cutting."""
from __future__ import annotations

import ast
import hashlib

import z3

from . import values as V
from . import tys as T
from .values import Outside, Rec, b_and, b_implies, b_not, is_sym, to_z3
from .interp import (
    BoundMethod,
    ClassRef,
    Closure,
    Ctx,
    Interp,
    Native,
    Outcome,
    RepoFunc,
    State,
    exc_is_subclass,
    truthy_value,
)


class Loop:
    def __init__(self, havoc=None, inv=None, lemmas=None, head=None, index=None, unroll=None, cut=False, focus=None, no_merge=False):
        self.cut = cut
        self.focus = focus or {}
        self.no_merge = no_merge
        self.havoc = havoc or {}
        self.inv = inv or {}
        self.lemmas = lemmas or []
        self.head = head
        self.index = index
        self.unroll = unroll


class Contract:
    inline = False

    def __init__(self, file, qualname, **kw):
        self.file = file
        self.qualname = qualname
        self.params = kw.get("params", {})
        self.requires = kw.get("requires", [])
        self.ensures = kw.get("ensures", {})
        self.raises = kw.get("raises", {})
        self.result = kw.get("result")
        self.modifies = kw.get("modifies", [])
        self.loops = kw.get("loops", {})
        self.inline = kw.get("inline", False)
        self.lets = kw.get("lets", {})
        self.exit_lemmas = kw.get("exit_lemmas", [])
        self.raise_lemmas = kw.get("raise_lemmas", [])
        self.entry_lemmas = kw.get("entry_lemmas", [])
        self.props = kw.get("props", [])
        self.assumed = kw.get("assumed", False)  # contract not verified against the body (outside subset)
        self.notes = kw.get("notes", "")
        self.call_ensures = kw.get("call_ensures")  # optional subset of ensures labels assumed at call sites
        self.pure_result = kw.get("pure_result", False)
        self.options = kw.get("options", {})
        self.ghost_after = kw.get("ghost_after", {})
        self.lemma_after = kw.get("lemma_after", {})
        self.uses_ensures = kw.get("uses_ensures", {})
        self.ext_raises = kw.get("ext_raises", {})  # method name of an opaque object -> exception types a call may raise
        self.ext_bool = kw.get("ext_bool", ())  # methods of opaque objects that return a bool
        self.ext_events = kw.get("ext_events", ())  # methods of opaque objects whose calls are recorded (spec: n_calls / call_receiver)  # callee qualname -> labels of its postconditions relied upon here  # statement prefix -> [lemma clauses assumed right after that statement]

    def key(self):
        return (self.file, self.qualname)

    # ------------------------------------------------------------------ call site
    def apply_at_call(self, interp, st, f, args, kwargs, node, self_node=None, constructing=None, returns_self=False):
        from . import npmodel as M

        reg = interp.ctx.registry
        if constructing is not None:
            # args[0] is the class being constructed; bind remaining params
            env = M.bind_params(interp, st, f.node, [None] + args[1:], kwargs, f.mod, f.cls, node)
            env.pop("self", None)
        else:
            env = M.bind_params(interp, st, f.node, args, kwargs, f.mod, f.cls, node)
        # symbolic module globals of the callee's contract (names in `params` that are not parameters) are those of the caller's contract
        fparams = {a.arg for a in list(f.node.args.posonlyargs) + list(f.node.args.args) + list(f.node.args.kwonlyargs)}
        for gname in self.params:
            if gname not in fparams and gname not in env and gname in st.env:
                env[gname] = st.env[gname]
        # an argument that is np.array(list of k-vectors) (shape depends on emptiness) handed to a parameter declared as a 2-d array: the callee
        # sees the (n, k) array, and the caller owes "the list is not empty"
        for pname, pty in self.params.items():
            if isinstance(pty, T.GridT) and type(env.get(pname)).__name__ == "Rows" and len(pty.dims) == 2:
                env[pname] = M.rows_to_grid(interp, st, env[pname], node)
        pre_env = dict(env)
        ln = getattr(node, "lineno", "?")
        reg.note_call(interp.ctx, self)
        memo_key = None
        if self.pure_result and not self.modifies and constructing is None and not getattr(st, "binders", []):
            # a pure callee: the same arguments (term-identical) give the same result object, also when the call is repeated in a specification
            try:
                flat = []
                for k_ in sorted(env):
                    flat.extend(V.leaves_of(env[k_]))
                cache = interp.ctx.__dict__.setdefault("pure_cache", {}).setdefault(self.key(), [])
                for key, val in cache:
                    if len(key) == len(flat) and all((x is y) or (is_sym(x) and is_sym(y) and x.eq(y)) or (not is_sym(x) and not is_sym(y) and x == y) for x, y in zip(key, flat)):
                        return val
                memo_key = (cache, flat)
            except Outside:
                memo_key = None
        cst = State(dict(env), st.pc, st.guards, f.mod, f.cls)
        cst.env["__pre__"] = pre_env
        for name, expr in self.lets.items():
            cst.env[name] = reg.eval_clause_value(interp, cst, expr)
        # 1. preconditions are obligations of the caller
        for k, r in enumerate(self.requires):
            c = reg.eval_clause(interp, cst, r)
            interp.ctx.oblige(st, c, f"pre[{self.qualname}#{k}]@{ln}", node, "pre-call", meta={"clause": r})
        # 2. exceptional outcomes
        for exc, cond in self.raises.items():
            c = True if cond in (None, True) else reg.eval_clause(interp, cst, cond)
            if c is False:
                continue
            est = st.copy()
            est.excs = []
            est.guards = []
            est.pc.extend(to_z3(g) for g in st.guards)
            est.assume(c)
            est.trace.append(f"{self.qualname}-raises:{exc}@{ln}")
            if interp.ctx.feasible(est):
                st.excs.append((exc, est))
        # 3. havoc modified objects, fresh result, assume postconditions
        facts = []
        fresh_leaves = []
        post_env = dict(env)
        for m in self.modifies:
            ty = self.params.get(m)
            if ty is None:
                raise Outside(f"modifies {m} without a declared type", node)
            ty = _instantiate_like(ty, env[m])
            nv, wf = ty.fresh(f"{self.qualname}.{m}'")
            facts.extend(wf)
            fresh_leaves.extend(V.leaves_of(nv))
            post_env[m] = nv
        result = None
        if constructing is not None or returns_self:
            if self.result is None:
                raise Outside(f"constructor contract {self.qualname} without result type", node)
        if self.result is not None:
            rty = self.result
            if callable(rty) and not isinstance(rty, T.Type):
                rty = rty(cst.env)
            result, wf = rty.fresh(f"{self.qualname}.result")
            facts.extend(wf)
            fresh_leaves.extend(V.leaves_of(result))
        binders = list(getattr(st, "binders", []))
        pure_subs = []
        if self.pure_result and not self.modifies and result is not None and constructing is None and not returns_self:
            # a pure callee: its result is a FUNCTION of its arguments - every unknown of the result is an application of a function symbol
            # (one per contract and result component) to the argument values, so equal arguments give the same result wherever the call
            # is written (code or specification, inside or outside a comprehension)
            pa = _pure_args(env)
            if pa is not None:
                argz, sig = pa
                for i_, leaf in enumerate(V.leaves_of(result)):
                    if is_sym(leaf) and z3.is_const(leaf) and leaf.decl().kind() == z3.Z3_OP_UNINTERPRETED:
                        fn = z3.Function(f"pure:{self.qualname}:{i_}:{sig}", *([a.sort() for a in argz] + [leaf.sort()]))
                        pure_subs.append((leaf, fn(*argz)))
        self._binder_subs = list(pure_subs)
        if pure_subs and not binders:
            result = V.rebuild_from(result, iter([z3.substitute(l, *pure_subs) if is_sym(l) else l for l in V.leaves_of(result)]))
        if binders:
            # the call sits under a binder (comprehension / map over a symbolic-length sequence): its result is a
            # FUNCTION of the bound index, and the postcondition holds for every index
            if self.modifies:
                raise Outside("call with side effects inside a comprehension over a symbolic-length sequence", node)
            subs = list(pure_subs)
            done_ = {l.get_id() for l, _ in pure_subs}
            for leaf in fresh_leaves:
                if is_sym(leaf) and leaf.get_id() in done_:
                    continue
                if is_sym(leaf) and z3.is_const(leaf) and leaf.decl().kind() == z3.Z3_OP_UNINTERPRETED:
                    fn = z3.Function(V.fresh_name(leaf.decl().name() + "_of"), *([b.sort() for b in binders] + [leaf.sort()]))
                    subs.append((leaf, fn(*binders)))
            result = V.rebuild_from(result, iter([z3.substitute(l, *subs) if is_sym(l) else l for l in V.leaves_of(result)])) if result is not None else None
            self._binder_subs = subs
        pst = State(dict(post_env), st.pc, st.guards, f.mod, f.cls)
        pst.env["__pre__"] = pre_env
        pst.env["result"] = result
        for name, expr in self.lets.items():
            pst.env[name] = cst.env[name]
        labels = self.call_ensures if self.call_ensures is not None else list(self.ensures)
        # the CALLER's contract may restrict which of this callee's postconditions it relies on (assuming fewer facts is always sound)
        cur = getattr(interp.ctx, "current_contract", None)
        uses = getattr(cur, "uses_ensures", {}).get(self.qualname) if cur is not None else None
        if uses is not None:
            labels = [lab for lab in labels if lab in uses]
        n_pc = len(st.pc)
        for lab in labels:
            c = reg.eval_clause(interp, pst, self.ensures[lab])
            if c is False:
                raise Outside(f"postcondition `{lab}` of {self.qualname} evaluates to False at this call site (contract/engine mismatch)", node)
            facts.append(c)
        if binders:
            guard = b_and(*st.guards) if st.guards else True
            for fct in facts:
                if fct is True:
                    continue
                z = z3.substitute(to_z3(fct), *self._binder_subs) if self._binder_subs else to_z3(fct)
                st.pc.append(z3.ForAll(binders, z3.Implies(to_z3(guard), z)))
        else:
            for fct in facts:
                if pure_subs and fct is not True and fct is not False and is_sym(fct):
                    fct = z3.substitute(to_z3(fct), *pure_subs)
                st.assume(fct)
        # write back modified arguments
        if self.modifies:
            a = f.node.args
            pos = [p.arg for p in list(a.posonlyargs) + list(a.args)]
            for m in self.modifies:
                target = None
                if m == "self" and self_node is not None:
                    target = self_node
                elif node is not None and isinstance(node, ast.Call):
                    off = 1 if (self_node is not None) else 0
                    if m in pos:
                        i = pos.index(m) - off
                        if 0 <= i < len(node.args):
                            target = node.args[i]
                    for kw in node.keywords:
                        if kw.arg == m:
                            target = kw.value
                if target is None:
                    if returns_self and m == "self":
                        continue
                    raise Outside(f"cannot write back modified argument {m}", node)
                interp.assign(target, post_env[m], st)
        if returns_self:
            return post_env["self"]
        if memo_key is not None:
            memo_key[0].append((memo_key[1], result))
        return result


def _pure_args(env):
    """the argument values of a call as a flat list of z3 terms (python constants become literals) plus a signature string; None if some
    argument has no such reading"""
    argz, sig = [], []
    try:
        for k_ in sorted(env):
            if k_.startswith("__"):
                continue
            sig.append(k_)
            for l in V.leaves_of(env[k_]):
                if l is None:
                    sig.append("N")
                elif is_sym(l):
                    argz.append(l)
                    sig.append(str(l.sort()))
                elif isinstance(l, bool):
                    argz.append(z3.BoolVal(l))
                    sig.append("Bool")
                elif isinstance(l, int):
                    argz.append(z3.IntVal(l))
                    sig.append("Int")
                elif isinstance(l, float):
                    argz.append(z3.RealVal(l))
                    sig.append("Real")
                elif isinstance(l, str):
                    argz.append(z3.StringVal(l))
                    sig.append("String")
                else:
                    return None
    except Outside:
        return None
    if not argz:
        return None
    return argz, hashlib.sha1("|".join(sig).encode()).hexdigest()[:10]


def _instantiate_like(ty, value):
    """a declared type with free dims takes the dims of the actual argument (arrays keep their shape when mutated in place)"""
    from .values import Grid

    if isinstance(ty, T.GridT) and isinstance(value, Grid):
        return T.GridT(ty.kind, list(value.dims), count=value.count is not None, dtype=value.dtype)
    return ty


class Registry:
    def __init__(self):
        self.contracts = {}
        self.spec_functions = {}
        self.class_files = {}
        self.inlinable = set()
        self.assumed_methods = {}  # (class name, attribute) -> Native implementation (trusted library behaviour)
        self.current = None
        self.calls_seen = {}

    def add(self, c: Contract):
        self.contracts[c.key()] = c
        return c

    def contract_for(self, f: RepoFunc):
        c = self.contracts.get((f.mod.relpath, f.qualname))
        if c is None and "." in f.qualname:
            # a method of a class nested in a namespace class is found as `Inner.method`; its contract is keyed `Outer.Inner.method`
            suffix = "." + f.qualname
            cands = [v for (fp, qn), v in self.contracts.items() if fp == f.mod.relpath and qn.endswith(suffix)]
            if len(cands) == 1:
                return cands[0]
        return c

    def is_current(self, ctx, f):
        return False

    def may_inline(self, f: RepoFunc):
        if f.is_property:
            return True
        if (f.mod.relpath, f.qualname) in self.inlinable:
            return True
        suffix = "." + f.qualname
        return "." in f.qualname and sum(1 for (fp, qn) in self.inlinable if fp == f.mod.relpath and qn.endswith(suffix)) == 1

    def note_call(self, ctx, contract):
        self.calls_seen.setdefault(ctx.fn_label, set()).add(contract.key())

    # ------------------------------------------------------------------ clauses
    def eval_clause(self, interp, st, clause):
        """evaluate a clause (python expression text) to a (symbolic) bool in state st"""
        if callable(clause):
            return clause(interp, st)
        tree = ast.parse(clause, mode="eval")
        prev = interp.ctx.options.get("spec_mode", False)
        interp.ctx.options["spec_mode"] = True
        prev_v = V.SPEC_MODE
        V.SPEC_MODE = True
        try:
            v = interp.ev(tree.body, st)
        finally:
            interp.ctx.options["spec_mode"] = prev
            V.SPEC_MODE = prev_v
        if isinstance(v, (bool,)) or is_sym(v):
            return v
        return truthy_value(interp, st, v)

    def eval_clause_value(self, interp, st, expr):
        """evaluate a specification expression to a value (ghost bindings)"""
        tree = ast.parse(expr, mode="eval")
        prev = interp.ctx.options.get("spec_mode", False)
        interp.ctx.options["spec_mode"] = True
        prev_v = V.SPEC_MODE
        V.SPEC_MODE = True
        try:
            return interp.ev(tree.body, st)
        finally:
            interp.ctx.options["spec_mode"] = prev
            V.SPEC_MODE = prev_v

    # ------------------------------------------------------------------ loops
    def loop_spec(self, ctx, node, st):
        con = ctx.current_contract
        if con is None:
            return None
        ordinal = ctx.loop_ordinals.get(id(node))
        if ordinal is None:
            ordinal = ctx.loop_ordinals_by_line.get(node.lineno)
        spec = con.loops.get(ordinal)
        if spec is None:
            return None
        return LoopRunner(con, ordinal, spec)

    def comprehension_spec(self, ctx, node, st):
        return None


class LoopRunner:
    def __init__(self, contract, ordinal, spec: Loop):
        self.contract = contract
        self.ordinal = ordinal
        self.spec = spec

    def run(self, interp, node, st, kind, iterable):
        from . import npmodel as M

        ctx = interp.ctx
        reg = ctx.registry
        spec = self.spec
        tag = f"loop{self.ordinal}"
        if spec.head is not None:
            src = ctx.current_mod.lines[node.lineno - 1].strip()
            if spec.head not in src:
                ctx.notes.append(f"loop {self.ordinal} header differs from the one the invariant was written for: `{src}`")
        assigned = _assigned_names(node)
        entry_env = dict(st.env)
        n_total = None
        if kind == "for":
            n_total = M.sym_len(interp, st, iterable, node)

        def inv_state(base_state, k):
            s = base_state
            s.env["__entry__"] = entry_env
            if k is not None:
                s.env["_k"] = k
            return s

        # 1. invariants hold on entry
        s0 = inv_state(st.copy(), 0 if kind == "for" else None)
        for lab, clause in spec.inv.items():
            c = reg.eval_clause(interp, s0, clause)
            ctx.oblige(s0, c, f"{tag}.init[{lab}]", node, "inv-init", meta={"clause": clause})
        # 2. arbitrary iteration
        h = st.copy()
        h.excs = []
        for name in assigned:
            if name not in spec.havoc:
                h.env.pop(name, None)
        for name, ty in spec.havoc.items():
            if callable(ty) and not isinstance(ty, T.Type):
                ty = ty(st.env)
            ty = _instantiate_like(ty, st.env.get(name))
            v, wf = ty.fresh(f"{name}@{tag}")
            h.env[name] = v
            for w in wf:
                h.assume(w)
        k = None
        if kind == "for":
            k = z3.Int(V.fresh_name(f"_k@{tag}"))
            h.assume(k >= 0)
            h.assume(k <= to_z3(n_total))
        inv_state(h, k)
        for lab, clause in spec.inv.items():
            h.assume(reg.eval_clause(interp, h, clause), tag=f"inv:{lab}")
        h.trace.append(f"{tag}:arbitrary-iteration")
        outs = []
        # 3. exit state
        ex = h.copy()
        ex.trace[-1] = f"{tag}:exit"
        if kind == "while":
            g_ex = truthy_value(interp, ex, interp.ev(node.test, ex))
            ex.assume(b_not(g_ex))
        else:
            ex.assume(k == to_z3(n_total))
        if node.orelse:
            raise Outside("loop else clause", node)
        ex.env.pop("__entry__", None)
        ex.env.pop("_k", None)
        exit_outs = []
        if ctx.feasible(ex):
            exit_outs.append(Outcome("normal", ex))
        for e in ex.excs:
            pass
        # 4. body
        b = h
        if kind == "while":
            g = truthy_value(interp, b, interp.ev(node.test, b))
            b.assume(g)
        else:
            b.assume(k < to_z3(n_total))
            item = M.sym_item(interp, b, iterable, k, node)
            interp.assign(node.target, item, b)
        alias_items = [b.env.get(nm) for nm, _ in _loop_aliases(node)] if kind == "for" else []
        prev_env = dict(b.env)
        if not ctx.feasible(b):
            ctx.notes.append(f"{tag}: loop body unreachable under the invariant")
            return exit_outs
        prev_nm = ctx.options.get("no_merge", False)
        if spec.no_merge:
            ctx.options["no_merge"] = True
        try:
            body_outs = interp.exec_block(node.body, b)
        finally:
            ctx.options["no_merge"] = prev_nm
        for o in body_outs:
            if o.kind in ("normal", "continue"):
                s = o.st
                if alias_items:
                    write_back_loop_vars(interp, node, s, k, alias_items)
                s.env["__prev__"] = prev_env
                inv_state(s, (k + 1) if k is not None else None)
                for li, lem in enumerate(spec.lemmas):
                    s.assume(reg.eval_clause(interp, s, lem), tag=f"lemma:{li}")
                for lab, clause in spec.inv.items():
                    c = reg.eval_clause(interp, s, clause)
                    ctx.oblige(s, c, f"{tag}.pres[{lab}]", node, "inv-pres", meta={"clause": clause}, focus=spec.focus.get(lab))
            elif o.kind == "break":
                if alias_items:
                    write_back_loop_vars(interp, node, o.st, k, alias_items)
                o.st.env.pop("__entry__", None)
                o.st.env.pop("_k", None)
                exit_outs.append(Outcome("normal", o.st))
            else:
                o.st.env.pop("__entry__", None)
                outs.append(o)
        return outs + exit_outs


def _run_cut(self, interp, node, st, gl):
    """`for x in <at most n candidates>`: unrolled, with the invariant proved and re-assumed after every candidate
    (`_m` = number of candidates processed, a python int).  Complete: no bound is introduced."""
    from .values import GList

    ctx = interp.ctx
    reg = ctx.registry
    spec = self.spec
    tag = f"loop{self.ordinal}"
    cur = st
    n = len(gl.items)
    outs = []

    def check(state, m, phase):
        s = state
        s.env["_m"] = m
        for lab, clause in spec.inv.items():
            c = reg.eval_clause(interp, s, clause)
            ctx.oblige(s, c, f"{tag}.{phase}{m}[{lab}]", node, "inv-init" if phase == "init" else "inv-pres", meta={"clause": clause}, focus=spec.focus.get(lab))

    def reassume(state, m):
        h = state
        for name, ty in spec.havoc.items():
            ty = _instantiate_like(ty, h.env.get(name))
            v, wf = ty.fresh(f"{name}@{tag}.{m}")
            h.env[name] = v
            for w in wf:
                h.assume(w)
        h.env["_m"] = m
        for lab, clause in spec.inv.items():
            h.assume(reg.eval_clause(interp, h, clause), tag=f"inv:{lab}")
        return h

    assigned = _assigned_names(node)
    cur.env["_cands"] = gl  # the candidates being iterated over, for all_cands(_cands, _m, ...)
    check(cur, 0, "init")
    cur = reassume(cur, 0)
    for m in range(n):
        one = GList([gl.items[m]])
        pre = cur.copy()
        res = interp._glist_for(node, cur, one, no_cut=True)
        normal = [o for o in res if o.kind == "normal"]
        outs.extend(o for o in res if o.kind != "normal")
        for o in normal:
            check(o.st, m + 1, "pres")
        # continue from the state before this candidate: everything it knew is about immutable earlier values;
        # what the iteration changed is re-introduced only through the invariant
        cur = pre
        for name in assigned:
            if name not in spec.havoc:
                cur.env.pop(name, None)
        cur = reassume(cur, m + 1)
    cur.env.pop("_m", None)
    return outs + [Outcome("normal", cur)]


LoopRunner.run_cut = _run_cut


def _is_lvalue_path(e):
    while isinstance(e, ast.Attribute):
        e = e.value
    return isinstance(e, ast.Name)


def _loop_aliases(node):
    """`for x in E` / `for a, b in zip(E1, E2)` over lists named by attribute paths: [(loop variable, source expression)], provided the body
    never REBINDS a loop variable (then every change of its value is an in-place mutation of the element object, which python's loop variable
    shares with the list).  [] when the shape is different or a variable is rebound."""
    pairs = []
    if isinstance(node.target, ast.Name) and _is_lvalue_path(node.iter):
        pairs = [(node.target.id, node.iter)]
    elif (isinstance(node.target, ast.Tuple) and all(isinstance(t, ast.Name) for t in node.target.elts) and isinstance(node.iter, ast.Call)
          and isinstance(node.iter.func, ast.Name) and node.iter.func.id == "zip" and not node.iter.keywords
          and len(node.iter.args) == len(node.target.elts) and all(_is_lvalue_path(a) for a in node.iter.args)):
        pairs = [(t.id, a) for t, a in zip(node.target.elts, node.iter.args)]
    if not pairs:
        return []
    names = {n for n, _ in pairs}
    for stmt in node.body:
        for n in ast.walk(stmt):
            if isinstance(n, ast.Name) and isinstance(n.ctx, (ast.Store, ast.Del)) and n.id in names:
                return []
    return pairs


def write_back_loop_vars(interp, node, st, k, entry_items):
    """after one iteration: an element object mutated through the loop variable is the list's element (same object in python)"""
    for (name, src), before in zip(_loop_aliases(node), entry_items):
        now = st.env.get(name)
        if now is None or before is None:
            continue
        try:
            la, lb = V.leaves_of(now), V.leaves_of(before)
        except Outside:
            continue
        same = len(la) == len(lb) and all((a is b) or (is_sym(a) and is_sym(b) and a.eq(b)) or (not is_sym(a) and not is_sym(b) and a == b) for a, b in zip(la, lb))
        if same:
            continue
        if not isinstance(now, Rec):
            raise Outside("a loop variable that is not a record was changed in place", node)
        tgt = ast.Subscript(value=src, slice=ast.Name(id="_k", ctx=ast.Load()), ctx=ast.Store())
        ast.copy_location(tgt, node)
        ast.fix_missing_locations(tgt)
        had = "_k" in st.env
        old_k = st.env.get("_k")
        st.env["_k"] = k
        try:
            interp.assign(tgt, now, st)
        finally:
            if had:
                st.env["_k"] = old_k
            else:
                st.env.pop("_k", None)


def _assigned_names(loop_node):
    names = set()

    def targets(t):
        if isinstance(t, ast.Name):
            names.add(t.id)
        elif isinstance(t, (ast.Tuple, ast.List)):
            for e in t.elts:
                targets(e)
        elif isinstance(t, (ast.Subscript, ast.Attribute)):
            targets(t.value)
        elif isinstance(t, ast.Starred):
            targets(t.value)

    for n in ast.walk(loop_node):
        if isinstance(n, ast.Assign):
            for t in n.targets:
                targets(t)
        elif isinstance(n, (ast.AugAssign, ast.AnnAssign)):
            targets(n.target)
        elif isinstance(n, ast.For):
            targets(n.target)
        elif isinstance(n, ast.NamedExpr):
            targets(n.target)
        elif isinstance(n, ast.Call) and isinstance(n.func, ast.Attribute):
            if n.func.attr in ("append", "pop", "add", "discard", "remove", "extend", "update", "insert", "clear"):
                targets(n.func.value)
        elif isinstance(n, ast.comprehension):
            pass
    return names


REGISTRY = Registry()


def contract(file, qualname, **kw):
    """class decorator: turn a sidecar class into a Contract and register it"""

    def deco(cls):
        fields = {k: v for k, v in vars(cls).items() if not k.startswith("__")}
        fields.update(kw)
        c = Contract(file, qualname, **fields)
        c.name = cls.__name__
        REGISTRY.add(c)
        return c

    return deco
