"""Order-preserving filtered views: the value of `[x for x in src if p(x)]` and of a list built by appending, in order,
selected elements of one source sequence.

A FiltList is the subsequence of `src` at the indices k (0 <= k < len(src)) where keep[k] holds.  Two FiltLists over the same
source are the same list iff their keep predicates agree on every index, which is what `is_filter` turns into an obligation:
"the mazes of the result are exactly those of the input that satisfy the rule, in their original order" is
`is_filter(result.mazes, dataset.mazes, lambda k: rule(k))`.  No model of the code is involved: the comprehension / the append
loop of the real function is executed symbolically and yields the keep predicate the code actually computes."""
from __future__ import annotations

import z3

from . import values as V
from .values import Arr, Grid, Outside, Rec, SymList, b_and, is_sym, leaves_of, rebuild_from, sig_of, to_z3


class RangeSrc:
    """the source range(n) (elements are their own indices)"""

    def __init__(self, n):
        self.n = n

    def leaves(self):
        return [self.n]

    def rebuild(self, leaves):
        return RangeSrc(leaves[0])

    def sig(self):
        return ("RangeSrc",)


def src_len(src):
    if isinstance(src, RangeSrc):
        return src.n
    if isinstance(src, SymList):
        return src.length
    if isinstance(src, Grid):
        return src.dims[0]
    if isinstance(src, (list, tuple)):
        return len(src)
    if isinstance(src, Arr):
        return src.shape[0]
    raise Outside(f"filter source of type {type(src).__name__}")


def src_item(interp, st, src, k, node=None):
    if isinstance(src, RangeSrc):
        return k
    from . import npmodel as M

    return M.sym_item(interp, st, src, k, node)


def same_source(a, b):
    """structural identity of two sources (python bool): same terms, not merely equal values"""
    if a is b:
        return True
    if isinstance(a, (int,)) or is_sym(a):
        a = RangeSrc(a)
    if isinstance(b, (int,)) or is_sym(b):
        b = RangeSrc(b)
    try:
        if sig_of(a) != sig_of(b):
            return False
        la, lb = leaves_of(a), leaves_of(b)
    except Outside:
        return False
    if len(la) != len(lb):
        return False
    for x, y in zip(la, lb):
        if is_sym(x) and is_sym(y):
            if not x.eq(y):
                return False
        elif is_sym(x) or is_sym(y):
            return False
        elif x != y:
            return False
    return True


class FiltList:
    def __init__(self, src, keep, as_array=False):
        self.src = src
        self.keep = keep  # z3 array Int -> Bool
        self.as_array = as_array

    @staticmethod
    def fresh(name, src):
        return FiltList(src, z3.Const(V.fresh_name(name + "_keep"), z3.ArraySort(z3.IntSort(), z3.BoolSort())))

    @staticmethod
    def empty(src):
        return FiltList(src, z3.K(z3.IntSort(), z3.BoolVal(False)))

    def kept(self, k):
        return z3.Select(self.keep, to_z3(k))

    def leaves(self):
        return [self.keep] + [self.src]

    def rebuild(self, leaves):
        return FiltList(leaves[1], leaves[0], self.as_array)

    def sig(self):
        return ("FiltList", sig_of(self.src), self.as_array)

    def __repr__(self):
        return f"FiltList(src={type(self.src).__name__})"


_FLEN = None


def flen(fl: FiltList):
    """number of kept elements: an uninterpreted function of (keep, n), between 0 and n"""
    global _FLEN
    if _FLEN is None:
        _FLEN = z3.Function("filt_len", z3.ArraySort(z3.IntSort(), z3.BoolSort()), z3.IntSort(), z3.IntSort())
    return _FLEN(fl.keep, to_z3(src_len(fl.src)))


def _index_candidates(x):
    """index terms i such that some leaf of x is a selection `A[i]` (possibly nested): where could x sit in its source?"""
    out = []
    seen = set()

    def walk(t, depth=0):
        if not is_sym(t) or depth > 6:
            return
        if z3.is_select(t):
            i = t.arg(1)
            cands = [i]
            if z3.is_app_of(i, z3.Z3_OP_ITE):
                # python's negative-index normalisation `k if k >= 0 else k + n`: the index written in the program is k
                cands.append(i.arg(2))
                cands.append(i.arg(1))
            for c in cands:
                if c.get_id() not in seen:
                    seen.add(c.get_id())
                    out.append(c)
            walk(t.arg(0), depth + 1)

    for l in leaves_of(x):
        if is_sym(l):
            walk(l)
    return out


def find_index(interp, st, src, x, node=None):
    """the index i with x identical to src[i] (term identity), or None"""
    if isinstance(src, RangeSrc):
        return x if (is_sym(x) or isinstance(x, int)) else None
    try:
        lx = leaves_of(x)
    except Outside:
        return None
    for i in _index_candidates(x):
        try:
            cand = src_item(interp, st, src, i, node)
            if sig_of(cand) != sig_of(x):
                continue
            lc = leaves_of(cand)
        except Outside:
            continue
        ok = len(lc) == len(lx)
        if ok:
            for a, b in zip(lc, lx):
                if is_sym(a) and is_sym(b):
                    if not (a.eq(b) or z3.simplify(a).eq(z3.simplify(b))):
                        ok = False
                        break
                elif is_sym(a) or is_sym(b):
                    ok = False
                    break
                elif a != b:
                    ok = False
                    break
        if ok:
            return i
    return None


def append(interp, st, fl: FiltList, x, node):
    """fl.append(x): x must be an element src[i] of the source with i beyond every kept index (so the order of the source is kept
    and nothing is listed twice) - that is an obligation, not an assumption"""
    i = find_index(interp, st, fl.src, x, node)
    if i is None:
        raise Outside("append to a filtered view of a value that is not an element of its source", node)
    j = z3.Int(V.fresh_name("j"))
    n = to_z3(src_len(fl.src))
    interp.ctx.oblige(st, z3.And(to_z3(i) >= 0, to_z3(i) < n), f"filter-append-in-range@{getattr(node, 'lineno', '?')}", node, "assert")
    interp.ctx.oblige(st, z3.ForAll([j], z3.Implies(j >= to_z3(i), z3.Not(z3.Select(fl.keep, j)))), f"filter-append-in-order@{getattr(node, 'lineno', '?')}", node, "assert")
    return FiltList(fl.src, z3.Store(fl.keep, to_z3(i), z3.BoolVal(True)), fl.as_array)


def _decide_closed(c):
    if isinstance(c, bool):
        return c
    s = z3.simplify(to_z3(c))
    if z3.is_true(s):
        return True
    if z3.is_false(s):
        return False
    sol = z3.Solver()
    sol.set("timeout", 5000)
    sol.add(z3.Not(s))
    r = sol.check()
    if r == z3.unsat:
        return True
    sol2 = z3.Solver()
    sol2.set("timeout", 5000)
    sol2.add(s)
    if sol2.check() == z3.unsat:
        return False
    raise Outside("filter predicate not decidable on a concrete index")


def is_filter(interp, st, lst, src, pred, upto, node=None):
    """lst is exactly [src[k] for k in range(upto) if pred(k)] (order kept).  pred: python callable index -> (symbolic) bool"""
    if isinstance(src, int) or (is_sym(src) and src.sort() == z3.IntSort()):
        src = RangeSrc(src)
    n = src_len(src)
    up = n if upto is None else upto
    if isinstance(lst, FiltList):
        if not same_source(lst.src, src):
            return False
        k = z3.Int(V.fresh_name("fk"))
        st.guards.append(z3.And(k >= 0, k < to_z3(up)))
        try:
            p = pred(k)
        finally:
            st.guards.pop()
        return z3.ForAll([k], lst.kept(k) == z3.And(k >= 0, k < to_z3(up), to_z3(p)))
    if same_source(lst, src):
        # the source itself: the filter that keeps every index below upto (and upto must be the whole length)
        k = z3.Int(V.fresh_name("fk"))
        st.guards.append(z3.And(k >= 0, k < to_z3(n)))
        try:
            p = pred(k)
        finally:
            st.guards.pop()
        return z3.And(to_z3(up) == to_z3(n), z3.ForAll([k], z3.Implies(z3.And(k >= 0, k < to_z3(n)), to_z3(p))))
    # concrete-length lists (python list, SymList/Grid with constant length): compare with the filter computed index by index
    items = None
    if isinstance(lst, (list, tuple)):
        items = list(lst)
    elif isinstance(lst, SymList) and isinstance(lst.length, int):
        items = [lst.get(i) for i in range(lst.length)]
    elif isinstance(lst, Grid) and isinstance(lst.dims[0], int):
        from . import npmodel as M

        items = [M.grid_getitem(interp, st, lst, i, node) for i in range(lst.dims[0])]
    elif isinstance(lst, Arr):
        items = lst.rows() if lst.ndim >= 1 and lst.shape[0] > 0 and lst.ndim > 1 else ([] if lst.shape[0] == 0 else list(lst.flat))
    if items is None:
        raise Outside(f"is_filter on {type(lst).__name__}", node)
    if not items:
        # the empty list is the filter that keeps nothing
        k = z3.Int(V.fresh_name("fk"))
        st.guards.append(z3.And(k >= 0, k < to_z3(up)))
        try:
            p = pred(k)
        finally:
            st.guards.pop()
        if isinstance(up, int) and up == 0:
            return True
        return z3.ForAll([k], z3.Not(z3.And(k >= 0, k < to_z3(up), to_z3(p))))
    if not isinstance(up, int):
        s = z3.simplify(to_z3(up))
        if not z3.is_int_value(s):
            raise Outside("is_filter: non-empty concrete list against a symbolic-length source", node)
        up = s.as_long()
    expected = []
    for k in range(up):
        if _decide_closed(pred(k)):
            expected.append(src_item(interp, st, src, k, node))
    if len(expected) != len(items):
        return False
    conj = []
    for a, b in zip(items, expected):
        if isinstance(a, (int, bool)) or is_sym(a) or isinstance(b, (int, bool)) or is_sym(b):
            conj.append(to_z3(V.as_int(a)) == to_z3(V.as_int(b)))
        else:
            conj.append(V.values_equal(a, b))
    return b_and(*conj)
