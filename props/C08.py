"""C08 - dataset filters select exactly what they document and never disturb their input."""
ID = "C08"
LEVEL = "exploration"
LEVEL_TEXT = 'Bounded: every built-in filter and custom predicates against an oracle written from the statement, on datasets with planted exact/near duplicates, all-equal lengths and empty results; input snapshots before/after; provenance over sequences of up to three filters; from_config with recorded filters against manual application.'
LEVEL_NOTE = 'Trusted: copy.deepcopy via MazeDataset.__deepcopy__ (muutils serialization).'
TECHNIQUE = "bounded stand-in of the contract-based verifier: run-time checking of the real code against an independent executable statement over an enumerated scope (no function of this property is in the verified subset yet)"
CONTRACT_MODULES = []
PROVE = []
ASSUMPTIONS = []
EXPLANATION = "see DESIGN.md C08"


def run(run):
    from props._std import run_bounded

    if PROVE:
        run.prove(PROVE)
    run_bounded(run, "C08")
