"""C20 - maze plots draw the maze that was given."""
ID = "C20"
LEVEL = "exploration"
LEVEL_TEXT = (
    "PROVED (unbounded in the grid, z3; unit lengths 14 (default), 3, 4, 5 and 8; no cell values supplied): MazePlot._lattice_maze_to_img returns an image of size (rows*ul+1) x (cols*ul+1) with "
    "one block per cell (pixels whose row and column are not multiples of ul carry the cell value 1), one separator strip per lattice edge drawn as PASSAGE (the connection value) exactly when the two "
    "cells are connected and as WALL (-1) otherwise, and wall on every other pixel (corners, top row, left column) - two nested loop invariants; MazePlot._rowcol_to_coord maps (row, col) to "
    "(x, y) = (ul*(col+0.5), ul*(row+0.5)): rows vertical, columns horizontal, through the cell centre; MazePlot._plot_path (line branch, any unit length, any path length >= 1) hands Axes.plot one point per listed cell, "
    "in the listed order, x from the column and y from the row, and puts the start / end markers on the first / last listed cell (calls of the opaque Axes object are recorded as events). Bounded for the rest: "
    + "Bounded: the image builder's blocks and strips against the connection structure for unit lengths {3,4,14}, with/without cell values; image and path data read back from the matplotlib Axes; ASCII export."
)
LEVEL_NOTE = "Trusted: matplotlib draws what it is given; floats as reals; `row * unit_length` is linear only for a constant unit length, hence the three values (other unit lengths and the node-value branch are bounded only)."
TECHNIQUE = "contract-based deductive verification of the image builder and the coordinate map (loop invariants over the real AST, z3) + bounded read-back of what is handed to matplotlib"
CONTRACT_MODULES = ["contracts.plotting"]
PM = "maze_dataset/plotting/plot_maze.py"
PROVE = [(PM, "MazePlot._rowcol_to_coord"), (PM, "MazePlot._lattice_maze_to_img"), (PM, "MazePlot._plot_path")]
ASSUMPTIONS = []
EXPLANATION = "see DESIGN.md C20"


def run(run):
    from props._std import run_bounded

    if PROVE:
        run.prove(PROVE)
    run_bounded(run, "C20")
