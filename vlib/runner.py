"""Per-property check runner: proof obligations + bounded stand-ins + evidence + verdict."""
from __future__ import annotations

import hashlib
import importlib
import json
import os
import random
import re
import sys
import time
import traceback

VERIF = os.path.dirname(os.path.dirname(os.path.abspath(__file__)))
sys.path.insert(0, VERIF)

from pyvc import spec as _spec  # noqa: E402
from pyvc import npmodel4 as _np4  # noqa: E402
from pyvc.contracts import REGISTRY  # noqa: E402
from pyvc.discharge import discharge  # noqa: E402
from pyvc.driver import verify_contract  # noqa: E402
from pyvc.repo import Repo  # noqa: E402

REGISTRY.spec_functions.update(_spec.SPEC_FUNCTIONS)

EXIT_OK, EXIT_VIOLATION, EXIT_UNDECIDED, EXIT_CRASH = 0, 1, 2, 3


class BoundedResult:
    """what a bounded stand-in reports"""

    def __init__(self, name, rule, exhaustive=False, functions=()):
        self.name = name
        self.rule = rule
        self.exhaustive = exhaustive
        self.functions = list(functions)
        self.evaluations = 0
        self.distinct = set()
        self.samples = []
        self.failures = []  # dict(key=..., what=..., input=..., observed=...)
        self.errors = []
        self.seconds = 0.0

    def seen(self, canonical, nontrivial=True, sample=None):
        self.evaluations += 1
        if nontrivial:
            h = hashlib.blake2b(repr(canonical).encode(), digest_size=8).hexdigest()
            self.distinct.add(h)
        if sample is not None and len(self.samples) < 3:
            self.samples.append(sample)

    def fail(self, key, what, input=None, observed=None):
        if len(self.failures) < 50:
            self.failures.append({"key": key, "what": what, "input": input, "observed": observed})


def load_known_findings():
    path = os.path.join(VERIF, "KNOWN_FINDINGS.txt")
    findings = []
    if os.path.exists(path):
        for line in open(path):
            line = line.strip()
            m = re.match(r"finding:\s+property=(\S+)\s+key=(\S+)\s+(.*)", line)
            if m:
                findings.append({"property": m.group(1), "key": m.group(2), "text": m.group(3)})
    return findings


def ob_key(ob):
    """stable key of an obligation: path index and source positions removed"""
    lab = re.sub(r"#p\d+$", "", ob.label)
    lab = re.sub(r"@\d+(:\d+)?", "", lab)
    return lab


def load_baseline():
    path = os.path.join(VERIF, "baseline_obligations.json")
    if os.path.exists(path):
        return json.load(open(path))
    return {}


def jsonable(x, depth=0):
    import numpy as np

    if depth > 6:
        return repr(x)[:200]
    if isinstance(x, (str, int, float, bool)) or x is None:
        return x
    if isinstance(x, (np.integer,)):
        return int(x)
    if isinstance(x, (np.floating,)):
        return float(x)
    if isinstance(x, (np.bool_,)):
        return bool(x)
    if isinstance(x, np.ndarray):
        return {"__ndarray__": x.tolist(), "dtype": str(x.dtype)}
    if isinstance(x, dict):
        return {str(k): jsonable(v, depth + 1) for k, v in x.items()}
    if isinstance(x, (list, tuple, set, frozenset)):
        return [jsonable(v, depth + 1) for v in x]
    return repr(x)[:300]


def unjson(x):
    import numpy as np

    if isinstance(x, dict):
        if "__ndarray__" in x:
            return np.array(x["__ndarray__"], dtype=x.get("dtype", None))
        return {k: unjson(v) for k, v in x.items()}
    if isinstance(x, list):
        return [unjson(v) for v in x]
    return x


_WORK = None


def _prove_task(task):
    """worker: VC generation + discharge for one (contract, alternative); returns plain data"""
    ci, alt = task
    contracts, root, options = _WORK
    c = contracts[ci]
    t0 = time.time()
    try:
        rep = verify_contract(REGISTRY, Repo(root), c, options, only_alt=alt)
        obs = []
        for ob in rep.obligations:
            obs.append({
                "label": ob.label, "kind": ob.kind, "line": ob.line, "trace": ob.trace[-6:], "meta": {k: (v if isinstance(v, (str, int, float, bool, type(None))) else str(v)) for k, v in (ob.meta or {}).items()},
                "result": {"status": "undecided", "backend": "-", "seconds": 0.0, "model": None, "reason": "not attempted"},
                "smt2": ob.smt2(),
                "smt2_focus": ob.smt2(focused=True) if ob.focus_hyps is not None else None,
            })
        return {
            "status": rep.status, "reason": rep.reason, "sha": rep.sha, "obligations": obs, "trivial": rep.trivial, "paths": rep.paths,
            "vacuity": rep.vacuity, "notes": rep.notes, "callees": rep.callees, "gen_seconds": rep.gen_seconds, "seconds": time.time() - t0,
            "trusted": sorted(_np4.TRUSTED_USED), "lemmas": sorted(_spec.LEMMAS_USED),
        }
    except Exception as e:  # noqa: BLE001
        return {"status": "error", "reason": f"{type(e).__name__}: {e}\n{traceback.format_exc(limit=6)}", "sha": None, "obligations": [], "trivial": 0, "paths": 0,
                "vacuity": {"requires_sat": None, "dead_paths": []}, "notes": [], "callees": [], "gen_seconds": 0, "seconds": time.time() - t0}


class LightOb:
    """an obligation as reported by a worker (no z3 terms)"""

    def __init__(self, d, alt):
        self.label = d["label"]
        self.kind = d["kind"]
        self.line = d["line"]
        self.trace = d["trace"]
        self.meta = d["meta"]
        self.result = d["result"]
        self.alt = alt
        self._smt2 = d["smt2"]
        self._focus = d["smt2_focus"]
        self.focus_hyps = True if self._focus is not None else None
        self.nbytes = len(self._smt2)

    def smt2(self, focused=False):
        if focused and self._focus is not None:
            return self._focus
        return self._smt2

    def drop_text(self):
        self._smt2 = " " * 0
        self._focus = None


class LightReport:
    def __init__(self, contract):
        self.contract = contract
        self.label = contract.qualname
        self.file = contract.file
        self.status = "ok"
        self.reason = None
        self.sha = None
        self.obligations = []
        self.trivial = 0
        self.paths = 0
        self.alternatives = 0
        self.vacuity = {"requires_sat": None, "dead_paths": [], "canaries": []}
        self.notes = []
        self.callees = []
        self.gen_seconds = 0.0

    def absorb(self, alt, r):
        self.alternatives += 1
        if r["status"] != "ok" and self.status == "ok":
            self.status, self.reason = r["status"], r["reason"]
        self.sha = r["sha"] or self.sha
        self.obligations.extend(LightOb(d, alt) for d in r["obligations"])
        self.trivial += r["trivial"]
        self.paths += r["paths"]
        v = r["vacuity"]
        rs = v.get("requires_sat")
        if self.vacuity["requires_sat"] in (None, "sat"):
            self.vacuity["requires_sat"] = rs
        self.vacuity["dead_paths"].extend(v.get("dead_paths", []))
        self.vacuity["canaries"].extend(v.get("canaries", []))
        self.notes.extend(r["notes"])
        self.callees = sorted(set(map(tuple, self.callees)) | set(map(tuple, r["callees"])))
        self.gen_seconds += r["gen_seconds"]


class PropertyRun:
    def __init__(self, pid, tier, seed):
        self.pid = pid
        self.tier = tier
        self.seed = seed
        self.t0 = time.time()
        self.reports = []
        self.bounded = []
        self.violations = []  # dict(key, text, replay)
        self.known = []
        self.undecided = []
        self.crashes = []
        self.notes = []
        self.repo = Repo(os.environ.get("VERIF_REPO", "/repo"))
        self.replay_dir = os.path.join(os.environ.get("VERIF_REPLAY_DIR", os.path.join(VERIF, "replays")), pid)
        self.baseline = load_baseline()

    # ------------------------------------------------------------------ proofs
    def prove(self, contract_keys, options=None):
        """generate and discharge the obligations of the given contracts, one worker task per (function, alternative)"""
        import multiprocessing as mp

        from pyvc.driver import n_alternatives

        contracts = []
        for key in contract_keys:
            c = REGISTRY.contracts.get(key)
            if c is None:
                self.crashes.append(f"no contract registered for {key}")
                continue
            if not c.assumed:
                contracts.append(c)
        tasks = []
        for ci, c in enumerate(contracts):
            for k in range(n_alternatives(c)):
                tasks.append((ci, k))
        self._contracts = contracts
        self._options = options
        global _WORK
        _WORK = (contracts, self.repo.root, options)
        procs = min(int(os.environ.get("VERIF_PROCS", "16")), max(1, len(tasks)))
        # biggest functions first
        weight = {ci: len(c.loops) * 10 + n_alternatives(c) for ci, c in enumerate(contracts)}
        tasks.sort(key=lambda t: -weight[t[0]])
        if procs == 1:
            results = [_prove_task(t) for t in tasks]
        else:
            with mp.get_context("fork").Pool(procs) as pool:
                results = pool.map(_prove_task, tasks, chunksize=1)
        by_c = {}
        for (ci, k), r in zip(tasks, results):
            by_c.setdefault(ci, []).append((k, r))
        new_reports = []
        for ci, c in enumerate(contracts):
            rep = LightReport(c)
            for k, r in sorted(by_c.get(ci, [])):
                rep.absorb(k, r)
            new_reports.append(rep)
        all_obs = [ob for rep in new_reports if rep.status == "ok" for ob in rep.obligations]
        discharge(all_obs)
        for ob in all_obs:
            ob.drop_text()
        self.reports.extend(new_reports)
        self._consistency(new_reports)
        _np4.TRUSTED_USED.update(x for _, r in zip(tasks, results) for x in r.get("trusted", []))
        _spec.LEMMAS_USED.update(x for _, r in zip(tasks, results) for x in r.get("lemmas", []))
        return self.reports

    def _consistency(self, reports):
        """prover / CPython consistency: the concrete reading of every fully proved contract is evaluated on the REAL function over
        seeded random small inputs; a clause that the prover discharged but that fails natively means the encoding (or a trusted
        library contract) is wrong - reported as a checker error, never as a pass."""
        from vlib import gen

        if os.environ.get("VERIF_NO_CONSISTENCY") == "1":
            return
        self.consistency = getattr(self, "consistency", {})
        for rep in reports:
            if rep.status != "ok" or not rep.obligations or any(ob.result["status"] != "discharged" for ob in rep.obligations):
                continue
            c = rep.contract
            if c.file.startswith("/verif/"):
                continue  # property lemmas over contracts: no repository function to call
            if c.options.get("no_concrete"):
                self.consistency[rep.label] = {"evaluated": 0, "note": "not sampled: the contract quantifies over a module global"}
                continue
            try:
                ev, sk, bad, und = gen.consistency_sample(c, self.repo, n=16, seed=self.seed, seconds=6.0)
            except Exception as e:  # noqa: BLE001  (no generator for these parameter types, or the clause is not evaluable concretely)
                self.consistency[rep.label] = {"evaluated": 0, "note": f"not sampled: {type(e).__name__}: {str(e)[:120]}"}
                continue
            self.consistency[rep.label] = {"evaluated": ev, "skipped_precondition": sk, "undecided": und, "violations": len(bad)}
            for b in bad[:2]:
                self.__dict__.setdefault("_consistency_bad", []).append((rep.label, str(b)[:700]))

    def materialize(self, rep, ob):
        """LightOb -> (full report, real Obligation with z3 terms) by regenerating its alternative in this process"""
        if not isinstance(ob, LightOb):
            return rep, ob
        cache = self.__dict__.setdefault("_regen", {})
        key = (rep.contract.key(), ob.alt)
        if key not in cache:
            cache[key] = self.regenerate(rep, ob.alt)
        full = cache[key]
        # several obligations can share a label (the same invariant preserved along different paths of a loop body): pick the one at the
        # same position among its namesakes, and insist on the same path trace - never a sibling
        same = [o for o in rep.obligations if isinstance(o, LightOb) and o.alt == ob.alt and o.label == ob.label]
        reals = [r for r in full.obligations if r.label == ob.label]
        def same_trace(r):
            # a worker reports the tail of the path trace only
            lt, rt = list(ob.trace or []), list(getattr(r, "trace", []) or [])
            return rt == lt or (len(lt) > 0 and rt[-len(lt):] == lt)

        cand = None
        if len(reals) == len(same) and ob in same:
            cand = reals[same.index(ob)]
            if not same_trace(cand):
                cand = None
        if cand is None:
            match = [r for r in reals if same_trace(r)]
            cand = match[0] if len(match) == 1 else None
        if cand is None:
            return full, None
        cand.result = dict(ob.result)
        return full, cand

    def regenerate(self, rep, alt):
        """re-run VC generation for one alternative in this process (needed for replay: z3 terms do not cross processes)"""
        full = verify_contract(REGISTRY, self.repo, rep.contract, self._options, only_alt=alt)
        return full

    # ------------------------------------------------------------------ verdicts
    def conclude(self, prop_module):
        from vlib import replay as RP

        findings = [f for f in load_known_findings() if f["property"] == self.pid]
        lines = []
        # proof obligations
        for rep in self.reports:
            if rep.status in ("outside-subset", "missing"):
                self.undecided.append(f"{rep.label}: {rep.status}: {rep.reason}")
                if not getattr(rep, "obligations", None):
                    continue
                # some alternative / path of the function left the subset, but the obligations generated before that (other alternatives, earlier
                # program points) are still obligations of the real code: a failed one is reported, not swallowed by the "undecided" verdict
            if rep.status == "error":
                self.crashes.append(f"{rep.label}: {rep.reason}")
                continue
            partial = rep.status in ("outside-subset", "missing")
            if not partial:
                if not rep.obligations:
                    self.crashes.append(f"{rep.label}: zero obligations generated (vacuous)")
                for dp in rep.vacuity.get("dead_paths", []):
                    self.crashes.append(f"{rep.label}: contradictory assumptions on path {dp} (vacuous proof)")
                if rep.vacuity.get("requires_sat") in ("unsat",):
                    self.crashes.append(f"{rep.label}: contradictory precondition")
                elif rep.vacuity.get("requires_sat") not in ("sat", "sat-without-lemmas", "unknown"):
                    self.undecided.append(f"{rep.label}: satisfiability of the precondition: {rep.vacuity.get('requires_sat')}")
            failed_keys = set()
            searched = {}
            for lob in sorted(rep.obligations, key=lambda o: 0 if o.result["status"] == "failed" else 1):
                st = lob.result["status"]
                if st not in ("undecided", "failed"):
                    continue
                k = ob_key(lob)
                if k in failed_keys:
                    continue
                if st == "undecided" and any(v.get("function") == rep.label for v in self.violations):
                    # a violation of this function's contract has already been reported: do not spend the large retry budget on its other
                    # open obligations (they are listed, not judged)
                    self.notes.append(f"{lob.label}: not discharged either (not retried: {rep.label} already has a reported violation)")
                    continue
                n_before = len(self.violations)
                full, ob = self.materialize(rep, lob)
                if ob is None:
                    self.crashes.append(f"{lob.label}: obligation could not be regenerated in the main process")
                    continue
                n_und, n_known = len(self.undecided), len(self.known)
                self._judge(full, ob, k, st, findings, RP, searched)
                if len(self.violations) > n_before or len(self.undecided) > n_und or len(self.known) > n_known:
                    # reported once per key; an obligation that was discharged on retry does NOT speak for its namesakes on other paths
                    failed_keys.add(k)
                for v in self.violations[n_before:]:
                    v["function"] = rep.label
        # prover / CPython consistency.  Verification is modular: a function whose own obligations hold can still misbehave natively when a
        # CALLEE breaks its contract, so a concrete failure is an inconsistency only when every obligation of this run was discharged.
        for label, what in getattr(self, "_consistency_bad", []):
            if self.violations or self.undecided or self.known:
                self.notes.append(f"{label} breaks its contract natively as well (consequence of the failed obligation(s) above): {what[:300]}")
            else:
                self.crashes.append(f"prover/CPython inconsistency: every obligation of this run was discharged but {label} breaks its contract on a concrete input: {what}")
        # bounded stand-ins
        for b in self.bounded:
            for e in b.errors:
                self.crashes.append(f"bounded[{b.name}]: {e}")
            seen = set()
            for f in b.failures:
                if f["key"] in seen:
                    continue
                seen.add(f["key"])
                kf = [x for x in findings if x["key"] == f["key"]]
                if kf:
                    self.known.append(f"KNOWN-FINDING: property={self.pid} {kf[0]['key']} {kf[0]['text']}")
                    continue
                path = RP.write_replay(self, kind="bounded", key=f["key"], what=f["what"], check=b.name, input=f["input"], observed=f["observed"])
                self.violations.append({"key": f["key"], "text": f["what"], "replay": path, "found_input": True})

    def _judge(self, rep, ob, k, st, findings, RP, searched):
        """verdict for one obligation that was not discharged (rep/ob carry z3 terms)"""
        if st == "failed":
            self._report_failed_obligation(rep, ob, k, findings, RP, searched)
            return
        # the solver gave up (unknown / timeout): never a violation by itself
        in_baseline = k in self.baseline.get(self.pid, {})
        if in_baseline:
            # discharged on the unchanged tree: retry once, alone, with a large budget, before saying anything
            from pyvc.discharge import discharge as _dis

            _dis([ob], procs=1, timeout_ms=int(os.environ.get("PYVC_RETRY_TIMEOUT_MS", "120000")))
            if ob.result["status"] == "discharged":
                self.notes.append(f"{ob.label}: discharged on retry with the large budget")
                return
            if ob.result["status"] == "failed":
                self._report_failed_obligation(rep, ob, k, findings, RP, searched)
                return
        outcome = RP.replay_obligation(self, rep, ob, searched, undecided=not in_baseline)
        kf = [x for x in findings if x["key"] == k]
        if kf and (outcome["found_input"] or in_baseline):
            self.known.append(f"KNOWN-FINDING: property={self.pid} {k} {kf[0]['text']}")
        elif outcome["found_input"]:
            self.violations.append({"key": k, "text": f"obligation {ob.label} is not provable and the real function breaks its contract on a concrete input", "replay": outcome["path"], "found_input": True})
        elif in_baseline:
            # an obligation that was discharged on the unchanged tree can no longer be discharged
            self.violations.append({"key": k, "text": f"obligation {ob.label} was discharged on the unchanged tree and cannot be discharged now ({ob.result['reason'][:160]})", "replay": outcome["path"], "found_input": False})
        else:
            self.undecided.append(f"{ob.label}: {ob.result['reason']}")

    def _report_failed_obligation(self, rep, ob, key, findings, RP, searched=None):
        kf = [x for x in findings if x["key"] == key]
        outcome = RP.replay_obligation(self, rep, ob, searched)
        if kf:
            self.known.append(f"KNOWN-FINDING: property={self.pid} {key} {kf[0]['text']}")
            return
        self.violations.append(
            {"key": key, "text": f"obligation {ob.label} fails ({ob.kind}, line {ob.line})", "replay": outcome["path"], "found_input": outcome["found_input"]}
        )

    def exit_code(self):
        if self.violations:
            return EXIT_VIOLATION  # a violation with a replay stands, whatever else went wrong in the run (crashes are printed as well)
        if self.crashes:
            return EXIT_CRASH
        if self.undecided:
            return EXIT_UNDECIDED
        return EXIT_OK

    # ------------------------------------------------------------------ evidence
    def write_evidence(self, prop_module):
        obs = [ob for rep in self.reports for ob in rep.obligations]
        discharged = [ob for ob in obs if ob.result and ob.result["status"] == "discharged"]
        by_backend = {}
        for ob in discharged:
            by_backend[ob.result["backend"]] = by_backend.get(ob.result["backend"], 0) + 1
        secs = [ob.result["seconds"] for ob in obs if ob.result]
        level = getattr(prop_module, "LEVEL", "proof")
        evaluations = sum(b.evaluations for b in self.bounded)
        distinct = sum(len(b.distinct) for b in self.bounded)
        trusted = sorted(set(_np4.TRUSTED_USED)) + sorted(_spec.LEMMAS_USED) + list(getattr(prop_module, "TRUSTED", []))
        coverage = {
            "obligations": len(obs),
            "discharged": len(discharged),
            "trivially_true_not_counted": sum(rep.trivial for rep in self.reports),
            "checker_cmd": f"./check {self.pid} --tier {self.tier}",
            "trusted_base": [
                "pyvc symbolic executor and its SMT encoding of Python/numpy (DESIGN.md 2)",
                "z3 5.1 / cvc5",
                "A-real: floats as mathematical reals; A-int64: numpy int64 as mathematical ints; A-alias: arrays are values",
                "partial correctness only (no termination proofs)",
            ]
            + trusted,
            "functions_under_contract": [
                {
                    "function": rep.label,
                    "file": rep.file,
                    "source_sha256": rep.sha,
                    "status": rep.status,
                    "reason": rep.reason,
                    "obligations": len(rep.obligations),
                    "paths": rep.paths,
                    "alternatives": rep.alternatives,
                    "precondition_satisfiable": rep.vacuity.get("requires_sat"),
                    "path_canaries": {r: rep.vacuity.get("canaries", []).count(r) for r in set(rep.vacuity.get("canaries", []))},
                    "callee_contracts_used": [f"{f}:{q}" for f, q in rep.callees],
                    "notes": rep.notes,
                }
                for rep in self.reports
            ],
            "by_backend": by_backend,
            "solver_seconds": {
                "total": round(sum(secs), 2),
                "max": round(max(secs), 2) if secs else 0,
                "slow": [ob.label for ob in obs if ob.result and ob.result["seconds"] > 10],
            },
            "assumed_at_call_sites": [
                f"{c.file}:{c.qualname} ({c.notes})" for c in REGISTRY.contracts.values() if c.assumed and any(p == self.pid for p in c.props)
            ],
            "prover_cpython_consistency": getattr(self, "consistency", {}),
            "lemmas_machine_checked_by_lean_this_run": getattr(self, "lean_checked", []),
            "run_notes": self.notes[:40],
            "dropped_constructs": "type annotations, docstrings, messages of raise/assert/warn (exception type kept), print/print_log, tqdm wrapper, del",
            "undecided": self.undecided,
            "failed": [v["key"] for v in self.violations],
            "known_findings": self.known,
            "evaluations": evaluations,
            "distinct_nontrivial": distinct,
            "rule": " || ".join(f"[{b.name}] {b.rule}" for b in self.bounded) or "no bounded stand-in in this tier",
            "exhaustive": bool(self.bounded) and all(b.exhaustive for b in self.bounded),
            "bounded_checks": [
                {
                    "name": b.name,
                    "evaluations": b.evaluations,
                    "distinct_nontrivial": len(b.distinct),
                    "exhaustive": b.exhaustive,
                    "functions_covered_only_this_way": b.functions,
                    "seconds": round(b.seconds, 2),
                    "failures": len(b.failures),
                }
                for b in self.bounded
            ],
            "samples": [
                {"obligation": ob.label, "kind": ob.kind, "line": ob.line, "smt2_bytes": getattr(ob, "nbytes", None), "backend": ob.result["backend"], "seconds": ob.result["seconds"]}
                for ob in obs[:3]
            ]
            + [s for b in self.bounded for s in b.samples[:2]],
            "explanation": getattr(prop_module, "EXPLANATION", ""),
        }
        if not coverage["samples"]:
            coverage["samples"] = ["(nothing explored)"]
        ev = {
            "property_id": self.pid,
            "tier": self.tier,
            "seed": self.seed,
            "level": level,
            "coverage": coverage,
            "assumptions": list(getattr(prop_module, "ASSUMPTIONS", [])) + trusted,
            "wall_s": round(time.time() - self.t0, 2),
            "violations": len(self.violations),
        }
        # (VERIF_EVIDENCE_DIR is only for runs against scratch trees with seeded changes, so that they do not overwrite the real evidence)
        evdir = os.environ.get("VERIF_EVIDENCE_DIR", os.path.join(VERIF, "evidence"))
        os.makedirs(evdir, exist_ok=True)
        path = os.path.join(evdir, f"{self.pid}.json")
        with open(path, "w") as f:
            json.dump(jsonable(ev), f, indent=1)
        return path


def run_property(pid, tier="quick", seed=0):
    random.seed(seed)
    try:
        import numpy as np

        np.random.seed(seed % (2**32))
    except Exception:
        pass
    prop = importlib.import_module(f"props.{pid}")
    for m in getattr(prop, "CONTRACT_MODULES", []):
        importlib.import_module(m)
    run = PropertyRun(pid, tier, seed)
    try:
        prop.run(run)
        run.conclude(prop)
    except Exception as e:  # noqa: BLE001
        run.crashes.append(f"{type(e).__name__}: {e}\n{traceback.format_exc(limit=10)}")
    try:
        run.write_evidence(prop)
    except Exception as e:  # noqa: BLE001
        run.crashes.append(f"evidence: {type(e).__name__}: {e}\n{traceback.format_exc(limit=6)}")
    obs = [ob for rep in run.reports for ob in rep.obligations]
    n_dis = sum(1 for ob in obs if ob.result and ob.result["status"] == "discharged")
    if os.environ.get("VERIF_REBASELINE") == "1":
        base = load_baseline()
        keys = {}
        for ob in obs:
            if ob.result and ob.result["status"] == "discharged":
                k = ob_key(ob)
                keys[k] = max(keys.get(k, 0.0), ob.result["seconds"])
        base[pid] = keys
        json.dump(base, open(os.path.join(VERIF, "baseline_obligations.json"), "w"), indent=0, sort_keys=True)
        # which z3 configuration decided the obligations the default tactic does not decide (tried first next time: pyvc/discharge.py)
        hpath = os.path.join(VERIF, "solver_hints.json")
        try:
            hints = json.load(open(hpath))
        except Exception:  # noqa: BLE001
            hints = {}
        mine = {}
        for ob in obs:
            if ob.result and ob.result["status"] == "discharged":
                be = (ob.result.get("backend") or "").replace("z3:", "").replace("+focus", "")
                if be in ("combined", "smt-core", "ematching-only"):
                    mine[ob_key(ob)] = be
        prefix_keys = set(keys)
        hints = {k: v for k, v in hints.items() if k not in prefix_keys}
        hints.update(mine)
        json.dump(hints, open(hpath, "w"), indent=0, sort_keys=True)
        print(f"[{pid}] baseline rewritten: {len(keys)} obligation keys")
    print(f"[{pid}] tier={tier} functions={len(run.reports)} obligations={len(obs)} discharged={n_dis} "
          f"bounded_evaluations={sum(b.evaluations for b in run.bounded)} wall={time.time()-run.t0:.1f}s")
    for rep in run.reports:
        if rep.status != "ok":
            print(f"  function {rep.label}: {rep.status}: {rep.reason}")
    for k in run.known:
        print(k)
    for u in run.undecided:
        print(f"UNDECIDED property={pid} {u}"[:600])
    for c in run.crashes:
        print(f"CHECKER-ERROR property={pid} {c}"[:2000])
    for v in run.violations:
        tail = "" if v["found_input"] else " no-failing-input-found"
        print(f"  violated: {v['text']}")
        print(f"VIOLATION property={pid} replay={v['replay']}{tail}")
    return run.exit_code()
