"""Bounded stand-in for C13: every graph view of the real LatticeMaze against the independent spec
(vlib.pyspec) over enumerated small grids; labelled bounded, never counted as proved."""
from __future__ import annotations

import time
import warnings

import numpy as np

from vlib import pyspec as S
from vlib.runner import BoundedResult


def _mk(conn):
    from maze_dataset.maze import LatticeMaze

    return LatticeMaze(connection_list=conn)


def check_graph(res, conn, rng, tag):
    from maze_dataset.token_utils import is_connection
    from maze_dataset.maze import LatticeMaze

    m = _mk(conn)
    R, C = conn.shape[1:]
    cells = S.cells((R, C))
    key = (R, C, conn.tobytes())
    res.seen(key, nontrivial=bool(conn.any()), sample={"shape": [R, C], "conn": conn.astype(int).tolist()})
    inp = {"conn": conn}
    # nodes_connected for all ordered pairs
    for a in cells:
        for b in cells:
            got = bool(m.nodes_connected(np.array(a), np.array(b)))
            if got != S.edge(conn, a, b):
                res.fail("C13:nodes_connected", f"nodes_connected({a},{b})={got}, spec {S.edge(conn,a,b)}", {**inp, "a": a, "b": b}, got)
    # neighbours
    for a in cells:
        got = m.get_coord_neighbors(np.array(a))
        gl = [tuple(int(x) for x in r) for r in got] if got.size else []
        if sorted(gl) != sorted(S.neighbors(conn, a)) or len(set(gl)) != len(gl):
            res.fail("C13:get_coord_neighbors", f"neighbours of {a}: {gl} vs spec {S.neighbors(conn,a)}", {**inp, "a": a}, gl)
    # degrees
    deg = m.coord_degrees()
    for a in cells:
        if int(deg[a]) != len(S.neighbors(conn, a)):
            res.fail("C13:coord_degrees", f"degree of {a}: {int(deg[a])} vs {len(S.neighbors(conn,a))}", inp, deg.tolist())
    # components
    for a in cells:
        got = m.gen_connected_component_from(np.array(a))
        gl = [tuple(int(x) for x in r) for r in got]
        if set(gl) != S.component(conn, a) or len(gl) != len(set(gl)):
            res.fail("C13:component", f"component of {a}: {sorted(gl)} vs {sorted(S.component(conn,a))}", {**inp, "a": a}, gl)
    # all cells
    nodes = [tuple(int(x) for x in r) for r in m.get_nodes()]
    if nodes != cells:
        res.fail("C13:get_nodes", f"get_nodes {nodes} vs row-major {cells}", inp, nodes)
    # adjacency-list view: each connection exactly once, either orientation
    want = S.edge_set(conn)
    for s0 in (False, True):
        for s1 in (False, True):
            adj = m.as_adj_list(shuffle_d0=s0, shuffle_d1=s1)
            rows = [frozenset({tuple(int(x) for x in e[0]), tuple(int(x) for x in e[1])}) for e in adj]
            if len(rows) != len(want) or set(rows) != want:
                res.fail("C13:as_adj_list", f"adjacency list (shuffle {s0},{s1}) lists {len(rows)} rows for {len(want)} connections", inp, adj.tolist())
            if not s1:
                for e in adj:
                    if tuple(e[0]) > tuple(e[1]):
                        res.fail("C13:as_adj_list:order", "unshuffled pair does not list the lesser coordinate first", inp, adj.tolist())
    # rebuild from adjacency list when the highest row and column index occur
    if R == C and want and max(max(c) for e in want for c in e) == R - 1:
        back = LatticeMaze.from_adj_list(m.as_adj_list())
        if back.connection_list.shape != conn.shape or not np.array_equal(back.connection_list, conn):
            res.fail("C13:from_adj_list", "from_adj_list(as_adj_list(m)) differs from m", inp, back.connection_list.astype(int).tolist())
    # batch edge test over all lattice edges in both orientations
    pairs = [(a, b) for a in cells for b in S.lattice_neighbors((R, C), a)]
    if pairs:
        arr = np.array(pairs, dtype=np.int8)
        got = is_connection(arr, conn)
        for (a, b), g in zip(pairs, got):
            if bool(g) != S.edge(conn, a, b):
                res.fail("C13:is_connection", f"is_connection({a},{b})={bool(g)} vs {S.edge(conn,a,b)}", {**inp, "a": a, "b": b}, bool(g))
    # path validation: valid walks, walks through walls, jumps between non-adjacent cells, repeated cells, out of bounds, empty
    for _ in range(6):
        n = int(rng.integers(0, 5))
        path = [cells[int(rng.integers(len(cells)))]] if n else []
        for _k in range(n - 1):
            u = rng.random()
            # mostly real moves; sometimes a move through a wall or out of the grid; sometimes a JUMP to any cell (the same cell included)
            nb = S.neighbors(conn, path[-1]) if u < 0.6 else (S.lattice_neighbors((R, C), path[-1]) + [(-1, 0), (R, 0), (0, C)] if u < 0.8 else list(cells))
            if not nb:
                break
            path.append(nb[int(rng.integers(len(nb)))])
        for eiv in (False, True):
            arr = np.array(path, dtype=int).reshape(-1, 2)
            got = bool(m.is_valid_path(arr, empty_is_valid=eiv))
            want_v = eiv if not path else (all(S.in_grid((R, C), c) for c in path) and all(S.edge(conn, path[k], path[k + 1]) for k in range(len(path) - 1)))
            if got != want_v:
                res.fail("C13:is_valid_path", f"is_valid_path({path}, {eiv})={got} vs {want_v}", {**inp, "path": path}, got)
    # forking / path-following points partition the solution by the documented rule
    if len(cells) >= 2:
        from maze_dataset.maze import SolvedMaze

        a = cells[int(rng.integers(len(cells)))]
        comp = sorted(S.component(conn, a))
        b = comp[int(rng.integers(len(comp)))]
        sp = S.all_shortest_paths(conn, a, b)
        if sp:
            sol = sp[0]
            sm = SolvedMaze(connection_list=conn, solution=np.array(sol))
            for always in (False, True):
                idxs, coords = sm.get_solution_forking_points(always_include_endpoints=always)
                want_idx = []
                for k, c in enumerate(sol):
                    endp = k == 0 or k == len(sol) - 1
                    if len(S.neighbors(conn, c)) > (1 if endp else 2) or (endp and always):
                        want_idx.append(k)
                if list(idxs) != want_idx or [tuple(int(x) for x in c) for c in coords] != [sol[k] for k in want_idx]:
                    res.fail("C13:forking_points", f"forking points {list(idxs)} vs rule {want_idx}", {**inp, "solution": sol}, list(idxs))
            fi, _ = sm.get_solution_forking_points()
            pi, pc = sm.get_solution_path_following_points()
            if sorted(list(fi) + [int(x) for x in pi]) != list(range(len(sol))) or [tuple(int(x) for x in c) for c in pc] != [sol[int(k)] for k in pi]:
                res.fail("C13:path_following_points", "forking and path-following points do not partition the solution", {**inp, "solution": sol}, [list(fi), [int(x) for x in pi]])


def run(tier, seed):
    warnings.simplefilter("ignore")
    t0 = time.time()
    rng = np.random.default_rng(seed)
    res = BoundedResult(
        "C13.views-vs-spec",
        rule="all well-formed connection structures on grids 1x1..2x3 (both orientations); on 3x3 "
        + ("all 4096" if tier == "thorough" else "a seeded sample of 160 of the 4096")
        + "; seeded random structures on larger grids up to "
        + ("15x15" if tier == "thorough" else "7x7")
        + "; every cell / ordered pair; non-trivial = at least one connection; distinct by (shape, bits)",
        exhaustive=False,
        functions=["LatticeMaze.get_nodes", "connection_list_to_adj_list", "LatticeMaze.from_adj_list", "is_connection", "SolvedMaze.get_solution_forking_points", "SolvedMaze.get_solution_path_following_points"],
    )
    try:
        for R, C in [(1, 1), (1, 2), (2, 1), (2, 2), (1, 3), (3, 1), (2, 3), (3, 2)]:
            for conn in S.all_conn_lists(R, C):
                check_graph(res, conn, rng, "exh")
        n33 = 2 ** 12
        idxs = range(n33) if tier == "thorough" else sorted(set(int(x) for x in rng.integers(0, n33, size=160)) | {0, n33 - 1})
        for i in idxs:
            check_graph(res, S.conn_from_index(3, 3, i), rng, "3x3")
        big = [(4, 4), (5, 5), (7, 7), (3, 6), (6, 2)] if tier == "quick" else [(4, 4), (5, 5), (7, 7), (3, 6), (6, 2), (10, 10), (15, 15), (12, 5)]
        reps = 3 if tier == "quick" else 8
        for R, C in big:
            for _ in range(reps):
                check_graph(res, S.random_conn(rng, R, C, p=float(rng.choice([0.3, 0.5, 0.7]))), rng, "rand")
    except Exception as e:  # noqa: BLE001
        import traceback

        res.errors.append(f"{type(e).__name__}: {e}\n{traceback.format_exc(limit=5)}")
    res.seconds = time.time() - t0
    return [res]


def replay(check, inp):
    """re-run one recorded input; True if the real code now agrees with the spec on it"""
    res = BoundedResult("replay", "replay")
    conn = np.array(inp["conn"], dtype=np.bool_)
    check_graph(res, conn, np.random.default_rng(0), "replay")
    for f in res.failures:
        print("  still failing:", f["key"], f["what"])
    return not res.failures
