"""Sidecar contracts for the pixel renderings in maze_dataset/maze/lattice_maze.py (C10, used by C17)."""
from pyvc.contracts import contract, Loop
from pyvc import tys as T
import contracts.lattice_maze  # noqa: F401

F = "maze_dataset/maze/lattice_maze.py"

# the black/white picture of a maze, from the statement: every cell pixel open; the pixel between two vertically /
# horizontally adjacent cells open exactly when they are connected; everything else wall
_CELL = "(p % 2 == 1 and q % 2 == 1)"
_DOWN = "(p % 2 == 0 and p >= 2 and q % 2 == 1 and {lim_d} and self.connection_list[0, p // 2 - 1, (q - 1) // 2])"
_RIGHT = "(p % 2 == 1 and q % 2 == 0 and q >= 2 and {lim_r} and self.connection_list[1, (p - 1) // 2, q // 2 - 1])"


def _pic(lim_d="True", lim_r="True"):
    return f"forall(lambda p, q: pixel_grid[p, q] == ({_CELL} or {_DOWN.format(lim_d=lim_d)} or {_RIGHT.format(lim_r=lim_r)}), (0, 2 * R + 1), (0, 2 * C + 1))"


_SHAPE = "pixel_grid.shape == (2 * R + 1, 2 * C + 1)"
PIX = T.GridT("bool", [None, None])


@contract(F, "LatticeMaze._as_pixels_bw")
class as_pixels_bw:
    params = dict(self=T.Maze())
    lets = dict(R="self.connection_list.shape[1]", C="self.connection_list.shape[2]")
    ensures = {
        "C10.bw.shape": "result.shape == (2 * R + 1, 2 * C + 1)",
        "C10.bw.picture": _pic().replace("pixel_grid[", "result["),
    }
    loops = {
        0: Loop(head="for i, row in enumerate(self.connection_list[0])", havoc=dict(pixel_grid=PIX),
                inv={"shape": _SHAPE, "rows-done": _pic(lim_d="p // 2 - 1 < _k", lim_r="False")}),
        1: Loop(head="for j, connected in enumerate(row)", havoc=dict(pixel_grid=PIX),
                inv={"shape": _SHAPE, "row-part": _pic(lim_d="(p // 2 - 1 < i or (p // 2 - 1 == i and (q - 1) // 2 < _k))", lim_r="False")}),
        2: Loop(head="for i, row in enumerate(self.connection_list[1])", havoc=dict(pixel_grid=PIX),
                inv={"shape": _SHAPE, "rows-done": _pic(lim_r="(p - 1) // 2 < _k")}),
        3: Loop(head="for j, connected in enumerate(row)", havoc=dict(pixel_grid=PIX),
                inv={"shape": _SHAPE, "row-part": _pic(lim_r="((p - 1) // 2 < i or ((p - 1) // 2 == i and q // 2 - 1 < _k))")}),
    }
    result = lambda env: T.GridT("bool", [2 * env["R"] + 1, 2 * env["C"] + 1])
    props = ["C10", "C17"]


@contract(F, "LatticeMaze._from_pixel_grid_bw")
class from_pixel_grid_bw:
    params = dict(cls=T.Const(None), pixel_grid=T.GridT("bool", [None, None], min_dim=3))
    lets = dict(H="pixel_grid.shape[0]", W="pixel_grid.shape[1]")
    requires = ["H % 2 == 1", "W % 2 == 1"]
    ensures = {
        "C10.frombw.shape": "result[0].shape == (2, H // 2, W // 2) and result[1][0] == H // 2 and result[1][1] == W // 2",
        "C10.frombw.down": "forall(lambda i, j: result[0][0, i, j] == pixel_grid[2 * i + 2, 2 * j + 1], (0, H // 2), (0, W // 2))",
        "C10.frombw.right": "forall(lambda i, j: result[0][1, i, j] == pixel_grid[2 * i + 1, 2 * j + 2], (0, H // 2), (0, W // 2))",
    }
    result = lambda env: T.TupleT(T.GridT("bool", [2, T.idiv(env["H"], 2), T.idiv(env["W"], 2)]), T.TupleT(T.Int, T.Int))
    props = ["C10"]


# ----------------------------------------------------------------------------- as_pixels (colour image)
_BW = f"({_CELL} or {_DOWN.format(lim_d='True')} or {_RIGHT.format(lim_r='True')})"
_BASE = f"(PixelColors.OPEN if {_BW} else PixelColors.WALL)"
_SOL = "self.solution"
_ON_CELL = "exists(lambda t: p == 2 * {s}[t][0] + 1 and q == 2 * {s}[t][1] + 1, (0, {hi}))"
_BETWEEN = "exists(lambda t: p == {s}[t][0] + {s}[t + 1][0] + 1 and q == {s}[t][1] + {s}[t + 1][1] + 1, (0, {hi}))"


def _colour(cells_hi, between_hi, endpoints=True):
    on_path = f"({_ON_CELL.format(s=_SOL, hi=cells_hi)} or {_BETWEEN.format(s=_SOL, hi=between_hi)})"
    inner = f"(PixelColors.PATH if (has_field(self, 'solution') and show_solution and {on_path}) else {_BASE})"
    if not endpoints:
        return inner
    start = "(has_field(self, 'start_pos') and show_endpoints and p == 2 * self.start_pos[0] + 1 and q == 2 * self.start_pos[1] + 1)"
    end = "(has_field(self, 'end_pos') and show_endpoints and p == 2 * self.end_pos[0] + 1 and q == 2 * self.end_pos[1] + 1)"
    return f"(PixelColors.END if {end} else (PixelColors.START if {start} else {inner}))"


def _img(colour, name="result"):
    return f"forall(lambda p, q: rgb_is({name}, p, q, {colour}), (0, 2 * R + 1), (0, 2 * C + 1))"


_N = "self.solution.shape[0]"
RGB = T.GridT("int", [None, None, 3], dtype="uint8")
CONN = T.GridT("bool", [2, None, None])


@contract(F, "LatticeMaze.as_pixels")
class as_pixels:
    params = dict(
        self=T.OneOf(
            T.RecT("LatticeMaze", connection_list=CONN),
            T.RecT("TargetedLatticeMaze", connection_list=CONN, start_pos=T.Coord, end_pos=T.Coord),
            T.RecT("SolvedMaze", connection_list=CONN, start_pos=T.Coord, end_pos=T.Coord, solution=T.GridT("int", [None, 2], min_dim=1)),
        ),
        show_endpoints=T.Bool,
        show_solution=T.Bool,
    )
    lets = dict(R="self.connection_list.shape[1]", C="self.connection_list.shape[2]")
    requires = [
        "not has_field(self, 'start_pos') or (in_grid(self, self.start_pos) and in_grid(self, self.end_pos))",
        # a solved maze: the solution is a lattice walk in the grid from start to end (SolvedMaze.__init__ derives start/end from it)
        f"not has_field(self, 'solution') or (forall(lambda t: in_grid(self, {_SOL}[t]), (0, {_N}))"
        f" and forall(lambda t: lat_adj({_SOL}[t], {_SOL}[t + 1]), (0, {_N} - 1))"
        f" and self.start_pos[0] == {_SOL}[0][0] and self.start_pos[1] == {_SOL}[0][1]"
        f" and self.end_pos[0] == {_SOL}[{_N} - 1][0] and self.end_pos[1] == {_SOL}[{_N} - 1][1])",
    ]
    ensures = {
        "C10.pixels.shape": "result.shape == (2 * R + 1, 2 * C + 1, 3)",
        # start and end on their cells whenever endpoints are requested and the maze has them; the solution on exactly its
        # cells and in-between pixels whenever requested; everything else the black/white picture in OPEN / WALL
        "C10.pixels.picture": _img(_colour(_N, f"{_N} - 1")),
    }
    raises = {"ValueError": "show_solution and not show_endpoints"}
    loops = {
        0: Loop(head="for coord in self.solution", havoc=dict(pixel_grid=RGB),
                inv={"shape": "pixel_grid.shape == (2 * R + 1, 2 * C + 1, 3)", "cells-so-far": _img(_colour("_k", "0", endpoints=False), "pixel_grid")}),
        1: Loop(head="for index, coord in enumerate(self.solution[:-1])", havoc=dict(pixel_grid=RGB),
                inv={"shape": "pixel_grid.shape == (2 * R + 1, 2 * C + 1, 3)", "between-so-far": _img(_colour(_N, "_k", endpoints=False), "pixel_grid")}),
    }
    result = lambda env: T.GridT("int", [2 * env["R"] + 1, 2 * env["C"] + 1, 3])
    pure_result = True
    props = ["C10", "C17"]


from pyvc.contracts import REGISTRY  # noqa: E402

REGISTRY.class_files.update({"LatticeMaze": F, "TargetedLatticeMaze": F, "SolvedMaze": F})


@contract("/verif/contracts/lemmas_src.py", "bw_roundtrip")
class bw_roundtrip:
    """Lemma C10.bw: from_bw(as_bw(m)) is m's connection structure, for every maze with at least one cell (no well-formedness needed)"""
    params = dict(m=T.Maze())
    requires = ["m.connection_list.shape[1] >= 1", "m.connection_list.shape[2] >= 1"]
    ensures = {"C10.bw-inverse": "same_grid(result, m.connection_list)"}
    props = ["C10"]


# ----------------------------------------------------------------------------- reading images back: which kind of maze is drawn
IMG3 = T.GridT("int", [None, None, 3])
_HAS = "exists(lambda p, q: rgb_is(pixel_grid, p, q, color), (0, pixel_grid.shape[0]), (0, pixel_grid.shape[1]))"


@contract(F, "color_in_pixel_grid")
class color_in_pixel_grid:
    params = dict(pixel_grid=IMG3, color=T.TupleT(T.Int, T.Int, T.Int))
    ensures = {"C10.colour-present": f"result == {_HAS}"}
    loops = {
        0: Loop(head="for row in pixel_grid", havoc=dict(),
                inv={"rows-without": "forall(lambda p, q: not rgb_is(pixel_grid, p, q, color), (0, _k), (0, pixel_grid.shape[1]))"}),
        1: Loop(head="for pixel in row", havoc=dict(),
                inv={"row-part-without": "forall(lambda q: not rgb_is(row, q, color), (0, _k))"}),
    }
    result = T.Bool
    pure_result = True
    props = ["C10"]


def _has(c):
    return f"exists(lambda p, q: rgb_is(data, p, q, PixelColors.{c}), (0, data.shape[0]), (0, data.shape[1]))"


@contract(F, "detect_pixels_type")
class detect_pixels_type:
    params = dict(data=IMG3)
    ensures = {
        # the kind of maze drawn: endpoints present -> targeted, endpoints and path pixels -> solved, neither -> plain
        "C10.detected-kind": f"result.__name__ == ('SolvedMaze' if (({_has('START')} or {_has('END')}) and {_has('PATH')}) else"
        f" ('TargetedLatticeMaze' if ({_has('START')} or {_has('END')}) else 'LatticeMaze'))",
    }
    props = ["C10"]
