"""Sidecar contracts for the rasterized post-processing helpers (C17)."""
from pyvc.contracts import contract, Loop
from pyvc import tys as T

LM = "maze_dataset/maze/lattice_maze.py"
RZ = "maze_dataset/dataset/rasterized.py"

IMG = T.GridT("int", [None, None, 3])
_WALL = "(image[{p}, {q}, 0] == 0 and image[{p}, {q}, 1] == 0 and image[{p}, {q}, 2] == 0)"
# outside the image counts as wall
_WALL_OR_OUT = "({p} < 0 or {p} >= H or {q} < 0 or {q} >= W or " + _WALL + ")"


def _w(p, q):
    return _WALL_OR_OUT.format(p=p, q=q)


@contract(LM, "_remove_isolated_cells")
class remove_isolated_cells:
    params = dict(image=IMG)
    lets = dict(H="image.shape[0]", W="image.shape[1]")
    ensures = {
        "C17.isolated.shape": "result.shape == (H, W, 3)",
        # open pixels with no open 4-neighbour become wall, everything else is unchanged
        "C17.isolated": "forall(lambda p, q, c: result[p, q, c] == ite("
        f"not {_WALL.format(p='p', q='q')} and {_w('p', 'q + 1')} and {_w('p', 'q - 1')} and {_w('p + 1', 'q')} and {_w('p - 1', 'q')},"
        " 0, image[p, q, c]), (0, H), (0, W), (0, 3))",
    }
    result = lambda env: T.GridT("int", [env["H"], env["W"], 3])
    props = ["C17"]


@contract(RZ, "_extend_pixels")
class extend_pixels:
    params = dict(image=IMG, n_mult=T.Const(2), n_bdry=T.Const(1))
    lets = dict(H="image.shape[0]", W="image.shape[1]")
    ensures = {
        "C17.extend.shape": "result.shape == (2 * H + 2, 2 * W + 2, 3)",
        # each pixel doubled in both directions, inside a one-pixel wall frame
        "C17.extend": "forall(lambda p, q, c: result[p, q, c] == ite(1 <= p and p <= 2 * H and 1 <= q and q <= 2 * W,"
        " image[(p - 1) // 2, (q - 1) // 2, c], 0), (0, 2 * H + 2), (0, 2 * W + 2), (0, 3))",
    }
    result = lambda env: T.GridT("int", [2 * env["H"] + 2, 2 * env["W"] + 2, 3])
    props = ["C17"]
